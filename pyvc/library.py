"""Axiomatised built-ins, string methods, operators and %-formatting for pyvc."""
import ast
import z3
import string as _string
from fractions import Fraction

from .values import *  # noqa
from . import values as V
from .engine import (Builtin, BoundMethod, FuncVal, LambdaVal, ClassVal, PropertyVal, Obj, ExcClass,
                     ModuleVal, PartialVal, AbsStr, NVec, PathAbort)


def B(name):
    def deco(fn):
        return Builtin(name, fn)
    return deco


# ----------------------------------------------------------------------------------------
# arithmetic


def _num(x):
    if isinstance(x, bool):
        return int(x)
    return x


def py_floordiv(eng, a, b):
    if is_int_like(a) and is_int_like(b):
        if isinstance(a, int) and isinstance(b, int):
            if b == 0:
                raise PyExc('ZeroDivisionError', 'integer division by zero')
            return a // b
        if eng.branch(to_int(b) == 0):
            raise PyExc('ZeroDivisionError', 'integer division by zero')
        if isinstance(b, int):
            return concretize(to_int(a) / b) if b > 0 else concretize((-to_int(a)) / (-b))
        return concretize(z3.If(b > 0, to_int(a) / to_int(b), (-to_int(a)) / (-to_int(b))))
    if isinstance(a, (int, Fraction)) and isinstance(b, (int, Fraction)):
        if b == 0:
            raise PyExc('ZeroDivisionError', 'float floor division by zero')
        return Fraction(a) // Fraction(b)
    raise Unsupported('floor division of reals')


def py_mod(eng, a, b):
    if is_int_like(a) and is_int_like(b):
        if isinstance(a, int) and isinstance(b, int):
            if b == 0:
                raise PyExc('ZeroDivisionError', 'integer modulo by zero')
            return a % b
        q = py_floordiv(eng, a, b)
        return concretize(to_int(a) - to_int(b) * to_int(q))
    if isinstance(a, (int, Fraction)) and isinstance(b, (int, Fraction)):
        if b == 0:
            raise PyExc('ZeroDivisionError', 'float modulo')
        return Fraction(a) % Fraction(b)
    raise Unsupported('modulo of reals')


def py_truediv(eng, a, b):
    if isinstance(b, (int, Fraction)):
        if b == 0:
            raise PyExc('ZeroDivisionError', 'division by zero')
        if isinstance(a, (int, Fraction)):
            return Fraction(a) / Fraction(b)
        return concretize(to_real(a) / to_real(b))
    if getattr(eng, 'assume_nonzero_div', False):
        eng.assumptions_used.add('division safety not checked in this program: symbolic denominators are assumed non-zero')
        eng.assume(to_real(b) != 0)
    elif eng.branch(to_real(b) == 0, precise=True):
        raise PyExc('ZeroDivisionError', 'division by zero')
    q = V.exact_quotient(to_real(a), to_real(b))        # b != 0 here: a / b == q when b divides a as a polynomial
    if q is not None:
        return concretize(q)
    return concretize(to_real(a) / to_real(b))


def py_pow(eng, a, b):
    if isinstance(a, (int, Fraction)) and isinstance(b, int):
        if b < 0 and a == 0:
            raise PyExc('ZeroDivisionError', '0 ** negative')
        return Fraction(a) ** b if (b < 0 or isinstance(a, Fraction)) else a ** b
    if isinstance(b, int) and b >= 0:
        r = 1
        for _ in range(b):
            r = r * (to_real(a) if is_real_like(a) else a)
        return concretize(r) if is_z3(r) else r
    if isinstance(b, int) and b < 0:
        d = py_pow(eng, a, -b)
        return py_truediv(eng, 1, d)
    if isinstance(b, Fraction) and b == Fraction(1, 2):
        return m_sqrt.fn(eng, a)
    # non-integer / symbolic exponent: an uninterpreted real (positive when the base is)
    eng.assumptions_used.add('x ** y with a non-integer or symbolic exponent is an uninterpreted real (positive for a positive base)')
    r = z3.Real(eng.fresh('pow'))
    if isinstance(a, (int, Fraction)) and a > 0:
        eng.assume(r > 0)
    return r


def scalar_binop(eng, op, a, b):
    a, b = _num(a), _num(b)
    if a is None or b is None:
        raise PyExc('TypeError', 'unsupported operand type(s): NoneType')
    if isinstance(a, V.NaN) or isinstance(b, V.NaN):
        return NAN
    if not (is_num(a) and is_num(b)):
        raise Unsupported('arithmetic on %s, %s' % (type(a).__name__, type(b).__name__))
    symbolic = is_z3(a) or is_z3(b)
    real = is_real_like(a) or is_real_like(b)
    if isinstance(op, ast.Div):
        return py_truediv(eng, a, b)
    if isinstance(op, ast.FloorDiv):
        return py_floordiv(eng, a, b)
    if isinstance(op, ast.Mod):
        return py_mod(eng, a, b)
    if isinstance(op, ast.Pow):
        return py_pow(eng, a, b)
    if not symbolic:
        if isinstance(a, float): a = Fraction(repr(a))
        if isinstance(b, float): b = Fraction(repr(b))
        if isinstance(op, ast.Add): return a + b
        if isinstance(op, ast.Sub): return a - b
        if isinstance(op, ast.Mult): return a * b
        raise Unsupported('operator %s' % type(op).__name__)
    if real:
        x, y = to_real(a), to_real(b)
    else:
        x, y = to_int(a), to_int(b)
    if isinstance(op, ast.Add): return concretize(x + y)
    if isinstance(op, ast.Sub): return concretize(x - y)
    if isinstance(op, ast.Mult): return concretize(x * y)
    raise Unsupported('operator %s' % type(op).__name__)


def is_strlike(x):
    return isinstance(x, (str, SymStr))


_DUNDER = {ast.Add: '__add__', ast.Sub: '__sub__', ast.Mult: '__mul__'}


def binop(eng, op, a, b):
    if isinstance(a, Obj) and a.cls is not None and type(op) in _DUNDER:
        m = a.cls.lookup(_DUNDER[type(op)])
        if m is not None:
            return eng.call(m, [a, b])
    # strings
    if is_strlike(a) and isinstance(op, ast.Mod):
        return str_format(eng, a, b)
    if is_strlike(a) and is_strlike(b) and isinstance(op, ast.Add):
        return norm_str(V.str_concat(a, b))
    if isinstance(a, AbsStr) or isinstance(b, AbsStr):
        raise Unsupported('operation on a formatted number string')
    if is_strlike(a) and isinstance(op, ast.Mult) or is_strlike(b) and isinstance(op, ast.Mult):
        s, n = (a, b) if is_strlike(a) else (b, a)
        if isinstance(n, bool): n = int(n)
        if not isinstance(n, int):
            raise Unsupported('string repetition by a symbolic count')
        if isinstance(s, str):
            return s * n
        if not s.fixed:
            raise Unsupported('repetition of symbolic-length string')
        return SymStr(s.chars * max(n, 0))
    if is_strlike(a) or is_strlike(b):
        raise PyExc('TypeError', 'unsupported operand types for str')
    # lists / tuples
    if isinstance(a, (list, tuple)) and isinstance(b, (list, tuple)) and isinstance(op, ast.Add):
        if type(a) != type(b):
            raise PyExc('TypeError', 'can only concatenate list to list')
        return a + b
    if isinstance(a, (list, tuple)) and isinstance(op, ast.Mult) and isinstance(b, int):
        return a * b
    if isinstance(b, (list, tuple)) and isinstance(op, ast.Mult) and isinstance(a, int):
        return b * a
    if isinstance(a, (set, frozenset)) and isinstance(b, (set, frozenset)):
        if isinstance(op, ast.BitAnd): return a & b
        if isinstance(op, ast.BitOr): return a | b
        if isinstance(op, ast.Sub): return a - b
    # numpy vectors
    if isinstance(a, NVec) or isinstance(b, NVec):
        a2d = isinstance(a, NVec) and a.items and isinstance(a.items[0], NVec)
        b2d = isinstance(b, NVec) and b.items and isinstance(b.items[0], NVec)
        if a2d and not b2d:
            return NVec([binop(eng, op, row, b) for row in a.items])      # row-wise broadcast
        if b2d and not a2d:
            return NVec([binop(eng, op, a, row) for row in b.items])
        if isinstance(a, NVec) and isinstance(b, NVec):
            if len(a.items) != len(b.items):
                if len(b.items) == 1:
                    return NVec([binop(eng, op, x, b.items[0]) for x in a.items])
                if len(a.items) == 1:
                    return NVec([binop(eng, op, a.items[0], y) for y in b.items])
                raise PyExc('ValueError', 'operands could not be broadcast together')
            return NVec([binop(eng, op, x, y) for x, y in zip(a.items, b.items)])
        if isinstance(a, NVec):
            if isinstance(b, (list, tuple)):
                return binop(eng, op, a, NVec(b))
            return NVec([binop(eng, op, x, b) for x in a.items])
        if isinstance(a, (list, tuple)):
            return binop(eng, op, NVec(a), b)
        return NVec([binop(eng, op, a, y) for y in b.items])
    if isinstance(a, V.Inf) or isinstance(b, V.Inf):
        raise Unsupported('arithmetic on infinity')
    if isinstance(op, (ast.BitOr, ast.BitAnd, ast.BitXor, ast.LShift, ast.RShift)):
        a2, b2 = (int(a) if isinstance(a, bool) else a), (int(b) if isinstance(b, bool) else b)
        if isinstance(a2, int) and isinstance(b2, int):
            return {ast.BitOr: a2 | b2, ast.BitAnd: a2 & b2, ast.BitXor: a2 ^ b2, ast.LShift: a2 << b2 if isinstance(op, ast.LShift) else 0,
                    ast.RShift: a2 >> b2 if isinstance(op, ast.RShift) else 0}[type(op)]
        raise Unsupported('bit operation on symbolic integers')
    return scalar_binop(eng, op, a, b)


def compare(eng, op, a, b):
    if isinstance(op, ast.Is):
        return _identical(a, b)
    if isinstance(op, ast.IsNot):
        return not _identical(a, b)
    if isinstance(op, ast.In):
        return contains(eng, b, a)
    if isinstance(op, ast.NotIn):
        return z_not(contains(eng, b, a))
    if isinstance(op, ast.Eq):
        return equals(eng, a, b)
    if isinstance(op, ast.NotEq):
        return z_not(equals(eng, a, b))
    # ordering
    a, b = _num(a), _num(b)
    if a is None or b is None:
        raise PyExc('TypeError', 'ordering comparison with NoneType')
    if isinstance(a, V.NaN) or isinstance(b, V.NaN):
        return False
    if isinstance(a, NVec) or isinstance(b, NVec):
        if isinstance(a, NVec) and len(a.items) == 1: a = a.items[0]
        if isinstance(b, NVec) and len(b.items) == 1: b = b.items[0]
        if isinstance(a, NVec) or isinstance(b, NVec):
            raise Unsupported('array comparison')
    if is_strlike(a) and is_strlike(b):
        a, b = norm_str(a), norm_str(b)
        if isinstance(a, str) and isinstance(b, str):
            return _cmp(op, a, b)
        sa, sb = SymStr.of(a), SymStr.of(b)
        if sa.fixed and sb.fixed and sa.n == 1 and sb.n == 1:
            return _cmp(op, sa.chars[0], sb.chars[0])
        raise Unsupported('ordering of symbolic strings')
    if isinstance(a, (list, tuple)) and isinstance(b, (list, tuple)):
        if not is_symbolic(a) and not is_symbolic(b):
            return _cmp(op, a, b)
        raise Unsupported('ordering of symbolic sequences')
    if not (is_num(a) and is_num(b)):
        if isinstance(a, V.Inf) or isinstance(b, V.Inf):
            raise Unsupported('comparison with infinity')
        raise PyExc('TypeError', 'ordering not supported between %s and %s' % (type(a).__name__, type(b).__name__))
    if not is_z3(a) and not is_z3(b):
        if isinstance(a, float): a = Fraction(repr(a))
        if isinstance(b, float): b = Fraction(repr(b))
        return _cmp(op, a, b)
    if is_real_like(a) or is_real_like(b):
        x, y = to_real(a), to_real(b)
    else:
        x, y = to_int(a), to_int(b)
    return concretize(_cmp(op, x, y))


def _cmp(op, x, y):
    if isinstance(op, ast.Lt): return x < y
    if isinstance(op, ast.LtE): return x <= y
    if isinstance(op, ast.Gt): return x > y
    if isinstance(op, ast.GtE): return x >= y
    raise Unsupported('comparison operator')


def _identical(a, b):
    if a is None or b is None:
        return a is None and b is None
    if isinstance(a, bool) or isinstance(b, bool):
        return isinstance(a, bool) and isinstance(b, bool) and a == b
    return a is b


def equals(eng, a, b):
    if a is None or b is None:
        return a is None and b is None
    if is_strlike(a) and is_strlike(b):
        return V.str_eq(a, b)
    if isinstance(a, AbsStr) or isinstance(b, AbsStr):
        if a is b:
            return True
        raise Unsupported('comparison of formatted number strings')
    if is_strlike(a) != is_strlike(b):
        return False
    if isinstance(a, V.NaN) or isinstance(b, V.NaN):
        return False
    if isinstance(a, (list, tuple)) and isinstance(b, (list, tuple)):
        if type(a) != type(b) or len(a) != len(b):
            return False
        return z_and(*[equals(eng, x, y) for x, y in zip(a, b)])
    if isinstance(a, NVec) and isinstance(b, NVec):
        raise Unsupported('array equality')
    if (is_num(a) or is_boolish(a)) and (is_num(b) or is_boolish(b)):
        a, b = _num(a), _num(b)
        if is_z3(a) and z3.is_bool(a): a = to_int(a)
        if is_z3(b) and z3.is_bool(b): b = to_int(b)
        if isinstance(a, float): a = Fraction(repr(a))
        if isinstance(b, float): b = Fraction(repr(b))
        return z_eq(a, b)
    if isinstance(a, dict) and isinstance(b, dict):
        if set(a) != set(b):
            return False
        return z_and(*[equals(eng, a[k], b[k]) for k in a])
    if isinstance(a, (set, frozenset)) and isinstance(b, (set, frozenset)):
        return a == b
    if type(a) != type(b):
        return False
    return a is b or (not isinstance(a, Obj) and a == b)


def contains(eng, container, item):
    if isinstance(container, (dict, set, frozenset)):
        if is_symbolic(item) or (isinstance(item, SymStr) and item.symbolic):
            return z_or(*[equals(eng, k, item) for k in container])
        return eng.hashable(item) in container
    if isinstance(container, (list, tuple)):
        return z_or(*[equals(eng, x, item) for x in container])
    if is_strlike(container):
        item = norm_str(item)
        container = norm_str(container)
        if isinstance(item, str) and isinstance(container, str):
            return item in container
        it = SymStr.of(item)
        if isinstance(container, str) and it.fixed and it.n == 1:
            return V.char_in(it.chars[0], container) if container else False
        cs = SymStr.of(container)
        if it.fixed and it.n == 1:
            return V.str_any(cs, lambda c: z_eq(c, it.chars[0]))
        if it.fixed:
            # a fixed-length needle somewhere in the string: one disjunct per start position
            k = it.n
            if k == 0: return True
            return z_or(*[z_and(V._le(p + k, cs.n), *[z_eq(cs.chars[p + j], it.chars[j]) for j in range(k)]) for p in range(cs.cap - k + 1)])
        raise Unsupported('substring test on symbolic strings')
    if isinstance(container, NVec):
        return z_or(*[equals(eng, x, item) for x in container.items])
    if container is None:
        raise PyExc('TypeError', "argument of type 'NoneType' is not iterable")
    raise Unsupported('membership in %s' % type(container).__name__)


# ----------------------------------------------------------------------------------------
# % formatting


def parse_format(fmt):
    """Split a concrete format string into literal pieces and conversion specs."""
    out, i, n = [], 0, len(fmt)
    lit = ''
    while i < n:
        c = fmt[i]
        if c != '%':
            lit += c; i += 1; continue
        if i + 1 < n and fmt[i + 1] == '%':
            lit += '%'; i += 2; continue
        j = i + 1
        flags = ''
        while j < n and fmt[j] in '-+ 0#':
            flags += fmt[j]; j += 1
        width = ''
        while j < n and fmt[j].isdigit():
            width += fmt[j]; j += 1
        prec = None
        if j < n and fmt[j] == '.':
            j += 1; prec = ''
            while j < n and fmt[j].isdigit():
                prec += fmt[j]; j += 1
        if j >= n:
            raise PyExc('ValueError', 'incomplete format')
        conv = fmt[j]
        if lit:
            out.append(('lit', lit)); lit = ''
        out.append(('spec', flags, int(width) if width else 0, int(prec) if prec not in (None, '') else (0 if prec == '' else None), conv))
        i = j + 1
    if lit:
        out.append(('lit', lit))
    return out


def format_one(eng, flags, width, prec, conv, val):
    left = '-' in flags
    if conv == 's':
        if isinstance(val, AbsStr):
            return val
        if is_strlike(val):
            s = val
        elif isinstance(val, (int, Fraction)) and not isinstance(val, bool):
            s = str(val) if isinstance(val, int) else repr(float(val))
        elif val is None:
            s = 'None'
        else:
            raise Unsupported('%%s of %s' % type(val).__name__)
        if prec is not None:
            s = V.str_slice(s, 0, prec)
        return V.str_just(s, width, left) if width else s
    if conv in 'di':
        if isinstance(val, bool):
            val = int(val)
        if isinstance(val, int):
            return ('%' + flags + (str(width) if width else '') + 'd') % val
        if isinstance(val, Fraction):
            return ('%' + flags + (str(width) if width else '') + 'd') % int(val)
        if is_z3(val) and z3.is_int(val):
            if flags.replace('-', ''):
                raise Unsupported('integer format flags %r' % flags)
            return int_to_symstr(eng, val, width, left)
        if is_strlike(val) or val is None:
            raise PyExc('TypeError', '%d format: a real number is required')
        raise Unsupported('%%d of %s' % type(val).__name__)
    if conv in 'eEfFgG':
        if isinstance(val, bool):
            val = int(val)
        if is_strlike(val) or val is None or isinstance(val, (list, tuple, dict)):
            raise PyExc('TypeError', 'must be real number, not %s' % type(val).__name__)
        if isinstance(val, (int, Fraction)):
            spec = '%' + flags + (str(width) if width else '') + ('.%d' % prec if prec is not None else '') + conv
            return spec % float(val)
        if is_z3(val):
            # axioms F1/F2: the natural (unpadded) rendering has a symbolic length natlen >= 1;
            # the result has length max(width, natlen).  Content uninterpreted.
            eng.assumptions_used.add('F1: len("%N.P<efg>" % v) >= N (printf pads, never truncates)')
            nat = z3.Int(eng.fresh('natlen'))
            eng.assume(nat >= 1)
            n = concretize(z3.If(nat >= width, nat, z3.IntVal(width)))
            spec = '%' + flags + (str(width) if width else '') + ('.%d' % prec if prec is not None else '') + conv
            return AbsStr(n, spec, val, 'natlen:%s' % nat)
        if isinstance(val, V.NaN):
            return ('%' + flags + (str(width) if width else '') + conv) % float('nan')
        raise Unsupported('%%%s of %s' % (conv, type(val).__name__))
    raise Unsupported('format conversion %r' % conv)


def int_to_symstr(eng, val, width, left):
    """'%Nd' % symbolic int: exact character-vector model for |val| < 10**MAXD."""
    if not width and not eng.feasible(z3.Not(z3.And(val >= 0, val <= 9))):
        return SymStr([concretize(48 + val)])          # one decimal digit
    MAXD = None
    for k in range(1, 13):
        if not eng.feasible(z3.Not(z3.And(val > -10 ** k, val < 10 ** k))):
            MAXD = k
            break
    if MAXD is None:
        MAXD = 12
        if not eng.branch(z3.And(val > -10 ** MAXD, val < 10 ** MAXD)):
            raise Unsupported('integer of more than %d digits in %%d' % MAXD)
    neg = val < 0
    a = z3.If(neg, -val, val)
    nd = z3.IntVal(1)
    for k in range(1, MAXD):
        nd = z3.If(a >= 10 ** k, k + 1, nd)
    nd = concretize(nd)
    natlen = concretize(nd + z3.If(neg, 1, 0))
    cap = max(width, MAXD + 1)
    total = concretize(z3.If(natlen >= width, natlen, z3.IntVal(width)))
    # digit j (from the left, 0-based) of a: (a / 10**(nd-1-j)) % 10
    # decimal digits as fresh variables tied to a by a linear constraint (no div/mod)
    ds = [z3.Int(eng.fresh('digit')) for _ in range(MAXD)]
    eng.assume(z3.And(*[z3.And(d >= 0, d <= 9) for d in ds]))
    eng.assume(a == z3.Sum([d * (10 ** r) for r, d in enumerate(ds)]))
    def digit_from_right(r):
        return ds[r]
    natchars = []
    for j in range(MAXD + 1):
        # position j in the natural string: sign at 0 if neg
        dj = z3.If(neg, j - 1, j)    # digit index from the left
        e = z3.IntVal(48)
        for r in range(MAXD):
            e = z3.If(nd - 1 - dj == r, 48 + digit_from_right(r), e)
        e = z3.If(z3.And(neg, j == 0), 45, e)
        natchars.append(concretize(e))
    nat = SymStr(natchars, natlen)
    if not width:
        return nat
    r = V.str_just(nat, width, left)
    if isinstance(r, SymStr) and not r.fixed and not eng.feasible(natlen > width):
        return SymStr(r.chars[:width])      # the value always fits: the result has exactly `width` characters
    return r


def str_format(eng, fmt, args):
    fmt = norm_str(fmt)
    if not isinstance(fmt, str):
        raise Unsupported('symbolic format string')
    pieces = parse_format(fmt)
    nspec = sum(1 for p in pieces if p[0] == 'spec')
    if isinstance(args, tuple):
        vals = list(args)
    else:
        vals = [args]
    if isinstance(args, dict) and nspec == 0:
        vals = []
    if len(vals) < nspec:
        raise PyExc('TypeError', 'not enough arguments for format string')
    if len(vals) > nspec:
        raise PyExc('TypeError', 'not all arguments converted during string formatting')
    out = []
    vi = 0
    for p in pieces:
        if p[0] == 'lit':
            out.append(p[1])
        else:
            out.append(format_one(eng, p[1], p[2], p[3], p[4], vals[vi]))
            vi += 1
    if len(out) == 1:
        return out[0]
    if any(isinstance(o, AbsStr) for o in out):
        # opaque text (only its existence matters, e.g. an exception message)
        n = z3.Int(eng.fresh('msglen'))
        eng.assume(n >= 0)
        return AbsStr(n, 'opaque', None, 'message')
    r = ''
    for o in out:
        r = V.str_concat(r, o)
    return norm_str(r)


# ----------------------------------------------------------------------------------------
# str methods


def method(obj, name):
    if isinstance(obj, Builtin) and obj.name == 'str':
        return STR_METHODS.get(name)
    if is_strlike(obj):
        m = STR_METHODS.get(name)
        if m is not None:
            return BoundMethod(m, obj)
        return None
    if isinstance(obj, AbsStr):
        return None
    if isinstance(obj, list):
        m = LIST_METHODS.get(name)
        return BoundMethod(m, obj) if m else None
    if isinstance(obj, dict):
        m = DICT_METHODS.get(name)
        return BoundMethod(m, obj) if m else None
    if isinstance(obj, (set, frozenset)):
        m = SET_METHODS.get(name)
        return BoundMethod(m, obj) if m else None
    if isinstance(obj, tuple):
        m = {'index': LIST_METHODS['index'], 'count': LIST_METHODS['count']}.get(name)
        return BoundMethod(m, obj) if m else None
    if isinstance(obj, NVec):
        m = NVEC_METHODS.get(name)
        return BoundMethod(m, obj) if m else None
    return None


STR_METHODS = {}


def SM(name):
    def deco(fn):
        STR_METHODS[name] = Builtin('str.' + name, fn)
        return fn
    return deco


@SM('strip')
def _strip(eng, s, chars=None):
    if chars is not None:
        return _strip_chars(s, chars, True, True)
    if getattr(eng, 'find_branches', False) and isinstance(s, SymStr) and s.fixed:
        # deciding version: blank or not is decided character by character from both ends (concrete bounds on every path)
        a, b = 0, s.n
        while a < b and eng.branch(to_bool(V.is_space_c(s.chars[a]))): a += 1
        while b > a and eng.branch(to_bool(V.is_space_c(s.chars[b - 1]))): b -= 1
        return norm_str(SymStr(s.chars[a:b]))
    return norm_str(V.str_strip(s))


@SM('lstrip')
def _lstrip(eng, s, chars=None):
    if chars is not None:
        return _strip_chars(s, chars, True, False)
    return norm_str(V.str_strip(s, True, False))


@SM('rstrip')
def _rstrip(eng, s, chars=None):
    if chars is not None:
        return _strip_chars(s, chars, False, True)
    return _settle_len(eng, norm_str(V.str_strip(s, False, True)), s)


def _settle_len(eng, r, s):
    """A stripped string whose length is symbolic only syntactically (no character of s can be blank under
    the path condition) is the fixed-length string s."""
    if isinstance(r, SymStr) and not r.fixed and isinstance(s, SymStr) and s.fixed and isinstance(s.n, int):
        if not eng.feasible(to_int(r.n) != s.n):
            return norm_str(SymStr(r.chars[:s.n]))
    return r


def _strip_chars(s, chars, left, right):
    chars = norm_str(chars)
    if not isinstance(chars, str):
        raise Unsupported('strip with symbolic character set')
    s = norm_str(s)
    if isinstance(s, str):
        return s.strip(chars) if left and right else (s.lstrip(chars) if left else s.rstrip(chars))
    return norm_str(V.str_strip(s, left, right, lambda c: V.char_in(c, chars)))


@SM('lower')
def _lower(eng, s): return V.str_map(s, V.lower_c)


@SM('upper')
def _upper(eng, s): return V.str_map(s, V.upper_c)


@SM('isdigit')
def _isdigit(eng, s): return V.str_isdigit(s)


@SM('isupper')
def _isupper(eng, s):
    s = norm_str(s)
    if isinstance(s, str):
        return s.isupper()
    ss = SymStr.of(s)
    has_upper = V.str_any(ss, lambda c: z3.And(c >= 65, c <= 90))
    no_lower = V.str_all(ss, lambda c: z3.Not(z3.And(c >= 97, c <= 122)))
    return z_and(has_upper, no_lower)


@SM('isalpha')
def _isalpha(eng, s):
    s = norm_str(s)
    if isinstance(s, str):
        return s.isalpha()
    ss = SymStr.of(s)
    return z_and(V._lt(0, ss.n), V.str_all(ss, lambda c: z3.Or(z3.And(c >= 65, c <= 90), z3.And(c >= 97, c <= 122))))


@SM('replace')
def _replace(eng, s, old, new):
    old, new, s = norm_str(old), norm_str(new), norm_str(s)
    if not (isinstance(old, str) and isinstance(new, str)):
        raise Unsupported('replace with symbolic pattern')
    if isinstance(s, str):
        return s.replace(old, new)
    if len(old) == 1 and len(new) == 1:
        return V.str_replace_char(s, old, new)
    if len(old) == 1 and len(new) == 0:
        return V.str_remove_char(s, old)
    if len(old) == 1:
        return V.str_expand_char(s, old, new)
    raise Unsupported('replace of a multi-character pattern in a symbolic string')


@SM('ljust')
def _ljust(eng, s, width, fill=' '):
    if not isinstance(width, int): raise Unsupported('symbolic width')
    return norm_str(V.str_just(s, width, True, fill))


@SM('rjust')
def _rjust(eng, s, width, fill=' '):
    if not isinstance(width, int): raise Unsupported('symbolic width')
    return norm_str(V.str_just(s, width, False, fill))


@SM('startswith')
def _startswith(eng, s, prefix):
    prefix = norm_str(prefix)
    if isinstance(prefix, tuple):
        return z_or(*[_startswith(eng, s, p) for p in prefix])
    if not isinstance(prefix, str): raise Unsupported('symbolic prefix')
    s = norm_str(s)
    if isinstance(s, str):
        return s.startswith(prefix)
    ss = SymStr.of(s)
    if len(prefix) > ss.cap:
        return False
    return z_and(V._le(len(prefix), ss.n), *[z_eq(ss.chars[k], ord(c)) for k, c in enumerate(prefix)])


@SM('endswith')
def _endswith(eng, s, suffix):
    suffix = norm_str(suffix)
    if not isinstance(suffix, str): raise Unsupported('symbolic suffix')
    s = norm_str(s)
    if isinstance(s, str):
        return s.endswith(suffix)
    ss = SymStr.of(s)
    if ss.fixed:
        if len(suffix) > ss.n: return False
        return z_and(*[z_eq(ss.chars[ss.n - len(suffix) + k], ord(c)) for k, c in enumerate(suffix)])
    raise Unsupported('endswith on symbolic-length string')


@SM('join')
def _join(eng, sep, parts):
    parts = eng.iterate(parts)
    if len(parts) == 1 and isinstance(parts[0], AbsStr):
        return parts[0]
    if any(isinstance(p, AbsStr) for p in parts):
        raise Unsupported('join of formatted number strings')
    for p in parts:
        if not is_strlike(p):
            raise PyExc('TypeError', 'sequence item: expected str instance')
    r = ''
    for i, p in enumerate(parts):
        if i > 0:
            r = V.str_concat(r, sep)
        r = V.str_concat(r, p)
    return norm_str(r)


@SM('find')
def _find(eng, s, sub, start=0, end=None):
    s, sub = norm_str(s), norm_str(sub)
    if isinstance(s, str) and isinstance(sub, str) and isinstance(start, int) and (end is None or isinstance(end, int)):
        return s.find(sub, start) if end is None else s.find(sub, start, end)
    if not (isinstance(sub, str) and len(sub) == 1):
        raise Unsupported('find on symbolic string')
    ss = SymStr.of(s)
    if end is None and isinstance(start, int) and start >= 0 and not getattr(eng, 'find_branches', False):
        e = z3.IntVal(-1)
        for k in range(ss.cap - 1, start - 1, -1):
            e = z3.If(z3.And(to_bool(V._lt(k, ss.n)), to_bool(z_eq(ss.chars[k], ord(sub)))), k, e)
        return concretize(e)
    # deciding version: the position is found by branching character by character, so it is a concrete index on every path
    # (negative bounds count from the end only for strings of known length)
    def bound(b):
        if isinstance(b, int) and b < 0:
            if not ss.fixed: raise Unsupported('find with a negative bound on a string of symbolic length')
            return max(0, ss.n + b)
        if is_z3(b) and eng.branch(b < 0): raise Unsupported('find with a symbolic negative bound')
        return b
    start, end = bound(start), (None if end is None else bound(end))
    for k in range(ss.cap):
        inside = z_and(V._lt(k, ss.n), V._le(start, k), True if end is None else V._lt(k, end))
        if eng.branch(to_bool(z_and(inside, z_eq(ss.chars[k], ord(sub))))):
            return k
    return -1


@SM('index')
def _index(eng, s, sub):
    r = _find(eng, s, sub)
    if isinstance(r, int):
        if r < 0: raise PyExc('ValueError', 'substring not found')
        return r
    if eng.branch(r < 0):
        raise PyExc('ValueError', 'substring not found')
    return r


@SM('split')
def _split(eng, s, sep=None):
    s = norm_str(s)
    if isinstance(s, str):
        return s.split(sep)
    if sep is None and getattr(eng, 'find_branches', False) and isinstance(s, SymStr) and s.fixed:
        # deciding version: the runs of non-blank characters, found by branching on every character
        out, cur = [], []
        for c in s.chars:
            if eng.branch(to_bool(V.is_space_c(c))):
                if cur: out.append(norm_str(SymStr(cur))); cur = []
            else:
                cur.append(c)
        if cur: out.append(norm_str(SymStr(cur)))
        return out
    raise Unsupported('split of symbolic string')


@SM('partition')
def _partition(eng, s, sep):
    s = norm_str(s)
    if isinstance(s, str) and isinstance(sep, str):
        return s.partition(sep)
    raise Unsupported('partition of symbolic string')


@SM('count')
def _count(eng, s, sub):
    s, sub = norm_str(s), norm_str(sub)
    if isinstance(s, str) and isinstance(sub, str):
        return s.count(sub)
    if isinstance(sub, str) and len(sub) == 1:
        ss = SymStr.of(s)
        e = 0
        for k in range(ss.cap):
            e = e + V.z_ite_int(z_and(V._lt(k, ss.n), z_eq(ss.chars[k], ord(sub))), 1, 0)
        return concretize(e) if is_z3(e) else e
    raise Unsupported('count on symbolic string')


@SM('format')
def _format(eng, s, *a, **k):
    raise Unsupported('str.format')


# lists, dicts, sets

LIST_METHODS = {}
DICT_METHODS = {}
SET_METHODS = {}
NVEC_METHODS = {}


def LM(name):
    def deco(fn):
        LIST_METHODS[name] = Builtin('list.' + name, fn)
        return fn
    return deco


@LM('append')
def _append(eng, l, x): l.append(x)


@LM('extend')
def _extend(eng, l, x): l.extend(eng.iterate(x))


@LM('pop')
def _pop(eng, l, i=-1):
    if not l: raise PyExc('IndexError', 'pop from empty list')
    if not isinstance(i, int): raise Unsupported('symbolic pop index')
    if not (-len(l) <= i < len(l)): raise PyExc('IndexError', 'pop index out of range')
    return l.pop(i)


@LM('insert')
def _insert(eng, l, i, x):
    if not isinstance(i, int): raise Unsupported('symbolic insert index')
    l.insert(i, x)


@LM('reverse')
def _reverse(eng, l): l.reverse()


@LM('index')
def _lindex(eng, l, x):
    for k, e in enumerate(l):
        if eng.truth(equals(eng, e, x)):
            return k
    raise PyExc('ValueError', 'x not in list')


@LM('remove')
def _lremove(eng, l, x):
    k = _lindex(eng, l, x)
    del l[k]


@LM('count')
def _lcount(eng, l, x):
    e = 0
    for y in l:
        c = equals(eng, y, x)
        e = e + V.z_ite_int(c, 1, 0) if not isinstance(c, bool) else e + int(c)
    return concretize(e) if is_z3(e) else e


@LM('sort')
def _lsort(eng, l, key=None, reverse=False):
    l[:] = b_sorted.fn(eng, l, key=key, reverse=reverse)


@LM('copy')
def _lcopy(eng, l): return list(l)


def DM(name):
    def deco(fn):
        DICT_METHODS[name] = Builtin('dict.' + name, fn)
        return fn
    return deco


@DM('items')
def _items(eng, d): return [(k, v) for k, v in d.items()]


@DM('keys')
def _keys(eng, d): return list(d.keys())


@DM('values')
def _values(eng, d): return list(d.values())


@DM('get')
def _get(eng, d, k, default=None): return d.get(eng.hashable(k), default)


@DM('update')
def _update(eng, d, other): d.update(other)


@DM('clear')
def _clear(eng, d): d.clear()


@DM('pop')
def _dpop(eng, d, k, *default):
    k = eng.hashable(k)
    if k in d: return d.pop(k)
    if default: return default[0]
    raise PyExc('KeyError', repr(k))


@DM('copy')
def _dcopy(eng, d): return dict(d)


SET_METHODS['add'] = Builtin('set.add', lambda eng, s, x: s.add(eng.hashable(x)))
SET_METHODS['discard'] = Builtin('set.discard', lambda eng, s, x: s.discard(eng.hashable(x)))


def _set_remove(eng, s, x):
    x = eng.hashable(x)
    if x not in s: raise PyExc('KeyError', repr(x))
    s.remove(x)


SET_METHODS['remove'] = Builtin('set.remove', _set_remove)
SET_METHODS['issubset'] = Builtin('set.issubset', lambda eng, s, o: set(s).issubset(set(eng.hashable(x) for x in eng.iterate(o))))
SET_METHODS['union'] = Builtin('set.union', lambda eng, s, o: set(s) | set(eng.hashable(x) for x in eng.iterate(o)))
SET_METHODS['copy'] = Builtin('set.copy', lambda eng, s: set(s))
SET_METHODS['intersection'] = Builtin('set.intersection', lambda eng, s, *o: type(s)(set(s).intersection(*[set(eng.hashable(x) for x in eng.iterate(y)) for y in o])))
SET_METHODS['difference'] = Builtin('set.difference', lambda eng, s, *o: type(s)(set(s).difference(*[set(eng.hashable(x) for x in eng.iterate(y)) for y in o])))
SET_METHODS['issuperset'] = Builtin('set.issuperset', lambda eng, s, o: set(s).issuperset(set(eng.hashable(x) for x in eng.iterate(o))))
SET_METHODS['isdisjoint'] = Builtin('set.isdisjoint', lambda eng, s, o: set(s).isdisjoint(set(eng.hashable(x) for x in eng.iterate(o))))
SET_METHODS['update'] = Builtin('set.update', lambda eng, s, *o: [s.update(set(eng.hashable(x) for x in eng.iterate(y))) for y in o] and None)
SET_METHODS['pop'] = Builtin('set.pop', lambda eng, s: _set_pop(s))
SET_METHODS['clear'] = Builtin('set.clear', lambda eng, s: s.clear())


# ----------------------------------------------------------------------------------------
# builtin functions


@B('len')
def b_len(eng, x):
    if isinstance(x, (list, tuple, dict, set, frozenset, str)):
        return len(x)
    if isinstance(x, (SymStr, AbsStr)):
        return x.n
    if isinstance(x, NVec):
        return len(x.items)
    if x is None:
        raise PyExc('TypeError', "object of type 'NoneType' has no len()")
    if is_num(x):
        raise PyExc('TypeError', 'object of numeric type has no len()')
    raise Unsupported('len of %s' % type(x).__name__)


@B('range')
def b_range(eng, *a):
    if not all(isinstance(x, int) for x in a):
        raise Unsupported('range with symbolic bound')
    return range(*a)


@B('int')
def b_int(eng, x=0):
    if isinstance(x, bool): return int(x)
    if isinstance(x, int): return x
    if isinstance(x, Fraction): return int(x)
    if is_z3(x) and z3.is_int(x): return x
    if is_z3(x) and z3.is_real(x):
        # truncation toward zero
        return concretize(z3.If(x >= 0, z3.ToInt(x), -z3.ToInt(-x)))
    if is_strlike(x):
        acc, val = V.int_grammar(x)
        if not eng.branch(acc) if not isinstance(acc, bool) else not acc:
            raise PyExc('ValueError', 'invalid literal for int()')
        return val
    if x is None:
        raise PyExc('TypeError', "int() argument must be a string or a number, not 'NoneType'")
    if isinstance(x, AbsStr):
        raise Unsupported('int of formatted number')
    if isinstance(x, V.NaN):
        raise PyExc('ValueError', 'cannot convert float NaN to integer')
    raise PyExc('TypeError', 'int() argument')


PYFLOAT = z3.Function('pyfloat', z3.IntSort(), z3.RealSort())
_pyfloat_ids = {}


@B('float')
def b_float(eng, x=0):
    if isinstance(x, bool): return Fraction(int(x))
    if isinstance(x, (int, Fraction)): return Fraction(x)
    if is_z3(x): return to_real(x)
    if isinstance(x, (V.NaN, V.Inf)): return x
    if is_strlike(x):
        x = norm_str(x)
        if isinstance(x, str):
            try:
                f = float(x)
            except ValueError:
                raise PyExc('ValueError', 'could not convert string to float: %r' % x)
            if f != f: return NAN
            if f in (float('inf'), float('-inf')): return V.Inf(1 if f > 0 else -1)
            # A3: value of the correctly rounded double, taken as the decimal it prints as
            return Fraction(repr(f))
        acc = V.float_grammar_accept(x)
        ok = acc if isinstance(acc, bool) else eng.branch(acc)
        if not ok:
            raise PyExc('ValueError', 'could not convert string to float')
        return FloatOfStr(x)
    if isinstance(x, AbsStr):
        # axiom F3: float('%N.Pe' % v) is v rounded to the printed digits; modelled as a
        # fresh real r with |r - v| <= tolerance(v, spec) left abstract: we return a tagged value
        return FloatOfStr(x)
    if x is None:
        raise PyExc('TypeError', "float() argument must be a string or a real number, not 'NoneType'")
    if isinstance(x, NVec):
        if len(x.items) == 1:
            raise PyExc('TypeError', 'only 0-dimensional arrays can be converted to Python scalars')
        raise PyExc('TypeError', 'only length-1 arrays can be converted to Python scalars')
    raise PyExc('TypeError', 'float() argument')


class FloatOfStr(object):
    """float(s) for an accepted symbolic string s: value is the uninterpreted pyfloat(s) (A3);
    what is tracked is *which string* was converted."""
    def __init__(self, s): self.s = s
    def __repr__(self): return 'float(%r)' % (self.s,)


@B('str')
def b_str(eng, x=''):
    if is_strlike(x): return x
    if isinstance(x, bool): return str(x)
    if isinstance(x, int): return str(x)
    if x is None: return 'None'
    if is_z3(x) and z3.is_int(x): return int_to_symstr(eng, x, 0, False)
    if is_z3(x) and z3.is_real(x):
        n = z3.Int(eng.fresh('strlen'))
        eng.assume(n >= 1)
        return AbsStr(n, 'str', x, 'str')
    if isinstance(x, tuple) and not is_symbolic(x): return str(x)
    raise Unsupported('str() of %s' % type(x).__name__)


@B('abs')
def b_abs(eng, x):
    if isinstance(x, (int, Fraction)): return abs(x)
    if is_z3(x):
        # a sign that the path condition already fixes keeps the term free of If (and polynomial quotients exact)
        try:
            if not eng.feasible(x < 0):
                return x
            if not eng.feasible(x > 0):
                return concretize(-x)
        except Exception:
            pass
        return concretize(z3.If(x >= 0, x, -x))
    if isinstance(x, NVec): return NVec([b_abs.fn(eng, y) for y in x.items])
    if x is None: raise PyExc('TypeError', 'bad operand type for abs(): NoneType')
    raise Unsupported('abs of %s' % type(x).__name__)


def _minmax(eng, args, kw, is_min):
    key = kw.get('key')
    if len(args) == 1:
        items = eng.iterate(args[0])
    else:
        items = list(args)
    if not items:
        raise PyExc('ValueError', 'min()/max() arg is an empty sequence')
    best = items[0]
    bk = eng.call(key, [best]) if key else best
    for it in items[1:]:
        k = eng.call(key, [it]) if key else it
        c = compare(eng, ast.Lt() if is_min else ast.Gt(), k, bk)
        if key is None and (is_num(k) or is_boolish(k)) and not isinstance(c, bool):
            bk = best = z_ite(c, k, bk)
        else:
            if eng.truth(c):
                best, bk = it, k
    return best


@B('min')
def b_min(eng, *a, **kw): return _minmax(eng, a, kw, True)


@B('max')
def b_max(eng, *a, **kw): return _minmax(eng, a, kw, False)


@B('sum')
def b_sum(eng, xs, start=0):
    r = start
    for x in eng.iterate(xs):
        r = binop(eng, ast.Add(), r, x)
    return r


@B('all')
def b_all(eng, xs):
    vals = eng.iterate(xs)
    if all(is_boolish(v) for v in vals):
        return z_and(*vals)
    for v in vals:
        if not eng.truth(v): return False
    return True


@B('any')
def b_any(eng, xs):
    vals = eng.iterate(xs)
    if all(is_boolish(v) for v in vals):
        return z_or(*vals)
    for v in vals:
        if eng.truth(v): return True
    return False


@B('zip')
def b_zip(eng, *xs):
    return list(zip(*[eng.iterate(x) for x in xs]))


@B('enumerate')
def b_enumerate(eng, xs, start=0):
    return list(enumerate(eng.iterate(xs), start))


@B('reversed')
def b_reversed(eng, xs): return list(reversed(eng.iterate(xs)))


@B('list')
def b_list(eng, xs=()): return list(eng.iterate(xs))


@B('tuple')
def b_tuple(eng, xs=()): return tuple(eng.iterate(xs))


@B('set')
def b_set(eng, xs=()):
    return set(eng.hashable(x) for x in eng.iterate(xs))


def _set_pop(s):
    if not s: raise PyExc('KeyError', 'pop from an empty set')
    raise Unsupported('set.pop: the element removed depends on hash order')


@B('frozenset')
def b_frozenset(eng, xs=()):
    return frozenset(eng.hashable(x) for x in eng.iterate(xs))


@B('np.argsort')
def np_argsort(eng, v):
    items = list(v.items if isinstance(v, NVec) else eng.iterate(v))
    idx = list(range(len(items)))
    # stable insertion sort with path decisions on the comparisons
    for i in range(1, len(idx)):
        j = i
        while j > 0 and eng.truth(compare(eng, ast.Lt(), items[idx[j]], items[idx[j - 1]])):
            idx[j - 1], idx[j] = idx[j], idx[j - 1]
            j -= 1
    return NVec(idx)


@B('dict')
def b_dict(eng, xs=(), **kw):
    d = {}
    if isinstance(xs, dict): d.update(xs)
    else:
        for k, v in eng.iterate(xs): d[eng.hashable(k)] = v
    d.update(kw)
    return d


@B('sorted')
def b_sorted(eng, xs, key=None, reverse=False):
    items = eng.iterate(xs)
    keys = [eng.call(key, [x]) if key else x for x in items]
    if any(is_symbolic(k) for k in keys):
        # insertion sort with path splitting
        order = []
        for i, k in enumerate(keys):
            pos = len(order)
            for j, o in enumerate(order):
                if eng.truth(compare(eng, ast.Lt(), k, keys[o])):
                    pos = j
                    break
            order.insert(pos, i)
        out = [items[i] for i in order]
    else:
        out = [x for _, _, x in sorted(((k, i, x) for i, (k, x) in enumerate(zip(keys, items))), key=lambda t: (t[0], t[1]))]
    return out[::-1] if reverse else out


@B('isinstance')
def b_isinstance(eng, x, t):
    ts = t if isinstance(t, tuple) else (t,)
    for c in ts:
        if isinstance(c, Builtin):
            n = c.name
            if n == 'int' and (is_int_like(x) or isinstance(x, bool)): return True
            if n == 'float' and is_real_like(x): return True
            if n == 'str' and (is_strlike(x) or isinstance(x, AbsStr)): return True
            if n == 'list' and isinstance(x, list): return True
            if n == 'tuple' and isinstance(x, tuple): return True
            if n == 'dict' and isinstance(x, dict): return True
            if n == 'set' and isinstance(x, set): return True
            if n == 'bool' and isinstance(x, bool): return True
            if n == 'slice' and isinstance(x, slice): return True
        elif isinstance(c, ClassVal):
            if isinstance(x, Obj) and x.cls is not None:
                k = x.cls
                seen = [k]
                while seen:
                    k = seen.pop()
                    if k is c: return True
                    seen.extend(b for b in k.bases if isinstance(b, ClassVal))
        elif isinstance(c, _TypeTag):
            if c.check(x): return True
    return False


class _TypeTag(object):
    def __init__(self, name, check): self.name, self.check = name, check


@B('property')
def b_property(eng, fget=None, fset=None): return PropertyVal(fget, fset)


@B('round')
def b_round(eng, x, nd=None):
    if isinstance(x, (int, Fraction)) and (nd is None or isinstance(nd, int)):
        r = round(Fraction(x), nd) if nd is not None else round(Fraction(x))
        return r
    raise Unsupported('round of symbolic value')


@B('ord')
def b_ord(eng, c):
    c = norm_str(c)
    if isinstance(c, str): return ord(c)
    if c.fixed and c.n == 1: return c.chars[0]
    raise PyExc('TypeError', 'ord() expected a character')


@B('chr')
def b_chr(eng, i):
    if isinstance(i, int): return chr(i)
    return SymStr([i])


@B('repr')
def b_repr(eng, x): raise Unsupported('repr')


@B('hasattr')
def b_hasattr(eng, o, name):
    try:
        eng.getattr(o, name)
        return True
    except PyExc:
        return False


@B('getattr')
def b_getattr(eng, o, name, *default):
    try:
        return eng.getattr(o, name)
    except PyExc:
        if default: return default[0]
        raise


@B('callable')
def b_callable(eng, x): return isinstance(x, (FuncVal, LambdaVal, Builtin, BoundMethod, ClassVal, PartialVal))


@B('bool')
def b_bool(eng, x=False): return eng.truth(x)


@B('object')
def b_object(eng): return Obj(None)


@B('partial')
def b_partial(eng, fn, **kw): return PartialVal(fn, kw)


@B('copy')
def b_copy(eng, x):
    if isinstance(x, list): return list(x)
    if isinstance(x, dict): return dict(x)
    if isinstance(x, set): return set(x)
    if isinstance(x, NVec): return NVec(x.items)
    if isinstance(x, Obj):
        return Obj(x.cls, **x.fields)
    return x


@B('deepcopy')
def b_deepcopy(eng, x):
    if isinstance(x, list): return [b_deepcopy.fn(eng, y) for y in x]
    if isinstance(x, tuple): return tuple(b_deepcopy.fn(eng, y) for y in x)
    if isinstance(x, dict): return dict((k, b_deepcopy.fn(eng, v)) for k, v in x.items())
    if isinstance(x, set): return set(x)
    if isinstance(x, NVec): return NVec(x.items)
    if isinstance(x, Obj):
        return Obj(x.cls, **dict((k, b_deepcopy.fn(eng, v)) for k, v in x.fields.items()))
    return x


# math / numpy


@B('sqrt')
def m_sqrt(eng, x):
    if isinstance(x, NVec):
        return NVec([m_sqrt.fn(eng, y) for y in x.items])
    if isinstance(x, (int, Fraction)):
        if x < 0: raise PyExc('ValueError', 'math domain error')
        from math import isqrt
        f = Fraction(x)
        n, d = f.numerator, f.denominator
        if isqrt(n) ** 2 == n and isqrt(d) ** 2 == d:
            return Fraction(isqrt(n), isqrt(d))
        # an irrational root of a numeral: the defining equation plus a tight rational enclosure (linear facts that
        # decide comparisons between such roots without nonlinear reasoning)
        key = ('sqrt-of', f)
        if key in eng._fresh_path:                      # the same radicand on this path: the same root
            return eng._fresh_path[key]
        y = z3.Real(eng.fresh('sqrt'))
        eng._fresh_path[key] = y
        lo = Fraction(isqrt(n * 10 ** 24 // d), 10 ** 12)
        eng.assume(y * y == to_real(f))
        eng.assume(z3.And(y > 0, y >= to_real(lo), y <= to_real(lo + Fraction(1, 10 ** 12))))      # linear: goes to the feasibility solver
        return y
    if eng.branch(to_real(x) < 0, precise=True):
        raise PyExc('ValueError', 'math domain error')
    y = z3.Real(eng.fresh('sqrt'))
    eng.assume(y >= 0)
    eng.assume(y * y == to_real(x))
    return y


@B('ceil')
def m_ceil(eng, x):
    if isinstance(x, int): return x
    if isinstance(x, Fraction):
        return -((-x.numerator) // x.denominator)
    if is_z3(x) and z3.is_int(x): return x
    if is_z3(x):
        return concretize(-z3.ToInt(-to_real(x)))
    raise Unsupported('ceil')


@B('floor')
def m_floor(eng, x):
    if isinstance(x, int): return x
    if isinstance(x, Fraction): return x.numerator // x.denominator
    if is_z3(x) and z3.is_int(x): return x
    if is_z3(x): return concretize(z3.ToInt(to_real(x)))
    raise Unsupported('floor')


@B('exp')
def m_exp(eng, x):
    if isinstance(x, (int, Fraction)) and x == 0:
        return Fraction(1)
    eng.assumptions_used.add('exp(x) is an uninterpreted positive real')
    r = z3.Real(eng.fresh('exp'))
    eng.assume(r > 0)
    return r


@B('log')
def m_log(eng, x):
    if isinstance(x, (int, Fraction)):
        if x <= 0: raise PyExc('ValueError', 'math domain error')
    elif eng.branch(to_real(x) <= 0):
        raise PyExc('ValueError', 'math domain error')
    eng.assumptions_used.add('log(x) is an uninterpreted real')
    return z3.Real(eng.fresh('log'))


def _quarter_turns(eng, x):
    """k if x is syntactically k * pi/2 for an integer k (x a term over the constant pi), else None."""
    if not is_z3(x):
        return None
    pi = z3.Real('pi!const')
    for k in range(-8, 9):
        d = z3.simplify(x - k * pi / 2)
        if (z3.is_rational_value(d) or z3.is_int_value(d)) and d.numerator_as_long() == 0:
            return k
    return None


def _trig(name):
    def f(eng, x):
        if isinstance(x, (int, Fraction)) and x == 0:
            return Fraction(1 if name == 'cos' else 0)
        k = _quarter_turns(eng, x)
        if k is not None:           # exact values at multiples of a quarter turn
            return Fraction([1, 0, -1, 0][k % 4] if name == 'cos' else [0, 1, 0, -1][k % 4])
        eng.assumptions_used.add('sin/cos of a non-zero angle are uninterpreted reals in [-1, 1]')
        r = z3.Real(eng.fresh(name))
        eng.assume(z3.And(r >= -1, r <= 1))
        return r
    return Builtin(name, f)


m_cos, m_sin = _trig('cos'), _trig('sin')


class PiVal(object):
    """math.pi / numpy.pi: resolved by the engine to one real constant per path, 3.1415926 < pi < 3.1415927."""


def pi_term(eng):
    t = z3.Real('pi!const')
    if not eng._fresh_path.get('pi!assumed'):
        eng._fresh_path['pi!assumed'] = 1
        eng.assume(z3.And(t > z3.RealVal('3.1415926'), t < z3.RealVal('3.1415927')))
    return t


@B('asin')
def m_asin(eng, x):
    if is_z3(x):
        x = concretize(z3.simplify(x))
    if isinstance(x, (int, Fraction)):
        if x == 0: return Fraction(0)
        if x == 1: return concretize(pi_term(eng) / 2)
        if x == -1: return concretize(-pi_term(eng) / 2)
        if x < -1 or x > 1: raise PyExc('ValueError', 'math domain error')
    eng.assumptions_used.add('asin of a value other than 0, 1, -1 is an uninterpreted real in [-pi/2, pi/2]')
    r = z3.Real(eng.fresh('asin'))
    pi = pi_term(eng)
    eng.assume(z3.And(r >= -pi / 2, r <= pi / 2))
    return r


@B('degrees')
def m_degrees(eng, x):
    if isinstance(x, (int, Fraction)) and x == 0:
        return Fraction(0)
    k = _quarter_turns(eng, x)
    if k is not None:
        return Fraction(90 * k)
    return concretize(to_real(x) * 180 / pi_term(eng))


@B('np.identity')
def np_identity(eng, n, dtype=None):
    return NVec([NVec([Fraction(1) if i == j else Fraction(0) for j in range(n)]) for i in range(n)])


@B('radians')
def m_radians(eng, x):
    if isinstance(x, (int, Fraction)) and x == 0:
        return Fraction(0)
    if isinstance(x, (int, Fraction)) and Fraction(x) % 90 == 0:
        return concretize(z3.simplify(pi_term(eng) * z3.RealVal(str(Fraction(x) / 180))))      # a multiple of a quarter turn: k * pi / 2
    return z3.Real(eng.fresh('radians'))


@B('np.argmax')
def np_argmax(eng, v):
    items = v.items if isinstance(v, NVec) else eng.iterate(v)
    best = 0
    for k in range(1, len(items)):
        if eng.truth(compare(eng, ast.Gt(), items[k], items[best])):
            best = k
    return best


@B('np.searchsorted')
def np_searchsorted(eng, a, v, side='left'):
    items = a.items if isinstance(a, NVec) else eng.iterate(a)
    cnt = 0
    for x in items:
        c = compare(eng, ast.Lt() if side == 'left' else ast.LtE(), x, v)
        cnt = cnt + (int(c) if isinstance(c, bool) else z3.If(c, 1, 0))
    return concretize(cnt) if is_z3(cnt) else cnt


@B('np.argmin')
def np_argmin(eng, v):
    items = v.items if isinstance(v, NVec) else eng.iterate(v)
    best = 0
    for k in range(1, len(items)):
        if eng.truth(compare(eng, ast.Lt(), items[k], items[best])):
            best = k
    return best


def _nan_arg(eng, v, op, name):
    items = v.items if isinstance(v, NVec) else eng.iterate(v)
    best = None
    for k in range(len(items)):
        if isinstance(items[k], V.NaN):
            continue
        if best is None or eng.truth(compare(eng, op, items[k], items[best])):
            best = k
    if best is None:
        raise PyExc('ValueError', 'All-NaN slice encountered')
    return best


@B('np.nanargmin')
def np_nanargmin(eng, v): return _nan_arg(eng, v, ast.Lt(), 'nanargmin')


@B('np.nanargmax')
def np_nanargmax(eng, v): return _nan_arg(eng, v, ast.Gt(), 'nanargmax')


def _ckdtree(eng, points, *a, **k):
    """scipy.spatial.cKDTree, assumed contract: query(p) returns (distance, index) of a nearest stored point
    (the first one among equally near points - scipy leaves ties unspecified)."""
    eng.assumptions_used.add('scipy.spatial.cKDTree is external: query(p) is assumed to return (distance, index) of a nearest stored point, the first among ties')
    pts = [q if isinstance(q, NVec) else NVec(list(eng.iterate(q))) for q in eng.iterate(points)]
    tree = Obj(None)
    def query(eng2, p, *a2, **k2):
        p = p if isinstance(p, NVec) else NVec(list(eng2.iterate(p)))
        d2 = []
        for q in pts:
            acc = 0
            for u, v in zip(q.items, p.items):
                w = binop(eng2, ast.Sub(), u, v)
                acc = binop(eng2, ast.Add(), acc, binop(eng2, ast.Mult(), w, w))
            d2.append(acc)
        best = 0
        for j in range(1, len(d2)):
            if eng2.truth(compare(eng2, ast.Lt(), d2[j], d2[best])):
                best = j
        return (m_sqrt.fn(eng2, d2[best]) if isinstance(d2[best], (int, Fraction)) else _norm_of_sq(eng2, d2[best]), best)
    tree.fields['query'] = Builtin('cKDTree.query', query)
    tree.fields['n'] = len(pts)
    return tree


def _norm_of_sq(eng, d):
    y = z3.Real(eng.fresh('norm'))
    eng.assume(y >= 0)
    eng.assume(y * y == to_real(d))
    return y


@B('fsolve')
def sp_fsolve(eng, f, x0, *a, **k):
    eng.assumptions_used.add('scipy.optimize.fsolve is external: it returns a 1-element array holding an unconstrained real')
    return NVec([z3.Real(eng.fresh('fsolve'))])


def _unsupported_fn(name):
    def f(eng, *a, **k):
        raise Unsupported('function %s' % name)
    return Builtin(name, f)


@B('np.array')
def np_array(eng, x, dtype=None):
    if isinstance(x, NVec): return NVec(x.items)
    items = eng.iterate(x)
    if any(isinstance(i, (list, tuple, NVec)) for i in items):
        return NVec([np_array.fn(eng, i) for i in items])
    return NVec(items)


class _DType(object):
    def __init__(self, name, integer): self.name, self.integer = name, integer
    def __repr__(self): return '<dtype %s>' % self.name


@B('np.zeros')
def np_zeros(eng, n, dtype=None):
    if isinstance(n, tuple) and len(n) == 2 and all(isinstance(k, int) for k in n):
        return NVec([NVec([Fraction(0)] * n[1]) for _ in range(n[0])])
    if not isinstance(n, int): raise Unsupported('np.zeros of symbolic size')
    if isinstance(dtype, _DType) and dtype.integer:
        return NVec([0] * n)
    return NVec([Fraction(0)] * n)


@B('np.ones')
def np_ones(eng, n, dtype=None):
    if not isinstance(n, int): raise Unsupported('np.ones of symbolic size')
    return NVec([Fraction(1)] * n)


@B('np.dot')
def np_dot(eng, a, b):
    a = a if isinstance(a, NVec) else NVec(eng.iterate(a))
    b = b if isinstance(b, NVec) else NVec(eng.iterate(b))
    if a.items and isinstance(a.items[0], NVec):
        return NVec([np_dot.fn(eng, row, b) for row in a.items])
    if len(a.items) != len(b.items):
        raise PyExc('ValueError', 'shapes not aligned')
    r = 0
    for x, y in zip(a.items, b.items):
        r = binop(eng, ast.Add(), r, binop(eng, ast.Mult(), x, y))
    return r


@B('norm')
def np_norm(eng, v):
    v = v if isinstance(v, NVec) else NVec(eng.iterate(v))
    # a vector with one non-zero component: |v| = |v_k| exactly (axis-aligned distances stay linear)
    nz = []
    for c in v.items:
        cs = z3.simplify(c) if is_z3(c) else c
        if is_z3(cs) and (z3.is_rational_value(cs) or z3.is_int_value(cs)):
            cs = Fraction(cs.numerator_as_long(), cs.denominator_as_long()) if z3.is_rational_value(cs) else cs.as_long()
        if not (isinstance(cs, (int, Fraction)) and cs == 0):
            nz.append(cs)
    if len(nz) == 1:
        return b_abs.fn(eng, nz[0])
    d = np_dot.fn(eng, v, v)
    if isinstance(d, (int, Fraction)):
        return m_sqrt.fn(eng, d)
    # a sum of squares is never negative: no domain-error branch (the nonlinear feasibility query is the unstable one)
    y = z3.Real(eng.fresh('norm'))
    eng.assume(y >= 0)
    eng.assume(y * y == to_real(d))
    for c in v.items:                                   # lemma |v| >= |v_k| (linear help for the solver)
        eng.assume(z3.And(y >= to_real(c), y >= -to_real(c)))
    return y


@B('np.sum')
def np_sum(eng, v):
    return b_sum.fn(eng, v.items if isinstance(v, NVec) else v)


@B('np.cumsum')
def np_cumsum(eng, v):
    items = v.items if isinstance(v, NVec) else list(eng.iterate(v))
    out, acc = [], 0
    for x in items:
        acc = x if not out else binop(eng, ast.Add(), acc, x)
        out.append(acc)
    return NVec(out)


@B('np.any')
def np_any(eng, v):
    items = v.items if isinstance(v, NVec) else list(eng.iterate(v))
    conds = []
    for x in items:
        if isinstance(x, NVec):
            x = np_any.fn(eng, x)
        if isinstance(x, (bool, int, Fraction)):
            if x: return True
            continue
        if x is None: continue
        conds.append(x if z3.is_bool(x) else x != 0)
    if not conds: return False
    return z3.Or(*conds) if len(conds) > 1 else conds[0]


NVEC_METHODS['copy'] = Builtin('ndarray.copy', lambda eng, v: NVec(v.items))
NVEC_METHODS['tolist'] = Builtin('ndarray.tolist', lambda eng, v: list(v.items))


def _exc(name):
    return ExcClass(name)


BUILTINS = {}
for _b in (b_len, b_range, b_int, b_float, b_str, b_abs, b_min, b_max, b_sum, b_all, b_any, b_zip,
           b_enumerate, b_reversed, b_list, b_tuple, b_set, b_frozenset, b_dict, b_sorted, b_isinstance, b_property,
           b_round, b_ord, b_chr, b_repr, b_hasattr, b_getattr, b_callable, b_bool, b_object):
    BUILTINS[_b.name] = _b
for _e in list(V.EXC_PARENT):
    BUILTINS[_e] = _exc(_e)
BUILTINS['True'] = True
BUILTINS['False'] = False
BUILTINS['None'] = None
BUILTINS['print'] = Builtin('print', lambda eng, *a, **k: None)
BUILTINS['slice'] = Builtin('slice', lambda eng, *a: slice(*a))

def _concrete_str(p):
    if not isinstance(p, str): raise Unsupported('path operation on a symbolic string')
    return p


def _fs_exists(eng, p):
    # the file system is whatever the obligation program installs (a set of tape files); none by default
    hook = eng.opaque.get('os.path.exists')
    if hook is None: raise Unsupported('os.path.exists without a file-system model')
    return hook(eng, [p], {})


_np = {
    'array': np_array, 'zeros': np_zeros, 'ones': np_ones, 'dot': np_dot, 'argmax': np_argmax, 'argmin': np_argmin, 'searchsorted': np_searchsorted, 'sqrt': m_sqrt, 'sum': np_sum, 'any': np_any, 'cumsum': np_cumsum, 'nanargmin': np_nanargmin, 'argsort': np_argsort, 'nanargmax': np_nanargmax,
    'nan': NAN, 'inf': V.Inf(1), 'float64': b_float, 'abs': b_abs, 'ceil': m_ceil, 'floor': m_floor,
    'pi': PiVal(), 'identity': np_identity,
    'int8': _DType('int8', True), 'int16': _DType('int16', True), 'int32': _DType('int32', True), 'int64': _DType('int64', True),
    'float32': _DType('float32', False),
}
_np_mod = ModuleVal('numpy'); _np_mod.globals = dict(_np)
_np_linalg = ModuleVal('numpy.linalg'); _np_linalg.globals = {'norm': np_norm}
_np_mod.globals['linalg'] = _np_linalg

MODULES = {
    'string': {
        'ascii_lowercase': _string.ascii_lowercase, 'ascii_uppercase': _string.ascii_uppercase,
        'ascii_letters': _string.ascii_letters, 'digits': _string.digits,
        'punctuation': _string.punctuation, 'whitespace': _string.whitespace,
    },
    'math': {'sqrt': m_sqrt, 'ceil': m_ceil, 'floor': m_floor, 'cos': m_cos, 'sin': m_sin, 'radians': m_radians, 'asin': m_asin, 'degrees': m_degrees, 'pi': PiVal(),
             'exp': m_exp, 'log': m_log,
             },
    'numpy': dict(_np, np=_np_mod, linalg=_np_linalg),
    'numpy.linalg': {'norm': np_norm},
    'functools': {'partial': b_partial},
    'copy': {'copy': b_copy, 'deepcopy': b_deepcopy},
    'sys': {'version_info': (3, 12, 1)}, 'os': {},
    'os.path': {'splitext': Builtin('os.path.splitext', lambda eng, p: __import__('os').path.splitext(_concrete_str(p))),
                'basename': Builtin('os.path.basename', lambda eng, p: __import__('os').path.basename(_concrete_str(p))),
                'exists': Builtin('os.path.exists', lambda eng, p: _fs_exists(eng, p))}, 'struct': {}, 'collections': {'Iterable': _TypeTag('Iterable', lambda x: isinstance(x, (list, tuple, NVec, str, dict, set)))},
    'collections.abc': {'Iterable': _TypeTag('Iterable', lambda x: isinstance(x, (list, tuple, NVec, str, dict, set)))},
    'scipy.optimize': {'fsolve': sp_fsolve, 'bisect': _unsupported_fn('scipy.optimize.bisect')},
    'numbers': {'Number': _TypeTag('Number', lambda x: (isinstance(x, (int, Fraction, float)) and not isinstance(x, bool)) or (is_z3(x) and (z3.is_real(x) or z3.is_int(x))))},
    'scipy.spatial': {'cKDTree': Builtin('cKDTree', _ckdtree)},
}


from . import rx as _rx          # the `re` model (pyvc/rx.py)
MODULES['re'] = _rx.module_table()
