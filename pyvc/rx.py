"""Model of the `re` module for the executor: a backtracking matcher with Python's priorities (greedy / lazy repeats,
ordered alternation, leftmost match) over strings whose characters may be symbolic.  Every test of a symbolic character
(or of a symbolic length) is a branch of the path, so on each path the match, its span and its groups are concrete
positions - exactly what CPython's matcher would find for every string of that path.

Subset: literals, '.', classes, \\d \\s \\w and their negations, groups (capturing, non-capturing), alternation, greedy and
lazy repeats, ^ $ \\A \\Z; no flags, no back-references, no look-around, no \\b; an empty match inside finditer / findall is
outside the subset (Unsupported -> the obligation is undecided, never failed).  The pattern must be a concrete string; it is
parsed by CPython's own parser (re._parser), so its syntax is CPython's."""
import z3
try:
    from re import _parser as _sre_parse, _constants as _C
except ImportError:                                  # pragma: no cover  (Python < 3.11)
    import sre_parse as _sre_parse, sre_constants as _C
from .values import SymStr, Unsupported, PyExc, norm_str, is_z3


def _concrete_pattern(p):
    if isinstance(p, SymStr):
        p = p.concrete()
    if not isinstance(p, str):
        raise Unsupported('re: symbolic pattern')
    return p


def _and(*cs):
    cs = [c for c in cs if c is not True]
    if any(c is False for c in cs): return False
    if not cs: return True
    return cs[0] if len(cs) == 1 else z3.And(*cs)


def _or(*cs):
    cs = [c for c in cs if c is not False]
    if any(c is True for c in cs): return True
    if not cs: return False
    return cs[0] if len(cs) == 1 else z3.Or(*cs)


def _not(c):
    return (not c) if isinstance(c, bool) else z3.Not(c)


def _rng(c, lo, hi):
    if isinstance(c, int): return lo <= c <= hi
    return z3.And(c >= lo, c <= hi) if lo != hi else c == lo


def _category(c, cat):
    digit = _rng(c, 48, 57)
    space = _or(_rng(c, 9, 13), _rng(c, 28, 32))
    word = _or(digit, _rng(c, 65, 90), _rng(c, 97, 122), _rng(c, 95, 95))
    table = {_C.CATEGORY_DIGIT: digit, _C.CATEGORY_NOT_DIGIT: _not(digit), _C.CATEGORY_SPACE: space, _C.CATEGORY_NOT_SPACE: _not(space),
             _C.CATEGORY_WORD: word, _C.CATEGORY_NOT_WORD: _not(word)}
    if cat not in table:
        raise Unsupported('re: category %s' % cat)
    return table[cat]


def _char_cond(c, op, av):
    """Condition under which code point c is accepted by the single-character item (op, av)."""
    if op is _C.LITERAL: return _rng(c, av, av)
    if op is _C.NOT_LITERAL: return _not(_rng(c, av, av))
    if op is _C.ANY: return _not(_rng(c, 10, 10))
    if op is _C.IN:
        items, neg = list(av), False
        if items and items[0][0] is _C.NEGATE:
            neg, items = True, items[1:]
        cs = []
        for o, a in items:
            if o is _C.LITERAL: cs.append(_rng(c, a, a))
            elif o is _C.RANGE: cs.append(_rng(c, a[0], a[1]))
            elif o is _C.CATEGORY: cs.append(_category(c, a))
            else: raise Unsupported('re: class item %s' % o)
        r = _or(*cs)
        return _not(r) if neg else r
    return None


class _Matcher(object):
    def __init__(self, eng, parsed, s):
        self.e, self.parsed = eng, parsed
        self.s = SymStr.of(s)

    def in_range(self, pos):
        s = self.s
        if s.fixed: return pos < s.n
        return pos < s.cap and self.e.branch(z3.IntVal(pos) < s.n)

    def at_end(self, pos):
        s = self.s
        if s.fixed: return pos == s.n
        return pos <= s.cap and self.e.branch(s.n == pos)

    def test(self, cond):
        return cond if isinstance(cond, bool) else self.e.branch(cond)

    def m(self, items, i, pos, groups, cont):
        """match items[i:] at pos, then cont(pos, groups); returns cont's result or None"""
        if i == len(items):
            return cont(pos, groups)
        op, av = items[i]
        nxt = lambda p, g: self.m(items, i + 1, p, g, cont)
        if op in (_C.LITERAL, _C.NOT_LITERAL, _C.ANY, _C.IN):
            if self.in_range(pos) and self.test(_char_cond(self.s.chars[pos], op, av)):
                return nxt(pos + 1, groups)
            return None
        if op is _C.AT:
            if av in (_C.AT_BEGINNING, _C.AT_BEGINNING_STRING):
                return nxt(pos, groups) if pos == 0 else None
            if av is _C.AT_END_STRING:
                return nxt(pos, groups) if self.at_end(pos) else None
            if av is _C.AT_END:
                if self.at_end(pos): return nxt(pos, groups)
                if self.in_range(pos) and self.test(_rng(self.s.chars[pos], 10, 10)) and self.at_end(pos + 1): return nxt(pos, groups)
                return None
            raise Unsupported('re: anchor %s' % av)
        if op is _C.SUBPATTERN:
            gid, add_flags, del_flags, sub = av
            if add_flags or del_flags: raise Unsupported('re: inline flags')
            def close(p, g, start=pos):
                if gid is not None:
                    g = dict(g); g[gid] = (start, p)
                return nxt(p, g)
            return self.m(list(sub), 0, pos, groups, close)
        if op is _C.BRANCH:
            for alt in av[1]:
                r = self.m(list(alt), 0, pos, groups, nxt)
                if r is not None: return r
            return None
        if op in (_C.MAX_REPEAT, _C.MIN_REPEAT):
            lo, hi, sub = av
            sub = list(sub)
            greedy = op is _C.MAX_REPEAT
            def rep(count, p, g):
                def more():
                    if hi is not _C.MAXREPEAT and count >= hi: return None
                    return self.m(sub, 0, p, g, lambda p2, g2: rep(count + 1, p2, g2) if (p2 != p or count < lo) else None)
                def stop():
                    return nxt(p, g) if count >= lo else None
                for step in ((more, stop) if greedy else (stop, more)):
                    r = step()
                    if r is not None: return r
                return None
            return rep(0, pos, groups)
        raise Unsupported('re: construct %s' % op)

    def match_at(self, start, full=False):
        def done(p, g):
            if full and not self.at_end(p): return None
            return (start, p, g)
        return self.m(list(self.parsed), 0, start, {}, done)

    def search_from(self, start):
        while True:
            r = self.match_at(start)
            if r is not None: return r
            if not self.in_range(start): return None
            start += 1


def _sub(s, a, b):
    s = SymStr.of(s)
    return norm_str(SymStr(s.chars[a:b]))


def _match_obj(eng, s, r, ngroups):
    from .engine import Obj, Builtin
    if r is None:
        return None
    start, end, g = r
    mo = Obj(None)
    def span_of(k):
        if not isinstance(k, int) or k < 0 or k > ngroups: raise PyExc('IndexError', 'no such group')
        return (start, end) if k == 0 else g.get(k)
    def text(k):
        sp = span_of(k)
        return None if sp is None else _sub(s, sp[0], sp[1])
    def group(e2, *ks):
        if not ks: return text(0)
        return text(ks[0]) if len(ks) == 1 else tuple(text(k) for k in ks)
    def groups(e2, default=None):
        return tuple(default if span_of(k) is None else text(k) for k in range(1, ngroups + 1))
    mo.fields['group'] = Builtin('Match.group', group)
    mo.fields['groups'] = Builtin('Match.groups', groups)
    mo.fields['start'] = Builtin('Match.start', lambda e2, k=0: -1 if span_of(k) is None else span_of(k)[0])
    mo.fields['end'] = Builtin('Match.end', lambda e2, k=0: -1 if span_of(k) is None else span_of(k)[1])
    mo.fields['span'] = Builtin('Match.span', lambda e2, k=0: (-1, -1) if span_of(k) is None else span_of(k))
    mo.fields['string'] = s
    return mo


def _parse(pattern, flags):
    if flags not in (0, None):
        raise Unsupported('re: flags')
    pattern = _concrete_pattern(pattern)
    try:
        p = _sre_parse.parse(pattern)
    except Exception as ex:
        raise PyExc('error', str(ex))
    return pattern, p, p.state.groups - 1


def _check_subject(s):
    if not isinstance(s, (str, SymStr)):
        raise PyExc('TypeError', 'expected string or bytes-like object')
    return s


def _all_matches(eng, parsed, s):
    mt = _Matcher(eng, parsed, _check_subject(s))
    out, pos = [], 0
    while True:
        r = mt.search_from(pos)
        if r is None: return out
        if r[1] == r[0]: raise Unsupported('re: empty match in finditer / findall')
        out.append(r); pos = r[1]


def compile_(eng, pattern, flags=0):
    from .engine import Obj, Builtin
    if isinstance(pattern, Obj) and 'pattern' in pattern.fields and '_rx' in pattern.fields:
        return pattern
    text, parsed, ng = _parse(pattern, flags)
    po = Obj(None)
    po.fields['pattern'] = text; po.fields['groups'] = ng; po.fields['_rx'] = parsed
    def match(e2, s): return _match_obj(e2, s, _Matcher(e2, parsed, _check_subject(s)).match_at(0), ng)
    def fullmatch(e2, s): return _match_obj(e2, s, _Matcher(e2, parsed, _check_subject(s)).match_at(0, full=True), ng)
    def search(e2, s): return _match_obj(e2, s, _Matcher(e2, parsed, _check_subject(s)).search_from(0), ng)
    def finditer(e2, s): return [_match_obj(e2, s, r, ng) for r in _all_matches(e2, parsed, s)]
    def findall(e2, s):
        res = []
        for (a, b, g) in _all_matches(e2, parsed, s):
            if ng == 0: res.append(_sub(s, a, b))
            elif ng == 1: res.append('' if g.get(1) is None else _sub(s, *g[1]))
            else: res.append(tuple('' if g.get(k) is None else _sub(s, *g[k]) for k in range(1, ng + 1)))
        return res
    for name, fn in (('match', match), ('fullmatch', fullmatch), ('search', search), ('finditer', finditer), ('findall', findall)):
        po.fields[name] = Builtin('Pattern.' + name, fn)
    return po


def _module_fn(name):
    def fn(eng, pattern, s, flags=0):
        po = compile_(eng, pattern, flags)
        return po.fields[name].fn(eng, s)
    return fn


def escape(eng, s):
    import re
    return re.escape(_concrete_pattern(s))


def module_table():
    from .engine import Builtin
    t = {'compile': Builtin('re.compile', compile_), 'escape': Builtin('re.escape', escape)}
    for name in ('match', 'fullmatch', 'search', 'finditer', 'findall'):
        t[name] = Builtin('re.' + name, _module_fn(name))
    return t
