"""Value domains of the pyvc symbolic executor.

Concrete Python values (int, bool, Fraction for float literals, str, None, tuple, list,
dict, set) are kept as Python objects.  Symbolic scalars are z3 expressions (Int, Real,
Bool sorts).  Strings with symbolic content are SymStr: a *character vector* (list of
code points, each an int or a z3 Int) with a concrete capacity and a length that is an
int or a z3 Int.  See DESIGN.md section 2.1 for the assumptions (A1..A3).
"""
import z3
from fractions import Fraction


class Unsupported(Exception):
    """The executor met a construct outside its subset: the obligation is undecided."""


class PyExc(Exception):
    """An exception raised by the interpreted Python code."""
    def __init__(self, cls, msg=''):
        Exception.__init__(self, '%s: %s' % (cls, msg))
        self.cls, self.msg = cls, msg


EXC_PARENT = {
    'BaseException': None, 'Exception': 'BaseException',
    'ValueError': 'Exception', 'LookupError': 'Exception', 'IndexError': 'LookupError',
    'KeyError': 'LookupError', 'TypeError': 'Exception', 'ArithmeticError': 'Exception',
    'ZeroDivisionError': 'ArithmeticError', 'OverflowError': 'ArithmeticError',
    'AttributeError': 'Exception', 'NameError': 'Exception', 'UnboundLocalError': 'NameError',
    'AssertionError': 'Exception', 'StopIteration': 'Exception', 'RuntimeError': 'Exception',
    'NotImplementedError': 'RuntimeError', 'UnicodeError': 'ValueError',
}


def exc_isa(cls, target):
    while cls is not None:
        if cls == target:
            return True
        cls = EXC_PARENT.get(cls, 'Exception' if cls not in ('BaseException',) else None)
        if cls == 'BaseException' and target != 'BaseException':
            return False
    return False


class NaN(object):
    """numpy.nan / float('nan') as a distinguished value."""
    def __repr__(self): return 'nan'


NAN = NaN()


class Inf(object):
    def __init__(self, sign=1): self.sign = sign
    def __repr__(self): return 'inf' if self.sign > 0 else '-inf'
    def __eq__(self, o): return isinstance(o, Inf) and o.sign == self.sign
    def __hash__(self): return hash(('inf', self.sign))


def is_z3(x):
    return isinstance(x, z3.ExprRef)


def is_symbolic(x):
    if is_z3(x):
        return True
    if isinstance(x, SymStr):
        return x.symbolic
    if isinstance(x, (list, tuple)):
        return any(is_symbolic(e) for e in x)
    return False


def is_int_like(x):
    return (isinstance(x, int) and not isinstance(x, bool)) or (is_z3(x) and z3.is_int(x))


def is_real_like(x):
    return isinstance(x, Fraction) or isinstance(x, float) or (is_z3(x) and z3.is_real(x))


def is_num(x):
    return isinstance(x, (int, Fraction, float)) and not isinstance(x, bool) or \
        (is_z3(x) and (z3.is_int(x) or z3.is_real(x)))


def is_boolish(x):
    return isinstance(x, bool) or (is_z3(x) and z3.is_bool(x))


def to_real(x):
    if isinstance(x, bool):
        x = int(x)
    if isinstance(x, int):
        return z3.RealVal(x)
    if isinstance(x, Fraction):
        return z3.RealVal(str(x.numerator)) / z3.RealVal(str(x.denominator)) \
            if x.denominator != 1 else z3.RealVal(str(x.numerator))
    if isinstance(x, float):
        f = Fraction(repr(x))
        return to_real(f)
    if is_z3(x):
        if z3.is_int(x):
            return z3.ToReal(x)
        if z3.is_real(x):
            return x
        if z3.is_bool(x):
            return z3.If(x, z3.RealVal(1), z3.RealVal(0))
    raise Unsupported('to_real(%r)' % (x,))


def to_int(x):
    if isinstance(x, bool):
        return z3.IntVal(int(x))
    if isinstance(x, int):
        return z3.IntVal(x)
    if is_z3(x) and z3.is_int(x):
        return x
    if is_z3(x) and z3.is_bool(x):
        return z3.If(x, z3.IntVal(1), z3.IntVal(0))
    raise Unsupported('to_int(%r)' % (x,))


def to_bool(x):
    if isinstance(x, bool):
        return z3.BoolVal(x)
    if is_z3(x) and z3.is_bool(x):
        return x
    raise Unsupported('to_bool(%r)' % (x,))


def simp(e):
    return z3.simplify(e) if is_z3(e) else e


def concretize(e):
    """Turn a z3 value expression into a Python constant where it is one."""
    if not is_z3(e):
        return e
    e = z3.simplify(e)
    if z3.is_true(e):
        return True
    if z3.is_false(e):
        return False
    if z3.is_int_value(e):
        return e.as_long()
    if z3.is_rational_value(e):
        return Fraction(e.numerator_as_long(), e.denominator_as_long())
    return e


def z_and(*cs):
    out = []
    for c in cs:
        if c is True:
            continue
        if c is False:
            return False
        out.append(to_bool(c))
    if not out:
        return True
    return concretize(z3.And(*out)) if len(out) > 1 else concretize(out[0])


def z_or(*cs):
    out = []
    for c in cs:
        if c is False:
            continue
        if c is True:
            return True
        out.append(to_bool(c))
    if not out:
        return False
    return concretize(z3.Or(*out)) if len(out) > 1 else concretize(out[0])


def z_not(c):
    if isinstance(c, bool):
        return not c
    return concretize(z3.Not(to_bool(c)))


def z_ite(c, a, b):
    """if-then-else on scalars (int/real/bool)."""
    if c is True:
        return a
    if c is False:
        return b
    if not is_z3(a) and not is_z3(b) and type(a) == type(b) and a == b:
        return a
    if is_boolish(a) and is_boolish(b):
        return concretize(z3.If(c, to_bool(a), to_bool(b)))
    if is_int_like(a) and is_int_like(b):
        return concretize(z3.If(c, to_int(a), to_int(b)))
    if is_num(a) and is_num(b):
        return concretize(z3.If(c, to_real(a), to_real(b)))
    raise Unsupported('ite on %r / %r' % (type(a), type(b)))


def z_eq(a, b):
    if not is_z3(a) and not is_z3(b):
        return a == b
    if is_boolish(a) and is_boolish(b):
        return concretize(to_bool(a) == to_bool(b))
    if is_int_like(a) and is_int_like(b):
        return concretize(to_int(a) == to_int(b))
    if is_num(a) and is_num(b):
        return concretize(to_real(a) == to_real(b))
    return False


# ----------------------------------------------------------------------------------------
# strings as character vectors

BLANK = 32
WHITESPACE = (32, 9, 10, 11, 12, 13)


class SymStr(object):
    """String of symbolic characters.  chars: list of code points (int or z3 Int), its
    length is the capacity; n: the length (int, then == len(chars), or z3 Int with
    0 <= n <= capacity, established by constraints the creator adds)."""

    def __init__(self, chars, n=None):
        self.chars = list(chars)
        self.n = len(self.chars) if n is None else n
        if isinstance(self.n, int):
            self.chars = self.chars[:self.n]

    @property
    def symbolic(self):
        return is_z3(self.n) or any(is_z3(c) for c in self.chars)

    @property
    def cap(self):
        return len(self.chars)

    @property
    def fixed(self):
        return isinstance(self.n, int)

    @staticmethod
    def of(s):
        if isinstance(s, SymStr):
            return s
        return SymStr([ord(c) for c in s])

    def concrete(self):
        """Python str if fully concrete, else None."""
        if self.fixed and not any(is_z3(c) for c in self.chars):
            return ''.join(chr(c) for c in self.chars)
        return None

    def __repr__(self):
        c = self.concrete()
        if c is not None:
            return 'SymStr(%r)' % c
        return 'SymStr(cap=%d,n=%s)' % (self.cap, self.n)


def norm_str(s):
    """Return a Python str when the SymStr is fully concrete."""
    if isinstance(s, SymStr):
        c = s.concrete()
        if c is not None:
            return c
    return s


def char_at(s, k):
    """Character k (symbolic index allowed) of SymStr s, as an ite chain; no bounds check."""
    if isinstance(k, int):
        return s.chars[k] if 0 <= k < s.cap else 0
    e = z3.IntVal(0)
    for i in range(s.cap - 1, -1, -1):
        e = z3.If(k == i, to_int(s.chars[i]), e)
    return concretize(e)


def char_in(c, alphabet):
    """Condition: code point c is one of the characters of the (concrete) string alphabet."""
    codes = sorted(set(ord(a) for a in alphabet))
    if isinstance(c, int):
        return c in codes
    # compress to ranges
    ranges, lo, prev = [], None, None
    for x in codes:
        if lo is None:
            lo = prev = x
        elif x == prev + 1:
            prev = x
        else:
            ranges.append((lo, prev)); lo = prev = x
    if lo is not None:
        ranges.append((lo, prev))
    return z_or(*[(c == a) if a == b else z3.And(c >= a, c <= b) for a, b in ranges])


def is_digit_c(c):
    if isinstance(c, int):
        return 48 <= c <= 57
    return z3.And(c >= 48, c <= 57)


def is_space_c(c):
    if isinstance(c, int):
        return c in WHITESPACE
    return z3.Or(c == 32, z3.And(c >= 9, c <= 13))


def lower_c(c):
    if isinstance(c, int):
        return c + 32 if 65 <= c <= 90 else c
    return z3.If(z3.And(c >= 65, c <= 90), c + 32, c)


def upper_c(c):
    if isinstance(c, int):
        return c - 32 if 97 <= c <= 122 else c
    return z3.If(z3.And(c >= 97, c <= 122), c - 32, c)


def str_len(s):
    if isinstance(s, str):
        return len(s)
    return s.n


def str_eq(a, b):
    a, b = norm_str(a), norm_str(b)
    if isinstance(a, str) and isinstance(b, str):
        return a == b
    a, b = SymStr.of(a), SymStr.of(b)
    if a.fixed and b.fixed:
        if a.n != b.n:
            return False
        return z_and(*[z_eq(x, y) for x, y in zip(a.chars, b.chars)])
    m = min(a.cap, b.cap)
    conds = [z_eq(a.n, b.n)]
    # equal lengths are at most m
    for k in range(m):
        conds.append(z_or(z_not(_lt(k, a.n)), z_eq(a.chars[k], b.chars[k])))
    if a.cap != b.cap:
        conds.append(_le(a.n, m))
    return z_and(*conds)


def _lt(a, b):
    if isinstance(a, int) and isinstance(b, int):
        return a < b
    return concretize(to_int(a) < to_int(b))


def _le(a, b):
    if isinstance(a, int) and isinstance(b, int):
        return a <= b
    return concretize(to_int(a) <= to_int(b))


def str_concat(a, b):
    a, b = norm_str(a), norm_str(b)
    if isinstance(a, str) and isinstance(b, str):
        return a + b
    a, b = SymStr.of(a), SymStr.of(b)
    if a.fixed:
        if b.fixed:
            return SymStr(a.chars + b.chars)
        return SymStr(a.chars + b.chars, concretize(a.n + to_int(b.n)))
    # symbolic length on the left: out[k] = k < a.n ? a[k] : b[k - a.n]
    cap = a.cap + b.cap
    out = []
    for k in range(cap):
        e = char_at(b, concretize(k - to_int(a.n))) if True else 0
        if k < a.cap:
            e = z_ite_int(_lt(k, a.n), a.chars[k], e)
        out.append(e)
    n = concretize(to_int(a.n) + to_int(b.n))
    return SymStr(out, n)


def z_ite_int(c, a, b):
    if c is True:
        return a
    if c is False:
        return b
    return concretize(z3.If(c, to_int(a), to_int(b)))


def str_slice(s, lo, hi):
    """s[lo:hi] with concrete non-negative lo, hi (hi may be None)."""
    s = norm_str(s)
    if isinstance(s, str):
        return s[lo:hi]
    if s.fixed:
        return norm_str(SymStr(s.chars[lo:hi]))
    if lo is None:
        lo = 0
    if lo < 0 or (hi is not None and hi < 0):
        raise Unsupported('negative slice bound on symbolic-length string')
    chars = s.chars[lo:hi]
    end = s.n if hi is None else z_ite_int(_lt(hi, s.n), hi, s.n)
    n = concretize(z3.If(to_int(end) - lo > 0, to_int(end) - lo, 0))
    return SymStr(chars, n)


def str_shift(s, k, newlen):
    """Characters of s starting at symbolic offset k, length newlen (symbolic)."""
    out = []
    for j in range(s.cap):
        out.append(char_at(s, concretize(to_int(k) + j)))
    return SymStr(out, newlen)


def count_leading(s, pred):
    """Number of leading characters (within the length) satisfying pred: z3 Int / int."""
    e = 0
    running = True
    for k in range(s.cap):
        running = z_and(running, _lt(k, s.n), pred(s.chars[k]))
        if running is False:
            break
        e = e + z_ite_int(running, 1, 0) if not (running is True) else e + 1
    return concretize(e) if is_z3(e) else e


def count_trailing(s, pred):
    """Number of trailing characters satisfying pred."""
    if s.fixed:
        e, running = 0, True
        for k in range(s.n - 1, -1, -1):
            running = z_and(running, pred(s.chars[k]))
            if running is False:
                break
            e = e + z_ite_int(running, 1, 0) if not (running is True) else e + 1
        return concretize(e) if is_z3(e) else e
    # symbolic length: trailing count t = number of k with k<n and all of s[k..n) satisfy pred
    # all-from[k] = for every j>=k: j<n -> pred(s[j])
    allfrom = [None] * (s.cap + 1)
    allfrom[s.cap] = True
    for k in range(s.cap - 1, -1, -1):
        allfrom[k] = z_and(allfrom[k + 1], z_or(z_not(_lt(k, s.n)), pred(s.chars[k])))
    e = z3.IntVal(0)
    for k in range(s.cap):
        e = e + z_ite_int(z_and(_lt(k, s.n), allfrom[k]), 1, 0)
    return concretize(e)


def str_strip(s, left=True, right=True, pred=is_space_c):
    s = norm_str(s)
    if isinstance(s, str):
        return s.strip() if (left and right) else (s.lstrip() if left else s.rstrip())
    l = count_leading(s, pred) if left else 0
    # if everything is stripped from the left, nothing remains for the right
    if right:
        t = count_trailing(s, pred)
    else:
        t = 0
    if isinstance(l, int) and isinstance(t, int) and s.fixed:
        if l >= s.n:
            return ''
        return norm_str(SymStr(s.chars[l:s.n - t]))
    total = concretize(to_int(s.n) - to_int(l) - to_int(t))
    newlen = concretize(z3.If(to_int(l) >= to_int(s.n), 0, total))
    if isinstance(l, int):
        return SymStr(s.chars[l:], newlen)
    return str_shift(s, l, newlen)


def str_map(s, f):
    s = norm_str(s)
    if isinstance(s, str):
        return ''.join(chr(f(ord(c))) for c in s)
    return norm_str(SymStr([concretize(f(c)) if is_z3(c) else f(c) for c in s.chars], s.n))


def str_replace_char(s, a, b):
    """s.replace(a, b) for single characters a, b."""
    oa, ob = ord(a), ord(b)
    def f(c):
        if isinstance(c, int):
            return ob if c == oa else c
        return z3.If(c == oa, ob, c)
    return str_map(s, f)


def str_remove_char(s, a):
    """s.replace(a, '') for a single character a: compaction."""
    s = norm_str(s)
    if isinstance(s, str):
        return s.replace(a, '')
    oa = ord(a)
    keep = [z_and(_lt(k, s.n), z_not(z_eq(s.chars[k], oa))) for k in range(s.cap)]
    pos, acc = [], 0
    for k in range(s.cap):
        pos.append(acc)
        acc = acc + z_ite_int(keep[k], 1, 0) if keep[k] is not True else acc + 1
        if keep[k] is False:
            acc = pos[-1]
    total = concretize(acc) if is_z3(acc) else acc
    out = []
    for j in range(s.cap):
        e = 0
        for k in range(s.cap - 1, j - 1, -1):
            c = z_and(keep[k], z_eq(pos[k], j))
            if c is False:
                continue
            e = z_ite_int(c, s.chars[k], e)
        out.append(e)
    return norm_str(SymStr(out, total))


def str_expand_char(s, a, rep):
    """s.replace(a, rep) for single character a and a concrete replacement string rep of
    length 2 whose characters differ from a or not (no rescanning in Python's replace)."""
    s = norm_str(s)
    if isinstance(s, str):
        return s.replace(a, rep)
    oa = ord(a)
    r = [ord(c) for c in rep]
    m = len(r)
    if m == 0:
        return str_remove_char(s, a)
    hit = [z_and(_lt(k, s.n), z_eq(s.chars[k], oa)) for k in range(s.cap)]
    # start position of source char k in the output
    pos, acc = [], 0
    for k in range(s.cap):
        pos.append(acc)
        step = z_ite_int(hit[k], m, 1) if hit[k] is not True else m
        if hit[k] is False:
            step = 1
        acc = acc + step
    cap = s.cap * m
    out = []
    for j in range(cap):
        e = 0
        for k in range(min(s.cap - 1, j), -1, -1):
            if j - k > (m - 1) * (k + 1) + 0 and False:
                continue
            # char k contributes at offsets pos[k] .. pos[k]+len-1
            for d in range(m):
                if d == 0:
                    c = z_and(_lt(k, s.n), z_eq(pos[k], j))
                    val = z_ite_int(hit[k], r[0], s.chars[k])
                else:
                    c = z_and(hit[k], z_eq(pos[k], j - d))
                    val = r[d]
                if c is False:
                    continue
                e = z_ite_int(c, val, e)
        out.append(e)
    nhits = 0
    for k in range(s.cap):
        nhits = nhits + z_ite_int(hit[k], 1, 0)
    n = concretize(to_int(s.n) + (m - 1) * to_int(nhits))
    return SymStr(out, n)


def str_just(s, width, left, fill=' '):
    """ljust (left=True) / rjust with concrete width."""
    s = norm_str(s)
    if isinstance(s, str):
        return s.ljust(width, fill) if left else s.rjust(width, fill)
    f = ord(fill)
    if s.fixed:
        pad = [f] * max(0, width - s.n)
        return norm_str(SymStr(s.chars + pad if left else pad + s.chars))
    cap = max(s.cap, width)
    n = concretize(z3.If(to_int(s.n) >= width, to_int(s.n), width))
    out = []
    if left:
        for k in range(cap):
            c = s.chars[k] if k < s.cap else f
            out.append(z_ite_int(_lt(k, s.n), c, f))
    else:
        padn = concretize(z3.If(to_int(s.n) >= width, 0, width - to_int(s.n)))
        for k in range(cap):
            out.append(z_ite_int(_lt(k, padn), f, char_at(s, concretize(k - to_int(padn)))))
    return SymStr(out, n)


def str_all(s, pred):
    s = SymStr.of(s)
    return z_and(*[z_or(z_not(_lt(k, s.n)), pred(s.chars[k])) for k in range(s.cap)])


def str_any(s, pred):
    s = SymStr.of(s)
    return z_or(*[z_and(_lt(k, s.n), pred(s.chars[k])) for k in range(s.cap)])


def str_isdigit(s):
    s = norm_str(s)
    if isinstance(s, str):
        return s.isdigit()
    return z_and(_lt(0, s.n), str_all(s, is_digit_c))


# ----------------------------------------------------------------------------------------
# int() and float() on character vectors


def int_grammar(s):
    """CPython int(str) for base 10 over the ASCII alphabet: optional surrounding
    whitespace, optional sign, digits with single underscores between digits.  Returns
    (accept_condition, value) with value a z3 Int (Horner).  Underscores are treated as
    not accepted unless the string is concrete (A2: underscore forms are outside every
    quantifier but are classified exactly for concrete strings)."""
    s = norm_str(s)
    if isinstance(s, str):
        try:
            return True, int(s)
        except ValueError:
            return False, 0
    t = SymStr.of(str_strip(s))
    # DFA: 0 start, 1 after sign, 2 digits, 3 underscore after a digit, 4 dead; accept 2
    st = [True, False, False, False, False]
    val = 0
    neg = z_and(_lt(0, t.n), z_eq(t.chars[0], 45)) if t.cap > 0 else False
    for k in range(t.cap):
        c = t.chars[k]
        inlen = _lt(k, t.n)
        d = is_digit_c(c)
        sg = char_in(c, '+-')
        us = z_eq(c, 95)
        nxt = [False] * 5
        nxt[1] = z_and(st[0], sg)
        nxt[2] = z_and(z_or(st[0], st[1], st[2], st[3]), d)
        nxt[3] = z_and(st[2], us)
        nxt[4] = z_not(z_or(nxt[1], nxt[2], nxt[3]))
        st = [z_ite_bool(inlen, b, a) for a, b in zip(st, nxt)]
        use = z_and(inlen, d)
        val = z_ite_int(use, 10 * to_int(val) + (to_int(c) - 48), val)
    accept = st[2]
    value = z_ite_int(neg, -to_int(val), val)
    return accept, value


def float_grammar_accept(s):
    """CPython float(str) acceptance over ASCII (after stripping whitespace):
    [sign] (digits [. [digits]] | . digits) [(e|E) [sign] digits]  |  [sign] inf|infinity|nan
    (case-insensitive).  Underscore forms accepted by CPython are classified exactly only
    for concrete strings.  Returns the acceptance condition (bool / z3 Bool) computed by
    running a DFA along the capacity of the vector."""
    s = norm_str(s)
    if isinstance(s, str):
        try:
            float(s)
            return True
        except ValueError:
            return False
    t = SymStr.of(str_strip(s))
    # DFA states: 0 start, 1 after sign, 2 int digits, 3 after point (had int digits),
    # 4 point without int digits, 5 frac digits, 6 after e, 7 after exp sign, 8 exp digits,
    # 9 dead.  accepting: 2, 3, 5, 8.
    # 10, 11, 12: an underscore after a digit of the int / frac / exp part (a digit must follow)
    NS = 13
    st = [False] * NS
    st[0] = True
    def isin(c, chars):
        return char_in(c, chars)
    for k in range(t.cap):
        c = t.chars[k]
        inlen = _lt(k, t.n)
        d = is_digit_c(c)
        sg = isin(c, '+-')
        pt = z_eq(c, 46)
        ee = isin(c, 'eE')
        nxt = [False] * NS
        nxt[1] = z_and(st[0], sg)
        us = z_eq(c, 95)
        nxt[2] = z_and(z_or(st[0], st[1], st[2], st[10]), d)
        nxt[3] = z_and(st[2], pt)
        nxt[4] = z_and(z_or(st[0], st[1]), pt)
        nxt[5] = z_and(z_or(st[3], st[4], st[5], st[11]), d)
        nxt[6] = z_and(z_or(st[2], st[3], st[5]), ee)
        nxt[7] = z_and(st[6], sg)
        nxt[8] = z_and(z_or(st[6], st[7], st[8], st[12]), d)
        nxt[10] = z_and(st[2], us)
        nxt[11] = z_and(st[5], us)
        nxt[12] = z_and(st[8], us)
        live = z_or(*(nxt[:9] + nxt[10:]))
        nxt[9] = z_not(live)
        st = [b if inlen is True else z_ite_bool(inlen, b, a) for a, b in zip(st, nxt)]
    numeric = z_or(st[2], st[3], st[5], st[8])
    # inf / nan words
    lowered = SymStr.of(str_map(t, lower_c))
    words = []
    for w in ('inf', 'infinity', 'nan'):
        for sign in ('', '+', '-'):
            ww = sign + w
            if len(ww) <= lowered.cap:
                words.append(str_eq(lowered, ww))
    return z_or(numeric, *words)


def z_ite_bool(c, a, b):
    if c is True:
        return a
    if c is False:
        return b
    if a is True and b is True:
        return True
    if a is False and b is False:
        return False
    return concretize(z3.If(c, to_bool(a), to_bool(b)))


def float_decode(s):
    """For a string accepted by the numeric branch of float_grammar_accept: the parts of
    the decimal numeral after stripping: (neg, mant, nfrac, exp) with value
    (-1)^neg * mant * 10^(exp - nfrac); underscores ignored.  z3 Int/Bool terms."""
    t = SymStr.of(str_strip(s))
    mant, nfrac, exp = z3.IntVal(0), z3.IntVal(0), z3.IntVal(0)
    seen_pt, seen_e = False, False
    neg, eneg = False, False
    prev_is_e = False
    for k in range(t.cap):
        c = t.chars[k]
        inlen = _lt(k, t.n)
        d = z_and(inlen, is_digit_c(c))
        dv = to_int(c) - 48
        is_pt = z_and(inlen, z_eq(c, 46))
        is_e = z_and(inlen, char_in(c, 'eE'))
        is_minus = z_and(inlen, z_eq(c, 45))
        in_exp = seen_e
        mant = z3.If(to_bool(z_and(d, z_not(in_exp))), 10 * mant + dv, mant)
        nfrac = z3.If(to_bool(z_and(d, z_not(in_exp), seen_pt)), nfrac + 1, nfrac)
        exp = z3.If(to_bool(z_and(d, in_exp)), 10 * exp + dv, exp)
        if k == 0:
            neg = is_minus
        else:
            eneg = z_or(eneg, z_and(is_minus, prev_is_e))
        seen_pt = z_or(seen_pt, is_pt)
        seen_e = z_or(seen_e, is_e)
        prev_is_e = is_e
    exp = z3.If(to_bool(eneg), -exp, exp)
    return neg, concretize(mant), concretize(nfrac), concretize(exp)


# ---------------------------------------------------------------------------------------------
# polynomial normalisation of quotients (centroid formulas divide a polynomial by the polygon area)

def _to_sympy(t, syms, budget):
    import sympy
    budget[0] -= 1
    if budget[0] < 0:
        return None
    if z3.is_rational_value(t):
        return sympy.Rational(t.numerator_as_long(), t.denominator_as_long())
    if z3.is_int_value(t):
        return sympy.Integer(t.as_long())
    if z3.is_const(t) and t.decl().kind() == z3.Z3_OP_UNINTERPRETED:
        n = t.decl().name()
        if n not in syms:
            syms[n] = (sympy.Symbol('v%d' % len(syms)), t)
        return syms[n][0]
    if not z3.is_app(t):
        return None
    k = t.decl().kind()
    if k == z3.Z3_OP_TO_REAL:
        return _to_sympy(t.arg(0), syms, budget)
    ch = [_to_sympy(c, syms, budget) for c in t.children()]
    if any(c is None for c in ch):
        return None
    if k == z3.Z3_OP_ADD:
        return sum(ch[1:], ch[0])
    if k == z3.Z3_OP_MUL:
        r = ch[0]
        for c in ch[1:]:
            r = r * c
        return r
    if k == z3.Z3_OP_SUB:
        r = ch[0]
        for c in ch[1:]:
            r = r - c
        return r
    if k == z3.Z3_OP_UMINUS:
        return -ch[0]
    if k == z3.Z3_OP_DIV and (z3.is_rational_value(t.arg(1)) or z3.is_int_value(t.arg(1))):
        return ch[0] / ch[1]
    return None


def exact_quotient(a, b):
    """a / b as a polynomial when b (a non-numeral polynomial) divides a exactly; None otherwise.
    Only +, -, *, numerals and variables are understood; anything else (If, uninterpreted functions,
    symbolic division) gives None and the quotient stays a z3 division."""
    try:
        import sympy
        syms = {}
        budget = [400]
        pa, pb = _to_sympy(a, syms, budget), _to_sympy(b, syms, budget)
        if pa is None or pb is None or not syms:
            return None
        gens = [v[0] for v in syms.values()]
        q, r = sympy.div(sympy.Poly(sympy.expand(pa), *gens), sympy.Poly(sympy.expand(pb), *gens))
        if not r.is_zero:
            return None
        back = dict((v[0], v[1]) for v in syms.values())
        out = z3.RealVal(0)
        for monom, coeff in q.terms():
            term = z3.RealVal(str(sympy.Rational(coeff)))
            for g, p in zip(gens, monom):
                for _ in range(p):
                    term = term * (z3.ToReal(back[g]) if z3.is_int(back[g]) else back[g])
            out = out + term
        return z3.simplify(out)
    except Exception:
        return None
