"""pyvc: a symbolic executor for a subset of Python, run on the *real* source of /repo.

On every run the source files are re-parsed with `ast`; functions are looked up by
qualified name and executed over the value domains of values.py.  Paths are explored by
re-execution with a decision log (depth first).  Obligations (`prove`) are discharged
with z3; `unknown` goes to cvc5 through SMT-LIB2.  Anything outside the subset raises
Unsupported, which makes the obligation *undecided* - never passed, never a violation.

What the extraction drops (exhaustive list): docstrings, print(...) calls, function-local
`import` statements (imported names are bound to the library models below), `global`.
"""
import ast
import os
import time
import subprocess
import tempfile
import z3
from fractions import Fraction

from .values import *   # noqa
from . import values as V


class ReturnSignal(Exception):
    def __init__(self, value): self.value = value


class BreakSignal(Exception):
    pass


class ContinueSignal(Exception):
    pass


def is_nonlinear(t, _memo=None):
    """Does the term multiply or divide by something that is not a numeral (or use a power)?"""
    if not is_z3(t):
        return False
    memo = {} if _memo is None else _memo
    k = t.get_id()               # ids are stable while `t` (the root) is alive
    if k in memo:
        return memo[k]
    r = False
    if z3.is_app(t):
        kind = t.decl().kind()
        ch = t.children()
        if kind == z3.Z3_OP_MUL:
            r = sum(1 for c in ch if not (z3.is_rational_value(c) or z3.is_int_value(c))) > 1
        elif kind in (z3.Z3_OP_DIV, z3.Z3_OP_IDIV, z3.Z3_OP_MOD, z3.Z3_OP_REM):
            r = not (z3.is_rational_value(ch[1]) or z3.is_int_value(ch[1]))
        elif kind == z3.Z3_OP_POWER:
            r = True
        if not r:
            r = any(is_nonlinear(c, memo) for c in ch)
    memo[k] = r
    return r


FEAS_RLIMIT = 20000000     # z3 resource units per feasibility query: deterministic, independent of machine load
FEAS_RLIMIT_NL = 3000000   # the same for the solver that also holds the nonlinear constraints
FEAS_TIMEOUT_MS = 30000     # wall-clock backstop only (linear questions)
FEAS_TIMEOUT_NL_MS = 2000   # nonlinear questions: z3's resource units track nlsat time poorly, so the wall clock also bounds them;
                            # an undecided nonlinear question only admits an extra path, and a failure needs a satisfiable path condition


class PathAbort(Exception):
    """The current path is infeasible (or was cut by assume)."""


class BudgetExceeded(Exception):
    pass


# ----------------------------------------------------------------------------------------
# run-time objects of the interpreted program


class FuncVal(object):
    def __init__(self, node, module, closure=None, qualname=None, cls=None):
        self.node, self.module, self.closure = node, module, closure
        self.qualname = qualname or node.name
        self.cls = cls

    def __repr__(self): return '<func %s>' % self.qualname


class LambdaVal(object):
    def __init__(self, node, module, closure):
        self.node, self.module, self.closure = node, module, closure


class BoundMethod(object):
    def __init__(self, func, obj): self.func, self.obj = func, obj


class Builtin(object):
    def __init__(self, name, fn): self.name, self.fn = name, fn
    def __repr__(self): return '<builtin %s>' % self.name


class ClassVal(object):
    def __init__(self, name, module, bases, attrs):
        self.name, self.module, self.bases, self.attrs = name, module, bases, attrs

    def lookup(self, name):
        if name in self.attrs:
            return self.attrs[name]
        for b in self.bases:
            if isinstance(b, ClassVal):
                r = b.lookup(name)
                if r is not None:
                    return r
        return None

    def __repr__(self): return '<class %s>' % self.name


class PropertyVal(object):
    def __init__(self, fget, fset=None): self.fget, self.fset = fget, fset


class Obj(object):
    """Instance of an interpreted class (or a plain record when cls is None)."""
    _serial = [0]

    def __init__(self, cls=None, **fields):
        self.cls = cls
        self.fields = dict(fields)
        Obj._serial[0] += 1
        self.serial = Obj._serial[0]       # creation order: the deterministic iteration order of sets of objects

    def __repr__(self):
        return '<%s %s>' % (self.cls.name if self.cls else 'record', sorted(self.fields))


def _order_key(x):
    if isinstance(x, Obj):
        return (2, x.serial, '')
    if isinstance(x, tuple):
        return (3, 0, repr(tuple(_order_key(y) for y in x)))
    return (1, 0, repr(x))


class ExcClass(object):
    def __init__(self, name): self.name = name
    def __repr__(self): return '<exc %s>' % self.name


class ModuleVal(object):
    def __init__(self, name): self.name = name; self.globals = {}
    def __repr__(self): return '<module %s>' % self.name


class PartialVal(object):
    def __init__(self, func, kwargs): self.func, self.kwargs = func, kwargs


class AbsStr(object):
    """Result of a %-format of a symbolic number: an uninterpreted string of which only
    the length (z3 Int) and the formatted value are known (axioms F1..F3, DESIGN 2.1)."""
    def __init__(self, n, fmt, val, kind):
        self.n, self.fmt, self.val, self.kind = n, fmt, val, kind

    def __repr__(self): return 'AbsStr(%s %% %s)' % (self.fmt, self.val)


class NVec(object):
    """numpy 1-D array of scalars (ints / Fractions / z3 reals)."""
    def __init__(self, items): self.items = list(items)
    def __repr__(self): return 'NVec(%r)' % (self.items,)


class Frame(object):
    def __init__(self, module, locals_=None, closure=None, func=None):
        self.module, self.closure, self.func = module, closure, func
        self.locals = locals_ if locals_ is not None else {}

    def lookup(self, name):
        f = self
        while f is not None:
            if name in f.locals:
                return f.locals[name]
            f = f.closure
        raise KeyError(name)


class Obligation(object):
    def __init__(self, name):
        self.name = name
        self.paths = 0
        self.status = None          # 'discharged' | 'failed' | 'undecided'
        self.detail = ''
        self.model = None
        self.seconds = 0.0
        self.backend = 'z3'
        self.queries = 0

    def merge(self, status, detail='', model=None):
        order = {'discharged': 0, 'undecided': 1, 'failed': 2}
        if self.status is None or order[status] > order[self.status]:
            self.status, self.detail, self.model = status, detail, model


# ----------------------------------------------------------------------------------------


class Engine(object):
    def __init__(self, repo, timeout_ms=10000, use_cvc5=True, max_paths=20000, extra_paths=()):
        self.repo = repo
        self.timeout_ms = timeout_ms
        self.use_cvc5 = use_cvc5
        self.max_paths = max_paths
        self.search_paths = [repo] + list(extra_paths)
        self.modules = {}
        self.obligations = {}
        self.sources = {}
        self.assumptions_used = set()
        self.inlined = set()
        self.fresh_counter = 0
        # per-path state
        self.stack = []
        self.cursor = 0
        self.pc = []
        self.solver = None
        self.inputs = {}
        self.npaths = 0
        self.call_depth = 0
        self.loop_summaries = {}
        self.opaque = {}
        self.solver_seconds = 0.0

    # -- modules ------------------------------------------------------------------------

    def load_module(self, name):
        if name in self.modules:
            return self.modules[name]
        path = None
        for d in self.search_paths:
            p = os.path.join(d, name + '.py')
            if os.path.exists(p):
                path = p
                break
        if path is None:
            raise Unsupported('module %s not found' % name)
        src = open(path).read()
        self.sources[name] = (path, src)
        tree = ast.parse(src, path)
        mod = ModuleVal(name)
        mod.tree = tree
        mod.path = path
        self.modules[name] = mod
        frame = Frame(mod, mod.globals)
        for stmt in tree.body:
            try:
                self.exec_toplevel(stmt, frame)
            except (Unsupported, PyExc, KeyError, TypeError, AttributeError, ValueError,
                    IndexError, ZeroDivisionError) as e:
                for n in self._assigned_names(stmt):
                    mod.globals[n] = _Poison(n, repr(e))
        return mod

    def _assigned_names(self, stmt):
        names = []
        if isinstance(stmt, ast.Assign):
            for t in stmt.targets:
                for n in ast.walk(t):
                    if isinstance(n, ast.Name):
                        names.append(n.id)
        elif isinstance(stmt, (ast.FunctionDef, ast.ClassDef)):
            names.append(stmt.name)
        return names

    def exec_toplevel(self, stmt, frame):
        if isinstance(stmt, (ast.Import, ast.ImportFrom)):
            self.exec_import(stmt, frame)
        elif isinstance(stmt, ast.Expr) and isinstance(stmt.value, ast.Constant):
            pass
        elif isinstance(stmt, (ast.FunctionDef, ast.ClassDef, ast.Assign, ast.AugAssign)):
            self.exec_stmt(stmt, frame)
        elif isinstance(stmt, ast.Try):
            # e.g. "try: from collections.abc import Iterable except ..." - take the body
            for s in stmt.body:
                self.exec_toplevel(s, frame)
        elif isinstance(stmt, ast.If):
            pass
        else:
            pass

    def exec_import(self, stmt, frame):
        from . import library
        if isinstance(stmt, ast.ImportFrom):
            if stmt.module == '__future__':
                return
            src = self._import_source(stmt.module)
            for a in stmt.names:
                if a.name == '*':
                    for k, v in src.items():
                        if not k.startswith('_'):
                            frame.locals[k] = v
                else:
                    if a.name in src:
                        frame.locals[a.asname or a.name] = src[a.name]
                    else:
                        frame.locals[a.asname or a.name] = _Poison(a.name, 'import %s.%s' % (stmt.module, a.name))
        else:
            for a in stmt.names:
                src = self._import_source(a.name)
                m = ModuleVal(a.name)
                m.globals = src
                frame.locals[a.asname or a.name.split('.')[0]] = m

    def _import_source(self, modname):
        from . import library
        if modname in library.MODULES:
            return library.MODULES[modname]
        for d in self.search_paths:
            if os.path.exists(os.path.join(d, modname + '.py')):
                return self.load_module(modname).globals
        return {}

    def get_function(self, qualname):
        """'module.func', 'module.Class.method', 'module.func.nested'."""
        parts = qualname.split('.')
        mod = self.load_module(parts[0])
        v = mod.globals.get(parts[1])
        if v is None:
            raise Unsupported('no %s' % qualname)
        for p in parts[2:]:
            if isinstance(v, ClassVal):
                v = v.lookup(p)
            elif isinstance(v, FuncVal):
                found = None
                for n in ast.walk(v.node):
                    if isinstance(n, ast.FunctionDef) and n.name == p and n is not v.node:
                        found = FuncVal(n, v.module, None, qualname)
                        break
                v = found
            if v is None:
                raise Unsupported('no %s' % qualname)
        return v

    # -- path exploration ---------------------------------------------------------------

    def explore(self, prog, label=''):
        """Run prog(self) along every feasible path."""
        self.stack = []
        t0 = time.time()
        n = 0
        while True:
            self.cursor = 0
            self.aux_model = self.aux_unknown = None      # what valid() recorded belongs to the path it was asked on
            self.pc = []
            self.nl = []
            self.inputs = {}
            self.solver = z3.Solver()
            self.solver_full = z3.Solver()
            for sv, rl in ((self.solver, FEAS_RLIMIT), (self.solver_full, FEAS_RLIMIT_NL)):
                # a resource limit (deterministic, independent of machine load) bounds each feasibility query; the
                # wall-clock limit is only a backstop.  Nonlinear questions get the smaller limit: an undecided one only
                # admits an extra path, and there can be thousands of them in a program
                sv.set('timeout', FEAS_TIMEOUT_MS if sv is self.solver else FEAS_TIMEOUT_NL_MS)
                if rl:
                    sv.set('rlimit', rl)
            self.call_depth = 0
            self._fresh_path = {}
            n += 1
            self.npaths += 1
            try:
                prog(self)
            except PathAbort:
                pass
            while self.stack and self.stack[-1][1]:
                self.stack.pop()
            if not self.stack:
                break
            self.stack[-1] = [not self.stack[-1][0], True]
            if n >= self.max_paths:
                raise BudgetExceeded('%s: more than %d paths' % (label, self.max_paths))
        return n

    def fresh(self, base):
        k = self._fresh_path.get(base, 0)
        self._fresh_path[base] = k + 1
        return '%s!%d' % (base, k)

    def _add(self, cond):
        """Record a path constraint.  Nonlinear ones stay out of the incremental feasibility solver (they make
        every later branch query a nonlinear one); dropping them there only admits more paths, and every
        obligation is still proved under the full path condition self.pc."""
        self.pc.append(cond)
        self.solver_full.add(cond)
        if is_nonlinear(cond):
            self.nl.append(cond)
        else:
            self.solver.add(cond)

    def assume(self, cond):
        cond = concretize(cond) if is_z3(cond) else cond
        if cond is True:
            return
        if cond is False:
            raise PathAbort()
        self._add(cond)
        # an assumption that contradicts the decisions already taken on this path ends the path (no input reaches here)
        if not is_nonlinear(cond) and self.solver.check() == z3.unsat:
            raise PathAbort()

    def feasible(self, cond, precise=False):
        t0 = time.time()
        if self.nl and is_nonlinear(cond):
            # a nonlinear question needs the nonlinear facts of the path: the full incremental solver
            r = self.solver_full.check(cond)
        else:
            r = self.solver.check(cond)
            if r != z3.unsat and precise and self.nl:
                # a branch that raises (division by zero, domain error): ask again under the full path condition
                r = self.solver_full.check(cond)
        self.solver_seconds += time.time() - t0
        return r != z3.unsat

    def branch(self, cond, precise=False):
        """Decide a symbolic condition on this path; returns a Python bool."""
        if isinstance(cond, bool):
            return cond
        cond = concretize(cond)
        if isinstance(cond, bool):
            return cond
        idx = self.cursor
        self.cursor += 1
        if idx < len(self.stack):
            val = self.stack[idx][0]
        else:
            t_ok = self.feasible(cond, precise)
            if not t_ok:
                val, flipped = False, True
            else:
                f_ok = self.feasible(z3.Not(cond))
                val, flipped = True, (not f_ok)
            self.stack.append([val, flipped])
        c = cond if val else z3.Not(cond)
        self._add(c)
        return val

    def truth(self, v):
        if isinstance(v, bool):
            return v
        if v is None:
            return False
        if is_z3(v):
            if z3.is_bool(v):
                return self.branch(v)
            return self.branch(v != 0)
        if isinstance(v, (int, Fraction, float)):
            return v != 0
        if isinstance(v, (str, list, tuple, dict, set, frozenset)):
            return len(v) > 0
        if isinstance(v, SymStr):
            return self.branch(V._lt(0, v.n))
        if isinstance(v, AbsStr):
            return self.branch(v.n > 0)
        if isinstance(v, NVec):
            if len(v.items) == 1:
                return self.truth(v.items[0])
            raise PyExc('ValueError', 'truth value of an array is ambiguous')
        if isinstance(v, V.NaN):
            return True
        return True

    # -- obligations --------------------------------------------------------------------

    def obligation(self, name):
        if name not in self.obligations:
            self.obligations[name] = Obligation(name)
        return self.obligations[name]

    def valid(self, cond, timeout=20000, record=True):
        """Validity of cond under the current path condition, for contract code that decides a clause over many
        heap items before stating the obligation; the solver time is charged to the next obligation recorded.
        record=False: a question the contract code asks to choose how to state a clause (a refutation is not a
        counterexample of anything): no counterexample is kept, a give-up still makes the next failure undecided."""
        if isinstance(cond, bool):
            return cond
        t0 = time.time()
        s = z3.Solver(); s.set('timeout', timeout); s.add(*self.pc); s.add(z3.Not(cond))
        res = s.check()
        r = res == z3.unsat
        if res == z3.unknown:
            # "not proved" is not "refuted": the next obligation recorded as failing is undecided instead
            self.aux_unknown = 'solver gave up on a clause (%s)' % s.reason_unknown()
        elif res == z3.sat and record:
            # the counterexample of the most recently refuted clause: the inputs a failing obligation is replayed with
            self.aux_model = self.model_inputs(s.model())
        dt = time.time() - t0
        self.aux_seconds = getattr(self, 'aux_seconds', 0.0) + dt
        self.aux_queries = getattr(self, 'aux_queries', 0) + 1
        self.solver_seconds += dt
        return r

    def _charge_aux(self, ob):
        ob.seconds += getattr(self, 'aux_seconds', 0.0)
        ob.queries += getattr(self, 'aux_queries', 0)
        self.aux_seconds, self.aux_queries = 0.0, 0
        return None

    def _take_refutation(self):
        """(solver give-up, counterexample) recorded by valid() since the last failing obligation."""
        gave_up, self.aux_unknown = getattr(self, 'aux_unknown', None), None
        model, self.aux_model = getattr(self, 'aux_model', None), None
        return gave_up, model

    def prove(self, cond, name, detail=''):
        """Obligation: on the current path, cond holds.  cond may be bool or z3 Bool."""
        ob = self.obligation(name)
        ob.paths += 1
        self._charge_aux(ob)
        if is_z3(cond):
            cond = concretize(cond)
        if cond is True:
            ob.merge('discharged')
            return True
        if cond is False:
            gave_up, model = self._take_refutation()
            if gave_up:
                ob.merge('undecided', gave_up)
                return False
            if model is not None:
                ob.merge('failed', detail or 'counterexample', model)
                return False
        t0 = time.time()
        neg = z3.BoolVal(True) if cond is False else z3.Not(cond)
        s = z3.Solver()
        s.set('timeout', self.timeout_ms)
        s.add(*self.pc)
        s.add(neg)
        r = s.check()
        ob.queries += 1
        status = None
        if r == z3.unsat:
            status = 'discharged'
        elif r == z3.sat:
            m = s.model()
            ob.merge('failed', detail or 'counterexample', self.model_inputs(m))
            status = 'failed'
        else:
            r2 = self.cvc5_check(s) if self.use_cvc5 else 'unknown'
            if r2 == 'unsat':
                ob.backend = 'z3+cvc5'
                status = 'discharged'
            else:
                ob.merge('undecided', 'solver: z3 %s / cvc5 %s' % (s.reason_unknown(), r2))
                status = 'undecided'
        if status == 'discharged':
            ob.merge('discharged')
        dt = time.time() - t0
        ob.seconds += dt
        self.solver_seconds += dt
        return status == 'discharged'

    def undecided(self, name, why):
        ob = self.obligation(name)
        ob.paths += 1
        ob.merge('undecided', why)

    def fail(self, name, why, model=None):
        ob = self.obligation(name)
        ob.paths += 1
        self._charge_aux(ob)
        gave_up, refutation = self._take_refutation()
        if gave_up:
            ob.merge('undecided', '%s: %s' % (gave_up, why))
            return
        if model is None:
            model = refutation          # the solver's counterexample of the clause the contract code refuted
        if model is None:
            # the clause fails on this path only if some input reaches the path: an infeasible path proves nothing wrong,
            # and a path condition the solver cannot decide (time limit under load) leaves the obligation undecided
            s = z3.Solver(); s.set('timeout', self.timeout_ms); s.add(*self.pc)
            t0 = time.time()
            r = s.check()
            self.solver_seconds += time.time() - t0
            if r == z3.sat:
                model = self.model_inputs(s.model())
            elif r == z3.unsat:
                ob.merge('discharged')
                return
            else:
                ob.merge('undecided', 'path condition not decided by the solver (%s): %s' % (s.reason_unknown(), why))
                return
        ob.merge('failed', why, model)

    def cvc5_check(self, solver):
        try:
            smt = '(set-logic ALL)\n' + solver.to_smt2()
            with tempfile.NamedTemporaryFile('w', suffix='.smt2', delete=False, dir='/var/tmp') as f:
                f.write(smt)
                fn = f.name
            try:
                p = subprocess.run(['/usr/bin/cvc5', '--tlimit=%d' % (3 * self.timeout_ms), fn],
                                   capture_output=True, text=True, timeout=3 * self.timeout_ms / 1000.0 + 5)
                out = p.stdout.strip().split('\n')[0] if p.stdout.strip() else 'unknown'
            finally:
                os.remove(fn)
            return out if out in ('sat', 'unsat') else 'unknown'
        except Exception as e:
            return 'unknown'

    def model_inputs(self, m):
        out = {}
        for name, v in self.inputs.items():
            out[name] = self.model_value(m, v)
        return out

    def model_value(self, m, v):
        if is_z3(v):
            e = m.eval(v, model_completion=True)
            if z3.is_int_value(e):
                return e.as_long()
            if z3.is_rational_value(e):
                return {'num': str(e.numerator_as_long()), 'den': str(e.denominator_as_long())}
            if z3.is_true(e):
                return True
            if z3.is_false(e):
                return False
            if z3.is_algebraic_value(e):
                a = e.approx(20)
                return {'num': str(a.numerator_as_long()), 'den': str(a.denominator_as_long()), 'approx': True}
            return str(e)
        if isinstance(v, SymStr):
            n = self.model_value(m, v.n) if is_z3(v.n) else v.n
            cs = []
            for k in range(min(n, v.cap)):
                c = self.model_value(m, v.chars[k]) if is_z3(v.chars[k]) else v.chars[k]
                cs.append(chr(c) if isinstance(c, int) and 0 <= c < 0x110000 else '?')
            return ''.join(cs)
        if isinstance(v, (list, tuple)):
            return [self.model_value(m, e) for e in v]
        if isinstance(v, NVec):
            return [self.model_value(m, e) for e in v.items]
        if isinstance(v, Obj):
            return dict((k, self.model_value(m, e)) for k, e in v.fields.items())
        if isinstance(v, Fraction):
            return {'num': str(v.numerator), 'den': str(v.denominator)}
        if isinstance(v, dict):
            return dict((str(k), self.model_value(m, e)) for k, e in v.items())
        if v is None or isinstance(v, (int, str, bool)):
            return v
        return repr(v)

    # -- symbolic inputs ----------------------------------------------------------------

    def sym_int(self, name, lo=None, hi=None):
        x = z3.Int(name)
        self.inputs[name] = x
        if lo is not None:
            self.assume(x >= lo)
        if hi is not None:
            self.assume(x <= hi)
        return x

    def sym_real(self, name, lo=None, hi=None):
        x = z3.Real(name)
        self.inputs[name] = x
        if lo is not None:
            self.assume(x >= to_real(lo))
        if hi is not None:
            self.assume(x <= to_real(hi))
        return x

    def sym_bool(self, name):
        x = z3.Bool(name)
        self.inputs[name] = x
        return x

    def sym_str(self, name, length=None, maxlen=None, alphabet=None, lo=32, hi=126):
        """String of exactly `length` symbolic characters, or of symbolic length <= maxlen."""
        cap = length if length is not None else maxlen
        chars = [z3.Int('%s[%d]' % (name, k)) for k in range(cap)]
        if length is not None:
            s = SymStr(chars)
        else:
            n = z3.Int('%s.len' % name)
            self.assume(z3.And(n >= 0, n <= cap))
            s = SymStr(chars, n)
        for c in chars:
            if alphabet is not None:
                self.assume(V.char_in(c, alphabet))
            else:
                self.assume(z3.And(c >= lo, c <= hi))
        self.inputs[name] = s
        return s

    def eval_str(self, expr, env, module=None):
        """Evaluate a Python expression string with the executor (contracts are written as
        Python expressions and share the code's semantics)."""
        node = ast.parse(expr, mode='eval').body
        mod = self.load_module(module) if module else ModuleVal('<contract>')
        frame = Frame(mod, dict(env))
        return self.eval(node, frame)

    # -- statements ---------------------------------------------------------------------

    def exec_block(self, stmts, frame):
        for s in stmts:
            self.exec_stmt(s, frame)

    def exec_stmt(self, node, frame):
        m = getattr(self, 'stmt_' + type(node).__name__, None)
        if m is None:
            raise Unsupported('statement %s (line %d)' % (type(node).__name__, getattr(node, 'lineno', 0)))
        return m(node, frame)

    def stmt_Expr(self, node, frame):
        if isinstance(node.value, ast.Constant):
            return
        if isinstance(node.value, ast.Call) and isinstance(node.value.func, ast.Name) and \
           node.value.func.id == 'print':
            return
        self.eval(node.value, frame)

    def stmt_Pass(self, node, frame):
        pass

    def stmt_Global(self, node, frame):
        pass

    def stmt_Import(self, node, frame):
        self.exec_import(node, frame)

    def stmt_ImportFrom(self, node, frame):
        self.exec_import(node, frame)

    def stmt_FunctionDef(self, node, frame):
        q = (frame.func.qualname + '.' + node.name) if frame.func else node.name
        frame.locals[node.name] = FuncVal(node, frame.module, frame if frame.func else None, q)

    def stmt_ClassDef(self, node, frame):
        bases = []
        for b in node.bases:
            try:
                bases.append(self.eval(b, frame))
            except (Unsupported, PyExc, KeyError):
                bases.append(None)
        if any(isinstance(b, ExcClass) for b in bases):
            parent = [b for b in bases if isinstance(b, ExcClass)][0]
            V.EXC_PARENT[node.name] = parent.name
            frame.locals[node.name] = ExcClass(node.name)
            return
        attrs = {}
        cls = ClassVal(node.name, frame.module, bases, attrs)
        cframe = Frame(frame.module, attrs, frame)
        cframe.func = None
        for s in node.body:
            if isinstance(s, ast.FunctionDef):
                attrs[s.name] = FuncVal(s, frame.module, None, node.name + '.' + s.name, cls)
            elif isinstance(s, ast.Expr) and isinstance(s.value, ast.Constant):
                pass
            else:
                try:
                    self.exec_stmt(s, cframe)
                except (Unsupported, PyExc, KeyError):
                    for n in self._assigned_names(s):
                        attrs[n] = _Poison(n, 'class attribute')
        frame.locals[node.name] = cls

    def stmt_Return(self, node, frame):
        raise ReturnSignal(self.eval(node.value, frame) if node.value is not None else None)

    def stmt_Break(self, node, frame):
        raise BreakSignal()

    def stmt_Continue(self, node, frame):
        raise ContinueSignal()

    def stmt_Assign(self, node, frame):
        v = self.eval(node.value, frame)
        for t in node.targets:
            self.assign(t, v, frame)

    def stmt_AugAssign(self, node, frame):
        cur = self.eval(_load(node.target), frame)
        v = self.eval(node.value, frame)
        if isinstance(node.op, ast.Add) and isinstance(cur, list):
            if not isinstance(v, (list, tuple)):
                v = self.iterate(v)
            cur.extend(v)       # in place, as Python does
            return
        self.assign(node.target, self.binop(node.op, cur, v), frame)

    def assign(self, target, v, frame):
        if isinstance(target, ast.Name):
            frame.locals[target.id] = v
        elif isinstance(target, (ast.Tuple, ast.List)):
            items = self.iterate(v)
            if len(items) != len(target.elts):
                raise PyExc('ValueError', 'unpack: expected %d values, got %d' % (len(target.elts), len(items)))
            for t, x in zip(target.elts, items):
                self.assign(t, x, frame)
        elif isinstance(target, ast.Attribute):
            obj = self.eval(target.value, frame)
            self.setattr(obj, target.attr, v)
        elif isinstance(target, ast.Subscript):
            obj = self.eval(target.value, frame)
            if isinstance(target.slice, ast.Slice):
                lo = self.eval(target.slice.lower, frame) if target.slice.lower else None
                hi = self.eval(target.slice.upper, frame) if target.slice.upper else None
                if isinstance(obj, list) and (lo is None or isinstance(lo, int)) and (hi is None or isinstance(hi, int)):
                    obj[lo:hi] = self.iterate(v)
                    return
                raise Unsupported('slice assignment')
            idx = self.eval(target.slice, frame)
            self.setitem(obj, idx, v)
        else:
            raise Unsupported('assignment target %s' % type(target).__name__)

    def stmt_Delete(self, node, frame):
        for t in node.targets:
            if isinstance(t, ast.Subscript):
                obj = self.eval(t.value, frame)
                idx = self.eval(t.slice, frame) if not isinstance(t.slice, ast.Slice) else None
                if isinstance(obj, dict):
                    k = self.hashable(idx)
                    if k not in obj:
                        raise PyExc('KeyError', repr(k))
                    del obj[k]
                elif isinstance(obj, list) and isinstance(idx, int):
                    if not (-len(obj) <= idx < len(obj)):
                        raise PyExc('IndexError', 'list assignment index out of range')
                    del obj[idx]
                elif isinstance(obj, list) and isinstance(t.slice, ast.Slice) and \
                        t.slice.lower is None and t.slice.upper is None:
                    del obj[:]
                else:
                    raise Unsupported('del on %r' % type(obj))
            elif isinstance(t, ast.Name):
                frame.locals.pop(t.id, None)
            else:
                raise Unsupported('del target')

    def stmt_If(self, node, frame):
        if self.truth(self.eval(node.test, frame)):
            self.exec_block(node.body, frame)
        else:
            self.exec_block(node.orelse, frame)

    def stmt_While(self, node, frame):
        key = (frame.func.qualname if frame.func else '', node.lineno)
        limit = 400
        n = 0
        while True:
            if not self.truth(self.eval(node.test, frame)):
                self.exec_block(node.orelse, frame)
                return
            n += 1
            if n > limit:
                raise Unsupported('while loop exceeded %d iterations (needs an invariant)' % limit)
            try:
                self.exec_block(node.body, frame)
            except BreakSignal:
                return
            except ContinueSignal:
                continue

    def stmt_For(self, node, frame):
        fname = frame.func.qualname if frame.func else ''
        summary = self.loop_summaries.get((fname, self._loop_ordinal(frame, node)))
        items = self.iterate(self.eval(node.iter, frame))
        for it in items:
            self.assign(node.target, it, frame)
            if summary is not None:
                summary(self, frame)
                continue
            try:
                self.exec_block(node.body, frame)
            except BreakSignal:
                return
            except ContinueSignal:
                continue
        self.exec_block(node.orelse, frame)

    def _loop_ordinal(self, frame, node):
        if frame.func is None:
            return 0
        k = 0
        for n in ast.walk(frame.func.node):
            if isinstance(n, (ast.For, ast.While)):
                k += 1
                if n is node:
                    return k
        return 0

    def stmt_Try(self, node, frame):
        try:
            try:
                self.exec_block(node.body, frame)
            except PyExc as e:
                for h in node.handlers:
                    if self.handler_matches(h, e, frame):
                        if h.name:
                            frame.locals[h.name] = e
                        self.exec_block(h.body, frame)
                        break
                else:
                    raise
            else:
                self.exec_block(node.orelse, frame)
        finally:
            if node.finalbody:
                self.exec_block(node.finalbody, frame)

    def handler_matches(self, h, e, frame):
        if h.type is None:
            return True
        t = self.eval(h.type, frame)
        ts = t if isinstance(t, tuple) else (t,)
        for x in ts:
            if isinstance(x, ExcClass) and exc_isa(e.cls, x.name):
                return True
        return False

    def stmt_Raise(self, node, frame):
        if node.exc is None:
            raise Unsupported('bare raise')
        v = self.eval(node.exc, frame)
        if isinstance(v, ExcClass):
            raise PyExc(v.name)
        if isinstance(v, PyExc):
            raise v
        raise Unsupported('raise %r' % (v,))

    def stmt_Assert(self, node, frame):
        if not self.truth(self.eval(node.test, frame)):
            raise PyExc('AssertionError')

    # -- expressions --------------------------------------------------------------------

    def eval(self, node, frame):
        m = getattr(self, 'expr_' + type(node).__name__, None)
        if m is None:
            raise Unsupported('expression %s (line %d)' % (type(node).__name__, getattr(node, 'lineno', 0)))
        return m(node, frame)

    def expr_Constant(self, node, frame):
        v = node.value
        if isinstance(v, float):
            # A1: a float literal denotes the decimal number written in the source
            if v != v:
                return NAN
            if v in (float('inf'), float('-inf')):
                return V.Inf(1 if v > 0 else -1)
            return Fraction(repr(v))
        if isinstance(v, bytes):
            raise Unsupported('bytes literal')
        return v

    def expr_Name(self, node, frame):
        try:
            v = frame.lookup(node.id)
        except KeyError:
            try:
                v = frame.module.globals[node.id]
            except KeyError:
                from . import library
                if node.id in library.BUILTINS:
                    v = library.BUILTINS[node.id]
                else:
                    raise PyExc('NameError', node.id)
        if isinstance(v, _Poison):
            raise Unsupported('name %s unavailable: %s' % (v.name, v.why))
        return v

    def expr_Tuple(self, node, frame):
        return tuple(self.eval_elts(node.elts, frame))

    def expr_List(self, node, frame):
        return list(self.eval_elts(node.elts, frame))

    def expr_Set(self, node, frame):
        return set(self.hashable(x) for x in self.eval_elts(node.elts, frame))

    def eval_elts(self, elts, frame):
        out = []
        for e in elts:
            if isinstance(e, ast.Starred):
                out.extend(self.iterate(self.eval(e.value, frame)))
            else:
                out.append(self.eval(e, frame))
        return out

    def expr_Dict(self, node, frame):
        d = {}
        for k, v in zip(node.keys, node.values):
            if k is None:
                d.update(self.eval(v, frame))
            else:
                d[self.hashable(self.eval(k, frame))] = self.eval(v, frame)
        return d

    def expr_Lambda(self, node, frame):
        return LambdaVal(node, frame.module, frame)

    def expr_IfExp(self, node, frame):
        if self.truth(self.eval(node.test, frame)):
            return self.eval(node.body, frame)
        return self.eval(node.orelse, frame)

    def expr_BoolOp(self, node, frame):
        # Python semantics: returns the deciding operand
        last = None
        for i, e in enumerate(node.values):
            last = self.eval(e, frame)
            if i == len(node.values) - 1:
                return last
            t = self.truth(last)
            if isinstance(node.op, ast.And) and not t:
                return last if not is_z3(last) else False
            if isinstance(node.op, ast.Or) and t:
                return last if not is_z3(last) else True
        return last

    def expr_UnaryOp(self, node, frame):
        v = self.eval(node.operand, frame)
        if isinstance(node.op, ast.Not):
            if is_z3(v) and z3.is_bool(v):
                return z_not(v)
            return not self.truth(v)
        if isinstance(node.op, ast.USub):
            if isinstance(v, NVec):
                return NVec([self.binop(ast.Sub(), 0, x) for x in v.items])
            if is_num(v) or isinstance(v, bool):
                return concretize(-v) if is_z3(v) else -v
            if isinstance(v, V.Inf):
                return V.Inf(-v.sign)
            if v is None:
                raise PyExc('TypeError', 'bad operand type for unary -: NoneType')
            raise Unsupported('unary - on %r' % type(v))
        if isinstance(node.op, ast.UAdd):
            return v
        raise Unsupported('unary op')

    def expr_BinOp(self, node, frame):
        a = self.eval(node.left, frame)
        b = self.eval(node.right, frame)
        return self.binop(node.op, a, b)

    def expr_Compare(self, node, frame):
        left = self.eval(node.left, frame)
        result = True
        for op, comp in zip(node.ops, node.comparators):
            right = self.eval(comp, frame)
            c = self.compare(op, left, right)
            if len(node.ops) == 1:
                return c
            # chained: short circuit
            if not self.truth(c):
                return False
            left = right
        return True

    def expr_Attribute(self, node, frame):
        obj = self.eval(node.value, frame)
        return self.getattr(obj, node.attr)

    def expr_Subscript(self, node, frame):
        obj = self.eval(node.value, frame)
        if isinstance(node.slice, ast.Slice):
            lo = self.eval(node.slice.lower, frame) if node.slice.lower else None
            hi = self.eval(node.slice.upper, frame) if node.slice.upper else None
            st = self.eval(node.slice.step, frame) if node.slice.step else None
            return self.getslice(obj, lo, hi, st)
        idx = self.eval(node.slice, frame)
        return self.getitem(obj, idx)

    def expr_Slice(self, node, frame):
        lo = self.eval(node.lower, frame) if node.lower else None
        hi = self.eval(node.upper, frame) if node.upper else None
        st = self.eval(node.step, frame) if node.step else None
        for b in (lo, hi, st):
            if b is not None and not isinstance(b, int):
                raise Unsupported('symbolic slice bound')
        return slice(lo, hi, st)

    def expr_ListComp(self, node, frame):
        out = []
        self._comp(node.generators, 0, frame, lambda f: out.append(self.eval(node.elt, f)))
        return out

    def expr_GeneratorExp(self, node, frame):
        return self.expr_ListComp(node, frame)

    def expr_SetComp(self, node, frame):
        out = set()
        self._comp(node.generators, 0, frame, lambda f: out.add(self.hashable(self.eval(node.elt, f))))
        return out

    def expr_DictComp(self, node, frame):
        out = {}
        def add(f):
            out[self.hashable(self.eval(node.key, f))] = self.eval(node.value, f)
        self._comp(node.generators, 0, frame, add)
        return out

    def _comp(self, gens, i, frame, emit):
        if i == len(gens):
            emit(frame)
            return
        g = gens[i]
        f = Frame(frame.module, {}, frame, frame.func) if i == 0 else frame
        if i == 0:
            # the comprehension scope sees the enclosing one
            f.closure = frame
        for it in self.iterate(self.eval(g.iter, frame if i == 0 else f)):
            self.assign(g.target, it, f)
            if all(self.truth(self.eval(c, f)) for c in g.ifs):
                self._comp(gens, i + 1, f, emit)

    def expr_JoinedStr(self, node, frame):
        raise Unsupported('f-string')

    def expr_Call(self, node, frame):
        fn = self.eval(node.func, frame)
        args = self.eval_elts(node.args, frame)
        kwargs = {}
        for kw in node.keywords:
            if kw.arg is None:
                kwargs.update(self.eval(kw.value, frame))
            else:
                kwargs[kw.arg] = self.eval(kw.value, frame)
        return self.call(fn, args, kwargs)

    # -- calls --------------------------------------------------------------------------

    def call(self, fn, args, kwargs=None):
        kwargs = kwargs or {}
        if isinstance(fn, Builtin):
            return fn.fn(self, *args, **kwargs)
        if isinstance(fn, BoundMethod):
            return self.call(fn.func, [fn.obj] + list(args), kwargs)
        if isinstance(fn, PartialVal):
            kw = dict(fn.kwargs); kw.update(kwargs)
            return self.call(fn.func, args, kw)
        if isinstance(fn, LambdaVal):
            f = Frame(fn.module, {}, fn.closure, fn.closure.func if fn.closure else None)
            self.bind_args(fn.node.args, args, kwargs, f, fn.closure)
            return self.eval(fn.node.body, f)
        if isinstance(fn, FuncVal):
            if fn.qualname in self.opaque:
                return self.opaque[fn.qualname](self, args, kwargs)
            self.call_depth += 1
            if self.call_depth > 60:
                raise Unsupported('recursion depth (needs a contract)')
            try:
                f = Frame(fn.module, {}, fn.closure, fn)
                self.bind_args(fn.node.args, args, kwargs, f, fn.closure or Frame(fn.module, fn.module.globals))
                try:
                    self.exec_block(fn.node.body, f)
                except ReturnSignal as r:
                    return r.value
                return None
            finally:
                self.call_depth -= 1
        if isinstance(fn, ClassVal):
            if fn.name in self.opaque:
                return self.opaque[fn.name](self, args, kwargs)
            obj = Obj(fn)
            init = fn.lookup('__init__')
            if init is not None:
                self.call(init, [obj] + list(args), kwargs)
            return obj
        if isinstance(fn, ExcClass):
            return PyExc(fn.name, args[0] if args else '')
        if isinstance(fn, Obj) and fn.cls is not None and fn.cls.lookup('__call__') is not None:
            return self.call(fn.cls.lookup('__call__'), [fn] + list(args), kwargs)
        raise Unsupported('call of %r' % (fn,))

    def bind_args(self, a, args, kwargs, frame, defaults_frame):
        params = [p.arg for p in a.posonlyargs + a.args]
        ndef = len(a.defaults)
        defaults = {}
        for p, d in zip(params[len(params) - ndef:], a.defaults):
            defaults[p] = d
        for p, d in zip(a.kwonlyargs, a.kw_defaults):
            params.append(p.arg)
            if d is not None:
                defaults[p.arg] = d
        args = list(args)
        if len(args) > len(params) and not a.vararg:
            raise PyExc('TypeError', 'too many positional arguments')
        for p, v in zip(params, args):
            frame.locals[p] = v
        if a.vararg:
            frame.locals[a.vararg.arg] = tuple(args[len(params):])
        extra = {}
        for k, v in kwargs.items():
            if k in params:
                if k in frame.locals and params.index(k) < len(args):
                    raise PyExc('TypeError', 'multiple values for argument %s' % k)
                frame.locals[k] = v
            elif a.kwarg:
                extra[k] = v
            else:
                raise PyExc('TypeError', 'unexpected keyword argument %s' % k)
        if a.kwarg:
            frame.locals[a.kwarg.arg] = extra
        for p in params:
            if p not in frame.locals:
                if p in defaults:
                    frame.locals[p] = self.eval(defaults[p], defaults_frame)
                else:
                    raise PyExc('TypeError', 'missing argument %s' % p)

    # -- attribute / item access --------------------------------------------------------

    def getattr(self, obj, name):
        from . import library
        if isinstance(obj, Obj):
            if obj.cls is not None:
                c = obj.cls.lookup(name)
                if isinstance(c, PropertyVal):
                    return self.call(c.fget, [obj])
            if name in obj.fields:
                return obj.fields[name]
            if name == '__dict__':
                return obj.fields
            if obj.cls is not None:
                c = obj.cls.lookup(name)
                if isinstance(c, (FuncVal, Builtin)):
                    return BoundMethod(c, obj)
                if c is not None:
                    return c
            raise PyExc('AttributeError', name)
        if isinstance(obj, ModuleVal):
            if name in obj.globals:
                v = obj.globals[name]
                if isinstance(v, _Poison):
                    raise Unsupported('name %s unavailable: %s' % (v.name, v.why))
                if isinstance(v, library.PiVal):
                    return library.pi_term(self)
                return v
            raise Unsupported('module attribute %s.%s' % (obj.name, name))
        if isinstance(obj, ClassVal):
            c = obj.lookup(name)
            if c is None:
                raise PyExc('AttributeError', name)
            return c
        m = library.method(obj, name)
        if m is not None:
            return m
        if obj is None:
            raise PyExc('AttributeError', "'NoneType' object has no attribute '%s'" % name)
        raise Unsupported('attribute %s of %s' % (name, type(obj).__name__))

    def setattr(self, obj, name, v):
        if isinstance(obj, Obj):
            if obj.cls is not None:
                c = obj.cls.lookup(name)
                if isinstance(c, PropertyVal):
                    if c.fset is None:
                        raise PyExc('AttributeError', "can't set attribute " + name)
                    self.call(c.fset, [obj, v])
                    return
            obj.fields[name] = v
            return
        raise Unsupported('setattr on %r' % type(obj))

    def hashable(self, k):
        k = norm_str(k) if isinstance(k, SymStr) else k
        if isinstance(k, list):
            raise PyExc('TypeError', 'unhashable type: list')
        if isinstance(k, tuple):
            return tuple(self.hashable(x) for x in k)
        if is_z3(k) or isinstance(k, (SymStr, AbsStr)):
            c = concretize(k) if is_z3(k) else k
            if is_z3(c) or isinstance(c, (SymStr, AbsStr)):
                raise Unsupported('symbolic dictionary key')
            return c
        return k

    def index_value(self, idx, n, what='list'):
        """Normalise an index against length n with a bounds obligation."""
        if isinstance(idx, bool):
            idx = int(idx)
        if isinstance(idx, int) and isinstance(n, int):
            if not (-n <= idx < n):
                raise PyExc('IndexError', '%s index out of range' % what)
            return idx + n if idx < 0 else idx
        if not (is_int_like(idx)):
            raise PyExc('TypeError', '%s indices must be integers' % what)
        ok = z3.And(to_int(idx) >= -to_int(n), to_int(idx) < to_int(n))
        if not self.branch(ok):
            raise PyExc('IndexError', '%s index out of range' % what)
        if isinstance(idx, int):
            return idx if idx >= 0 else concretize(idx + to_int(n))
        neg = self.branch(idx < 0)
        return concretize(idx + to_int(n)) if neg else idx

    def getitem(self, obj, idx):
        if isinstance(obj, (list, tuple)):
            i = self.index_value(idx, len(obj))
            if isinstance(i, int):
                return obj[i]
            # symbolic index into a concrete-length sequence: split on the value
            for k in range(len(obj)):
                if self.branch(i == k):
                    return obj[k]
            raise PathAbort()
        if isinstance(obj, dict):
            if is_symbolic(idx):
                from . import library
                for k in list(obj):
                    if self.truth(library.equals(self, k, idx)):
                        return obj[k]
                raise PyExc('KeyError', 'symbolic key')
            k = self.hashable(idx)
            if k not in obj:
                raise PyExc('KeyError', repr(k))
            return obj[k]
        if isinstance(obj, str):
            obj_s = SymStr.of(obj)
            i = self.index_value(idx, len(obj), 'string')
            if isinstance(i, int):
                return obj[i]
            return SymStr([V.char_at(obj_s, i)])
        if isinstance(obj, SymStr):
            i = self.index_value(idx, obj.n, 'string')
            return norm_str(SymStr([V.char_at(obj, i)]))
        if isinstance(obj, NVec) and isinstance(idx, tuple) and len(idx) == 2:
            r, c = idx
            rows = obj.items[r] if isinstance(r, slice) else [obj.items[self.index_value(r, len(obj.items), 'array')]]
            out = []
            for row in rows:
                if not isinstance(row, NVec):
                    raise PyExc('IndexError', 'too many indices for array')
                out.append(NVec(row.items[c]) if isinstance(c, slice) else row.items[self.index_value(c, len(row.items), 'array')])
            if isinstance(r, slice):
                return NVec(out)
            return out[0]
        if isinstance(obj, NVec):
            i = self.index_value(idx, len(obj.items), 'array')
            if isinstance(i, int):
                return obj.items[i]
            for k in range(len(obj.items)):
                if self.branch(i == k):
                    return obj.items[k]
            raise PathAbort()
        if obj is None:
            raise PyExc('TypeError', "'NoneType' object is not subscriptable")
        if isinstance(obj, Obj) and obj.cls is not None:
            gi = obj.cls.lookup('__getitem__')
            if gi is not None:
                return self.call(gi, [obj, idx])
        raise Unsupported('subscript of %s' % type(obj).__name__)

    def setitem(self, obj, idx, v):
        if isinstance(obj, list):
            i = self.index_value(idx, len(obj))
            if not isinstance(i, int):
                raise Unsupported('symbolic index store')
            obj[i] = v
        elif isinstance(obj, dict):
            obj[self.hashable(idx)] = v
        elif isinstance(obj, NVec) and isinstance(idx, tuple) and len(idx) == 2:
            r, c = idx
            if isinstance(r, int) and isinstance(c, int) and isinstance(obj.items[self.index_value(r, len(obj.items), 'array')], NVec):
                row = obj.items[self.index_value(r, len(obj.items), 'array')]
                row.items[self.index_value(c, len(row.items), 'array')] = v        # a[i, j] = value
                return
            if isinstance(r, slice) or not isinstance(c, slice):
                raise Unsupported('2-D store other than a[i, :] = row')
            i = self.index_value(r, len(obj.items), 'array')
            if not isinstance(i, int):
                raise Unsupported('symbolic index store')
            vals = self.iterate(v)
            row = obj.items[i]
            n = len(row.items[c])
            if len(vals) != n:
                raise PyExc('ValueError', 'could not broadcast input array from shape (%d,) into shape (%d,)' % (len(vals), n))
            row.items[c] = vals
        elif isinstance(obj, NVec):
            i = self.index_value(idx, len(obj.items), 'array')
            if not isinstance(i, int):
                raise Unsupported('symbolic index store')
            obj.items[i] = v
        elif isinstance(obj, Obj) and obj.cls is not None and obj.cls.lookup('__setitem__') is not None:
            self.call(obj.cls.lookup('__setitem__'), [obj, idx, v])
        else:
            raise Unsupported('item assignment on %s' % type(obj).__name__)

    def getslice(self, obj, lo, hi, step):
        if step is not None and step != 1:
            if step == -1 and lo is None and hi is None:
                if isinstance(obj, (list, tuple, str)):
                    return obj[::-1]
                if isinstance(obj, SymStr) and obj.fixed:
                    return SymStr(obj.chars[::-1])
                if isinstance(obj, NVec):
                    return NVec(obj.items[::-1])
            raise Unsupported('slice step')
        for b in (lo, hi):
            if b is not None and not isinstance(b, int):
                raise Unsupported('symbolic slice bound')
        if isinstance(obj, (list, tuple, str)):
            return obj[lo:hi]
        if isinstance(obj, NVec):
            return NVec(obj.items[lo:hi])
        if isinstance(obj, SymStr):
            if obj.fixed:
                return norm_str(SymStr(obj.chars[lo:hi]))
            return V.str_slice(obj, lo or 0, hi)
        if isinstance(obj, AbsStr):
            if (lo is None or lo == 0) and isinstance(hi, int):
                # leftmost hi characters of an uninterpreted string: uninterpreted, length min(n, hi)
                return AbsStr(concretize(z3.If(obj.n < hi, obj.n, hi)), obj.fmt, obj.val, 'prefix:' + obj.kind)
            raise Unsupported('slice of formatted number')
        if obj is None:
            raise PyExc('TypeError', "'NoneType' object is not subscriptable")
        if isinstance(obj, Obj) and '__getslice__' in obj.fields:      # a modelled object that answers slices (record tape lines)
            return self.call(obj.fields['__getslice__'], [lo, hi])
        raise Unsupported('slice of %s' % type(obj).__name__)

    def iterate(self, v):
        """Concrete-length iteration."""
        if isinstance(v, (list, tuple)):
            return list(v)
        if isinstance(v, range):
            return list(v)
        if isinstance(v, str):
            return list(v)
        if isinstance(v, SymStr):
            if v.fixed:
                return [norm_str(SymStr([c])) for c in v.chars]
            raise Unsupported('iteration over a string of symbolic length')
        if isinstance(v, dict):
            return list(v.keys())
        if isinstance(v, (set, frozenset)):
            try:
                return sorted(v)
            except TypeError:
                # CPython iterates a set of objects in address order, which differs from run to run; the executor must
                # take the same decisions when it re-executes a path, so it iterates in creation order
                return sorted(v, key=_order_key)
        if isinstance(v, NVec):
            return list(v.items)
        if v is None:
            raise PyExc('TypeError', "'NoneType' object is not iterable")
        raise Unsupported('iteration over %s' % type(v).__name__)

    # -- operators ----------------------------------------------------------------------

    def binop(self, op, a, b):
        from . import library
        return library.binop(self, op, a, b)

    def compare(self, op, a, b):
        from . import library
        return library.compare(self, op, a, b)


class _Poison(object):
    def __init__(self, name, why): self.name, self.why = name, why


def _load(target):
    import copy
    t = copy.copy(target)
    t.ctx = ast.Load()
    return t
