NOT_APPLICABLE = {}
claim('C17', 'other',
      'Deductive core: fix/unfix lemmas for all 95^5 printable names, block_name inversion under each convention, and length/injectivity/NamingConventionError contracts of the name generators for all numbers 1..20000 are discharged by z3 from the real source on every run; "every constructed geometry" is decided by a bounded run-time check of the same contracts on constructors crossing each capacity limit.',
      'Trusted: pyvc semantics of the Python subset (A1-A3 in DESIGN 2.1), z3/cvc5. Bounded part: constructor enumeration, not proved.',
      'ast->z3 VCs on real functions (char-vector strings) + native counterexample replay + bounded run-time contracts', 'DESIGN.md 3/C17')
