NOT_APPLICABLE = {}
claim('C17', 'other',
      'Deductive core: fix/unfix lemmas for all 95^5 printable names, block_name inversion under each convention, and length/injectivity/NamingConventionError contracts of the name generators for all numbers 1..20000 are discharged by z3 from the real source on every run; "every constructed geometry" is decided by a bounded run-time check of the same contracts on constructors crossing each capacity limit.',
      'Trusted: pyvc semantics of the Python subset (A1-A3 in DESIGN 2.1), z3/cvc5. Bounded part: constructor enumeration, not proved.',
      'ast->z3 VCs on real functions (char-vector strings) + native counterexample replay + bounded run-time contracts', 'DESIGN.md 3/C17')
claim('C16', 'other',
      'Deductive: on the real source of fortran_float/fortran_int, for every printable string of length <= 20: no exception escapes, blank field <=> blank value, Python-accepted text gives Python\'s result (z3, character vectors). Fortran meaning (D/E letters, dropped letter, blanks ignored) against an independent specification automaton and garbage => nan/None: proved for all strings up to length 6 (quick) / 8 (thorough). Widths up to 20 for those two clauses are decided by a bounded rendering lattice.',
      'Trusted: A2 (ASCII), A3 (CPython float() correctly rounded), pyvc float/int acceptance DFAs (differentially tested), z3/cvc5. One known finding (underscore class).',
      'ast->z3 VCs on real functions (symbolic-length char vectors, DFA-unrolled float grammar) + native replay + bounded lattice', 'DESIGN.md 3/C16')
