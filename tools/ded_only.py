#!/usr/bin/env python3
"""Deductive programs only (no bounded harness, no replay) against a patch applied in a scratch worktree:
which obligations stop verifying.   usage: python3-vt tools/ded_only.py <contracts module, e.g. c01> <patch.diff | -> [program-name filter]"""
import sys, os, subprocess, tempfile, shutil, time, importlib
sys.path.insert(0, '/verif')
def main(mod, patch, flt=None):
    wt = None
    if patch != '-':
        wt = tempfile.mkdtemp(prefix='pytough-ded-', dir='/var/tmp'); os.rmdir(wt)
        subprocess.run('git -C /repo worktree add -q --detach %s HEAD' % wt, shell=True, check=True)
        p = subprocess.run('git apply %s' % os.path.abspath(patch), shell=True, cwd=wt, capture_output=True, text=True)
        if p.returncode:
            print('PATCH DOES NOT APPLY', p.stderr[-300:]); subprocess.run('git -C /repo worktree remove --force %s' % wt, shell=True); return
        os.environ['PYTOUGH_REPO'] = wt
    try:
        from vlib.check import run_programs
        m = importlib.import_module('contracts.' + mod)
        progs = m.programs(os.environ.get('VERIF_TIER', 'quick')) if hasattr(m, 'programs') else m.PROGRAMS
        if flt: progs = [p for p in progs if flt in repr(p)]
        t0 = time.time()
        res = run_programs('contracts.' + mod, progs, repo=os.environ.get('PYTOUGH_REPO', '/repo'), timeout_ms=30000 if os.environ.get('VERIF_TIER', 'quick') == 'quick' else 120000)
        n = bad = 0
        for r in res:
            if r['error']: print('ERR', r['program'], r['arg'], r['error'][-400:])
            for ob in r['obligations']:
                n += 1
                if ob['status'] != 'discharged':
                    bad += 1; print('  ', ob['status'], ob['name'][:110], '|', ob['detail'][:260])
        print('obligations', n, 'not discharged', bad, '%.1fs' % (time.time() - t0))
    finally:
        if wt:
            subprocess.run('git -C /repo worktree remove --force %s' % wt, shell=True); shutil.rmtree(wt, ignore_errors=True)
if __name__ == '__main__': main(*sys.argv[1:])
