#!/usr/bin/env python3
"""Run checks against seeded changes, each in a scratch worktree (outside /repo and /verif).
usage: try_seed.py [--tier quick] [--checks C01,C02] <seed-id>...   (default: the seed's own property)
Writes seeded/<id>/detect.json."""
import sys, os, json, subprocess, tempfile, shutil, time
VERIF = '/verif'
def sh(cmd, **kw):
    p = subprocess.run(cmd, shell=True, capture_output=True, text=True, **kw)
    return p.returncode, p.stdout + p.stderr
def main(argv):
    tier = 'quick'; checks = None; ids = []
    i = 0
    while i < len(argv):
        if argv[i] == '--tier': tier = argv[i+1]; i += 2
        elif argv[i] == '--checks': checks = argv[i+1].split(','); i += 2
        else: ids.append(argv[i]); i += 1
    if not ids: ids = sorted(os.listdir(os.path.join(VERIF, 'seeded')))
    for sid in ids:
        d = os.path.join(VERIF, 'seeded', sid)
        wt = tempfile.mkdtemp(prefix='pytough-try-', dir='/var/tmp'); os.rmdir(wt)
        scratch = tempfile.mkdtemp(prefix='pytough-ev-', dir='/var/tmp')
        sh('git -C /repo worktree add -q --detach %s HEAD' % wt)
        out = {}
        try:
            rc, o = sh('git apply %s' % os.path.join(d, 'patch.diff'), cwd=wt)
            if rc != 0:
                print(sid, 'PATCH DOES NOT APPLY', o[-300:]); continue
            for pid in (checks or [sid.split('-')[0]]):
                env = dict(os.environ, PYTOUGH_REPO=wt, VERIF_EVIDENCE_DIR=scratch, VERIF_REPLAY_DIR=os.path.join(scratch, 'replays'))
                t0 = time.time()
                p = subprocess.run(['python3-vt', 'run.py', 'check', pid, '--tier', tier], cwd=VERIF, env=env, capture_output=True, text=True)
                viol = [l for l in p.stdout.split('\n') if l.startswith('VIOLATION')]
                ded = [v for v in viol if ' obligation=%s/bounded:' % pid not in v]
                out[pid] = {'exit': p.returncode, 'violations': [v[:400] for v in (ded[:3] + [v for v in viol if v not in ded][:3])], 'n_violations': len(viol), 'n_deductive': len(ded),
                            'seconds': round(time.time() - t0, 1), 'stderr_tail': p.stderr[-400:] if p.returncode not in (0, 1) else ''}
                print(sid, pid, 'exit', p.returncode, 'violations', len(viol), '%.0fs' % (time.time() - t0))
                for v in viol[:2]: print('    ', v[:260])
                if p.returncode not in (0, 1): print(p.stdout[-600:], p.stderr[-600:])
        finally:
            sh('git -C /repo worktree remove --force %s' % wt); shutil.rmtree(wt, ignore_errors=True); shutil.rmtree(scratch, ignore_errors=True)
        dp = os.path.join(d, 'detect.json')
        try: prev = json.load(open(dp))
        except Exception: prev = {}
        prev.setdefault(tier, {}).update(out)
        json.dump(prev, open(dp, 'w'), indent=1)
if __name__ == '__main__': main(sys.argv[1:])
