#!/usr/bin/env python3
"""Confirm a seeded change: in a scratch worktree of /repo HEAD (outside /repo and /verif)
the patch applies, the 37 stable tests still pass with it, demo.py fails with it and passes
without it.  Writes the outcome into seeded/<id>/meta.json under "confirmed"."""
import sys, os, json, subprocess, tempfile, shutil, xml.etree.ElementTree as ET

def sh(cmd, cwd=None, timeout=900):
    p = subprocess.run(cmd, shell=True, cwd=cwd, capture_output=True, text=True, timeout=timeout)
    return p.returncode, p.stdout + p.stderr

def stable_ok(wt):
    out = os.path.join(wt, '_junit.xml')
    sh('/venv/bin/python -m pytest -q -p no:cacheprovider --timeout=900 --continue-on-collection-errors --junitxml=%s tests' % out, cwd=wt)
    base = json.load(open('/root/.vp/BASELINE.json'))['stable_pass']
    passed = set()
    for tc in ET.parse(out).getroot().iter('testcase'):
        if not any(c.tag in ('failure', 'error', 'skipped') for c in tc):
            passed.add('%s::%s' % (tc.get('classname'), tc.get('name')))
    os.remove(out)
    return [t for t in base if t not in passed]

def main(ids):
    for sid in ids:
        d = os.path.join('/verif/seeded', sid)
        wt = tempfile.mkdtemp(prefix='pytough-seed-', dir='/var/tmp')
        os.rmdir(wt)
        rc, o = sh('git -C /repo worktree add -q --detach %s HEAD' % wt)
        res = {'repo_head': sh('git -C /repo rev-parse --short HEAD')[1].strip()}
        try:
            os.makedirs(os.path.join(wt, 'seed', 'x'))
            shutil.copy(os.path.join(d, 'demo.py'), os.path.join(wt, 'seed', 'x', 'demo.py'))
            rc0, o0 = sh('/venv/bin/python seed/x/demo.py', cwd=wt, timeout=600)
            res['demo_clean_exit'] = rc0
            rc, o = sh('git apply %s' % os.path.join(d, 'patch.diff'), cwd=wt)
            res['applies'] = (rc == 0)
            if rc == 0:
                res['stable_missing'] = stable_ok(wt)
                rc1, o1 = sh('/venv/bin/python seed/x/demo.py', cwd=wt, timeout=600)
                res['demo_patched_exit'] = rc1
                res['demo_patched_tail'] = o1[-600:]
            res['ok'] = bool(res.get('applies') and res['demo_clean_exit'] == 0 and
                             res.get('demo_patched_exit', 0) != 0 and not res.get('stable_missing'))
        except Exception as e:
            res['error'] = repr(e); res['ok'] = False
        finally:
            sh('git -C /repo worktree remove --force %s' % wt)
            shutil.rmtree(wt, ignore_errors=True)
        mp = os.path.join(d, 'meta.json')
        try: meta = json.load(open(mp))
        except Exception: meta = {}
        meta['confirmed'] = res
        json.dump(meta, open(mp, 'w'), indent=1)
        print(sid, 'OK' if res['ok'] else 'NOT-CONFIRMED', {k: v for k, v in res.items() if k != 'demo_patched_tail'})

if __name__ == '__main__':
    main(sys.argv[1:] or sorted(os.listdir('/verif/seeded')))
