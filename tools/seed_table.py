#!/usr/bin/env python3
"""Builds seeded/RESULTS.md: which check caught which seeded change (from seeded/*/detect.json)."""
import json, os, glob
rows = []
for d in sorted(glob.glob('/verif/seeded/C*-*')):
    sid = os.path.basename(d)
    meta = json.load(open(os.path.join(d, 'meta.json')))
    try: det = json.load(open(os.path.join(d, 'detect.json')))
    except Exception: det = {}
    caught = []
    for tier, res in det.items():
        for pid, r in res.items():
            if r.get('exit') == 1:
                ded = [v for v in r['violations'] if 'bounded:' not in v]
                obl = ''
                if ded:
                    obl = ded[0].split('obligation=')[1].split(' ')[0] if 'obligation=' in ded[0] else ''
                else:
                    v = r['violations'][0] if r['violations'] else ''
                    obl = v.split('obligation=')[1].split(' ')[0] if 'obligation=' in v else ''
                caught.append('%s %s (%s)%s' % (pid, tier, 'deductive obligation' if ded else 'bounded', ': `' + obl[:90] + '`' if obl else ''))
            elif r.get('exit') == 0:
                caught.append('%s %s: not detected' % (pid, tier))
    summ = (meta.get('summary') or '')[:150].replace('\n', ' ').replace('|', '/')
    rows.append('| %s | %s | %s | %s |' % (sid, ', '.join(meta.get('functions_touched', [])[:2])[:60], summ, '; '.join(caught) or 'not run'))
open('/verif/seeded/RESULTS.md', 'w').write('| seed | touches | change | detection |\n|---|---|---|---|\n' + '\n'.join(rows) + '\n')
print(len(rows), 'rows')
