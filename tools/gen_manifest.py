#!/usr/bin/env python3
"""Generates MANIFEST.json from the table below (one entry per property claimed)."""
import json, os
V = '/verif'
CHECKS = {}
def claim(pid, category, text, note, technique, ref):
    CHECKS[pid] = dict(category=category, text=text, note=note, technique=technique, ref=ref)

HOLD = set()
exec(open(os.path.join(V, 'tools', 'manifest_table.py')).read())

props = [json.loads(l) for l in open(os.path.join(V, 'properties.jsonl'))]
checks, na = [], []
for p in props:
    pid = p['id']
    if pid in CHECKS and pid not in HOLD and os.path.exists(os.path.join(V, 'checks', pid.lower() + '.py')):
        c = CHECKS[pid]
        checks.append({
            'property_id': pid,
            'quick_cmd': 'python3-vt run.py check %s --tier quick' % pid,
            'thorough_cmd': 'python3-vt run.py check %s --tier thorough' % pid,
            'evidence_file': 'evidence/%s.json' % pid,
            'replay_cmd_template': 'python3-vt run.py replay {path}',
            'engine': 'pyvc+symx+bounded',
            'level_claimed': {'category': c['category'], 'text': c['text'], 'design_ref': c['ref']},
            'level_note': c['note'],
            'technique': c['technique'],
        })
    else:
        na.append({'property_id': pid, 'reason': NOT_APPLICABLE.get(pid, 'check not built yet in this session (see DESIGN.md section 3); no claim is made')})
m = {
    'version': 1,
    'setup_cmd': 'python3-vt run.py setup',
    'hooks': {'guard': 'PYTOUGH_VERIF', 'enable': 'none needed: contracts are sidecars in /verif/contracts, the repository is read (ast) and imported unmodified',
              'baseline_off_cmd': 'cd /repo && /venv/bin/python -m pytest -ra -q -p no:cacheprovider --timeout=900 --continue-on-collection-errors',
              'source_commits': [], 'add_only': True},
    'engines': [
        {'name': 'pyvc', 'path': 'pyvc/', 'serves_properties': sorted(CHECKS), 'kind_free_text': 'ast -> z3/cvc5 verification-condition generator (symbolic executor) run on the real source of /repo at every run; sidecar contracts in contracts/'},
        {'name': 'symx', 'path': 'symx/', 'serves_properties': ['C14', 'C15', 'C11', 'C04'], 'kind_free_text': 'exact algebra (sympy) over the real function bodies for thermodynamic / area identities; z3 nlsat for range obligations'},
        {'name': 'bounded', 'path': 'bounded/', 'serves_properties': sorted(CHECKS), 'kind_free_text': 'run-time evaluation of the same contracts under the pinned interpreter on enumerated / generated inputs; labelled bounded, never counted as proved'},
    ],
    'checks': checks,
    'not_applicable': na,
    'notes': 'Technique family: contract-based deductive verification of the real code. Exit 0 held / 1 violation / 3 engine failure. Known findings in known_findings.json.',
}
json.dump(m, open(os.path.join(V, 'MANIFEST.json'), 'w'), indent=1)
print('claimed', [c['property_id'] for c in checks], 'not_applicable', [n['property_id'] for n in na])
