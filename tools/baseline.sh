#!/bin/bash
# Runs the pinned baseline suite (guard off) and checks that every stable_pass test passes.
out=$(mktemp /var/tmp/pytough-baseline-XXXXXX.xml)
cd /repo && /venv/bin/python -m pytest -ra -q -p no:cacheprovider --timeout=900 --continue-on-collection-errors --junitxml=$out >/dev/null 2>&1
python3 - "$out" <<'PY'
import sys, json, xml.etree.ElementTree as ET
base = json.load(open('/root/.vp/BASELINE.json'))
passed = set()
for tc in ET.parse(sys.argv[1]).getroot().iter('testcase'):
    if not any(c.tag in ('failure', 'error', 'skipped') for c in tc):
        passed.add('%s::%s' % (tc.get('classname'), tc.get('name')))
missing = [t for t in base['stable_pass'] if t not in passed]
print('baseline: %d/%d stable tests pass' % (len(base['stable_pass']) - len(missing), len(base['stable_pass'])))
for t in missing: print('  MISSING', t)
sys.exit(1 if missing else 0)
PY
rc=$?
rm -f "$out"
exit $rc
