#!/usr/bin/env python3
"""Self-test of the machinery on scratch copies of /repo (never /repo itself):
 * selftest/mutants/*.diff  (reversions of fix: commits)  -> the named check must exit 1
 * selftest/benign/*.diff   (harmless rewrites)            -> the named check must exit 0
 * optionally seeded/<id>/patch.diff (--seeded)            -> some check must exit 1
File name prefix cNN_ names the property."""
import sys, os, subprocess, tempfile, shutil, glob
V = '/verif'
def run(diff, pid, tier="quick"):
    wt = tempfile.mkdtemp(prefix='pytough-self-', dir='/var/tmp'); os.rmdir(wt)
    ev = tempfile.mkdtemp(prefix='pytough-selfev-', dir='/var/tmp')
    subprocess.run('git -C /repo worktree add -q --detach %s HEAD' % wt, shell=True)
    try:
        a = subprocess.run('git apply %s' % diff, shell=True, cwd=wt, capture_output=True, text=True)
        if a.returncode:
            return None, 'patch does not apply: ' + a.stderr[-200:]
        env = dict(os.environ, PYTOUGH_REPO=wt, VERIF_EVIDENCE_DIR=ev, VERIF_REPLAY_DIR=os.path.join(ev, 'replays'))
        p = subprocess.run(['python3-vt', 'run.py', 'check', pid, '--tier', tier], cwd=V, env=env, capture_output=True, text=True)
        first = [l for l in p.stdout.split('\n') if l.startswith('VIOLATION')][:1]
        return p.returncode, (first[0][:200] if first else '')
    finally:
        subprocess.run('git -C /repo worktree remove --force %s' % wt, shell=True)
        shutil.rmtree(wt, ignore_errors=True); shutil.rmtree(ev, ignore_errors=True)
bad = 0
for kind, want in (('mutants', 1), ('benign', 0)):
    for d in sorted(glob.glob(os.path.join(V, 'selftest', kind, '*.diff'))):
        pid = os.path.basename(d)[:3].upper()
        rc, info = run(d, pid)
        ok = rc == want
        bad += not ok
        print('%-8s %-45s %s expected exit %d, got %r  %s' % (kind, os.path.basename(d), pid, want, rc, info if not ok or want else ''))
print('selftest', 'OK' if not bad else 'FAILED (%d)' % bad)
sys.exit(1 if bad else 0)
