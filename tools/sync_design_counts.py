#!/usr/bin/env python3
"""Refresh the obligation counts of the DESIGN.md 7.2 table from the committed evidence files."""
import json, re
p = '/verif/DESIGN.md'
s = open(p).read().split('\n')
i72 = [i for i, l in enumerate(s) if l.startswith('### 7.2')][0]
for i in range(i72, len(s)):
    m = re.match(r'\| (C\d\d) \| (\d+)( \((\d+) failed = ([^)]*)\))?:', s[i])
    if not m:
        continue
    c = json.load(open('/verif/evidence/%s.json' % m.group(1)))['coverage']
    nf = len(c['failed'])
    head = '| %s | %d%s:' % (m.group(1), c['obligations'], (' (%d failed = %s)' % (nf, m.group(5) or 'known findings reproduced')) if nf else '')
    s[i] = head + s[i][m.end():]
open(p, 'w').write('\n'.join(s))
