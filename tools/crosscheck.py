#!/usr/bin/env python3
"""Differential test of the executor against CPython on the heavy paths the whole-driver obligations rely on:
the same scenario (real constructor, real editing operation, real fromgeo / rectgeo / block_mapping / point search)
is run (a) by the symbolic executor on exact rational inputs and (b) natively under /venv/bin/python on the same
numbers as floats; every numeric and structural output is compared (names up to the order in which CPython iterates
sets).  usage: python3-vt tools/crosscheck.py     exit 0 = all scenarios agree."""
import sys, os, json, subprocess
from fractions import Fraction
sys.path.insert(0, '/verif')
REPO = os.environ.get('PYTOUGH_REPO', '/repo')

SCENARIOS = [
    ('rect', dict(dx=[10, 25], dy=[15, 5], dz=[4, 6], org=[3, -7, 100], atm=0, surf={1: 97}, op=None)),
    ('rect', dict(dx=[10, 25, 5], dy=[15], dz=[4, 6, 8], org=[0, 0, 0], atm=1, surf={0: -5, 2: -11}, op=None)),
    ('rect', dict(dx=[10, 25], dy=[15, 5], dz=[4, 6], org=[3, -7, 100], atm=2, surf={0: 98}, op=('refine', [0]))),
    ('rect', dict(dx=[10, 25, 7], dy=[15, 5], dz=[4, 6], org=[3, -7, 100], atm=0, surf={}, op=('refine', [0, 1]))),
    ('rect', dict(dx=[10, 25], dy=[15, 5], dz=[4, 6, 3], org=[1, 2, 50], atm=0, surf={3: 47}, op=('refine_layers', [1, 2]))),
    ('rect', dict(dx=[10, 25], dy=[15, 5], dz=[4, 6], org=[1, 2, 50], atm=1, surf={}, op=('rotate', 90))),
    ('rect', dict(dx=[10, 25], dy=[15, 5], dz=[4, 6], org=[1, 2, 50], atm=0, surf={2: 48}, op=('delete_column', 1))),
    ('rect', dict(dx=[10, 25], dy=[15, 5], dz=[4, 6], org=[1, 2, 50], atm=0, surf={}, op=('bisect', [0]))),
]


def signature_native(sc):
    code = r'''
import sys, json
sys.path.insert(0, %r)
import numpy as np
from mulgrids import mulgrid
from t2grids import t2grid
sc = json.loads(%r)
g = mulgrid().rectangular([float(x) for x in sc['dx']], [float(x) for x in sc['dy']], [float(x) for x in sc['dz']], origin=[float(x) for x in sc['org']], atmos_type=sc['atm'])
for k, s in sc['surf'].items():
    c = g.columnlist[int(k)]; c.surface = float(s); g.set_column_num_layers(c)
g.setup_block_name_index(); g.setup_block_connection_name_index()
op = sc['op']
if op:
    if op[0] == 'refine': g.refine([g.columnlist[k] for k in op[1]])
    elif op[0] == 'bisect': g.refine([g.columnlist[k] for k in op[1]], bisect=True)
    elif op[0] == 'refine_layers': g.refine_layers([g.layerlist[k] for k in op[1]])
    elif op[0] == 'rotate': g.rotate(op[1], np.array(sc['org'][:2], float))
    elif op[0] == 'delete_column':
        g.delete_column(g.columnlist[op[1]].name); g.setup_block_name_index(); g.setup_block_connection_name_index()
t = t2grid().fromgeo(g)
sig = {'ncol': g.num_columns, 'nnode': g.num_nodes, 'ncon': g.num_connections, 'nlay': g.num_layers,
       'areas': sorted(round(c.area, 6) for c in g.columnlist), 'centres': sorted((round(c.centre[0], 6), round(c.centre[1], 6)) for c in g.columnlist),
       'nblocks': t.num_blocks, 'ntcon': t.num_connections, 'volumes': sorted(round(b.volume, 4) for b in t.blocklist if b.volume < 1e20),
       'conareas': sorted(round(c.area, 4) for c in t.connectionlist), 'dist': sorted(round(c.distance[0] + c.distance[1], 6) for c in t.connectionlist),
       'nlayers': sorted(c.num_layers for c in g.columnlist)}
print('@@' + json.dumps(sig))
''' % (REPO, json.dumps(sc))
    p = subprocess.run(['/venv/bin/python', '-W', 'ignore', '-c', code], capture_output=True, text=True, cwd='/var/tmp')
    line = [l for l in p.stdout.split('\n') if l.startswith('@@')]
    if not line:
        raise RuntimeError(p.stderr[-500:])
    return json.loads(line[0][2:])


def signature_engine(sc):
    from pyvc.engine import Engine, NVec
    from pyvc.values import to_real
    import z3
    e = Engine(REPO, timeout_ms=20000, extra_paths=['/verif/contracts'])
    out = {}
    cache = {}
    def num(v):
        if isinstance(v, (int, Fraction)):
            return float(v)
        v = z3.simplify(to_real(v))
        if z3.is_rational_value(v) or z3.is_int_value(v):
            return float(Fraction(v.numerator_as_long(), v.denominator_as_long()))
        if z3.is_algebraic_value(v):
            a = v.approx(20); return float(Fraction(a.numerator_as_long(), a.denominator_as_long()))
        # a term over sqrt / norm variables: they are fixed by their defining constraints on this (single) path
        if 'model' not in cache:
            sv = z3.Solver(); sv.add(*e.pc)
            if sv.check() != z3.sat:
                raise ValueError('path condition not satisfiable')
            cache['model'] = sv.model()
        w = cache['model'].eval(v, model_completion=True)
        if z3.is_rational_value(w) or z3.is_int_value(w):
            return float(Fraction(w.numerator_as_long(), w.denominator_as_long()))
        if z3.is_algebraic_value(w):
            a = w.approx(20); return float(Fraction(a.numerator_as_long(), a.denominator_as_long()))
        raise ValueError('not a number: %s' % v)
    def prog(e):
        m = e.load_module('mulgrids').globals
        F = lambda xs: [Fraction(x) for x in xs]
        g = e.call(e.getattr(e.call(m['mulgrid'], []), 'rectangular'), [F(sc['dx']), F(sc['dy']), F(sc['dz'])], {'origin': F(sc['org']), 'atmos_type': sc['atm']})
        for k, s in sc['surf'].items():
            c = g.fields['columnlist'][int(k)]
            e.setattr(c, 'surface', Fraction(s)); e.call(e.getattr(g, 'set_column_num_layers'), [c])
        e.call(e.getattr(g, 'setup_block_name_index'), []); e.call(e.getattr(g, 'setup_block_connection_name_index'), [])
        op = sc['op']
        cl, ll = g.fields['columnlist'], g.fields['layerlist']
        if op:
            if op[0] == 'refine': e.call(e.getattr(g, 'refine'), [[cl[k] for k in op[1]]])
            elif op[0] == 'bisect': e.call(e.getattr(g, 'refine'), [[cl[k] for k in op[1]]], {'bisect': True})
            elif op[0] == 'refine_layers': e.call(e.getattr(g, 'refine_layers'), [[ll[k] for k in op[1]]])
            elif op[0] == 'rotate': e.call(e.getattr(g, 'rotate'), [op[1], NVec(F(sc['org'][:2]))])
            elif op[0] == 'delete_column':
                e.call(e.getattr(g, 'delete_column'), [cl[op[1]].fields['name']]); e.call(e.getattr(g, 'setup_block_name_index'), []); e.call(e.getattr(g, 'setup_block_connection_name_index'), [])
        t = e.call(e.getattr(e.call(e.load_module('t2grids').globals['t2grid'], []), 'fromgeo'), [g])
        gf, tf = g.fields, t.fields
        s2 = lambda c: num(c.fields['distance'][0]) + num(c.fields['distance'][1])
        out.update({'ncol': len(gf['columnlist']), 'nnode': len(gf['nodelist']), 'ncon': len(gf['connectionlist']), 'nlay': len(gf['layerlist']),
                    'areas': sorted(round(num(c.fields['area']), 6) for c in gf['columnlist']),
                    'centres': sorted([round(num(c.fields['centre'].items[0]), 6), round(num(c.fields['centre'].items[1]), 6)] for c in gf['columnlist']),
                    'nblocks': len(tf['blocklist']), 'ntcon': len(tf['connectionlist']),
                    'volumes': sorted(round(num(b.fields['volume']), 4) for b in tf['blocklist'] if num(b.fields['volume']) < 1e20),
                    'conareas': sorted(round(num(c.fields['area']), 4) for c in tf['connectionlist']), 'dist': sorted(round(s2(c), 6) for c in tf['connectionlist']),
                    'nlayers': sorted(int(num(c.fields['num_layers'])) for c in gf['columnlist'])})
    n = e.explore(prog, 'crosscheck')
    out['paths'] = n
    return out


def main():
    bad = 0
    for kind, sc in SCENARIOS:
        sc = json.loads(json.dumps(sc))
        try:
            a = signature_native(sc)
            b = signature_engine(sc)
            paths = b.pop('paths')
            diff = [k for k in a if json.dumps(a[k]) != json.dumps(json.loads(json.dumps(b.get(k))))]
            ok = not diff and paths == 1
            print('%s %s op=%s paths=%d %s' % ('agree ' if ok else 'DIFFER', sc['dx'], sc['op'], paths, '' if ok else [(k, a[k], b.get(k)) for k in diff][:3]))
            bad += not ok
        except Exception as ex:
            print('ERROR', sc['op'], repr(ex)[:300]); bad += 1
    bad += other_paths()
    bad += tape_vs_file()
    bad += re_model()
    bad += re_model_symbolic()
    print('crosscheck', 'OK' if not bad else 'FAILED (%d)' % bad)
    return 1 if bad else 0


# ---------------------------------------------------------------------------------------------
# rectgeo, block_mapping and point search on concrete inputs

def other_paths():
    from pyvc.engine import Engine, NVec
    bad = 0
    cases = [dict(dx=[10, 25], dy=[15, 5], dz=[4, 6, 3], org=[3, -7, 100], atm=0, surf={1: 95}, tdx=[7, 9, 30], tdz=[5, 9], pts=[[8, -1], [20, 10], [100, 0], [13, 8]], rot=0),
             dict(dx=[10, 25, 4], dy=[15, 5], dz=[4, 6], org=[0, 0, 0], atm=1, surf={}, tdx=[20, 19], tdz=[3, 3, 4], pts=[[1, 1], [38, 19]], rot=90)]
    for sc in cases:
        code = r'''
import sys, json
sys.path.insert(0, %r)
import numpy as np
from mulgrids import mulgrid
from t2grids import t2grid
sc = json.loads(%r)
F = lambda xs: [float(x) for x in xs]
g = mulgrid().rectangular(F(sc['dx']), F(sc['dy']), F(sc['dz']), origin=F(sc['org']), atmos_type=sc['atm'])
for k, s in sc['surf'].items():
    c = g.columnlist[int(k)]; c.surface = float(s); g.set_column_num_layers(c)
g.setup_block_name_index(); g.setup_block_connection_name_index()
tgt = mulgrid().rectangular(F(sc['tdx']), F(sc['dy']), F(sc['tdz']), origin=F(sc['org']), atmos_type=sc['atm'])
mp = g.block_mapping(tgt)
loc = [getattr(g.column_containing_point(np.array(p, float)), 'name', None) for p in sc['pts']]
qt = g.column_quadtree()
locq = [getattr(g.column_containing_point(np.array(p, float), qtree=qt), 'name', None) for p in sc['pts']]
if sc['rot']:
    g.rotate(sc['rot'], np.array(sc['org'][:2], float)); g.permeability_angle = -sc['rot']
t = t2grid().fromgeo(g)
g2, bm = t.rectgeo(atmos_type=sc['atm'])
sig = {'mapping': sorted(mp.items()), 'locate': loc, 'locate_qtree': locq, 'blockmap': sorted(bm.items()), 'angle': round(float(g2.permeability_angle), 6) + 0.0,
       'thick': [round(l.top - l.bottom, 6) for l in g2.layerlist[1:]], 'nodes': sorted((round(n.pos[0], 6), round(n.pos[1], 6)) for n in g2.nodelist),
       'surfaces': [round(c.surface, 6) + 0.0 for c in g2.columnlist]}
print('@@' + json.dumps(sig))
''' % (REPO, json.dumps(sc))
        p = subprocess.run(['/venv/bin/python', '-W', 'ignore', '-c', code], capture_output=True, text=True, cwd='/var/tmp')
        line = [l for l in p.stdout.split('\n') if l.startswith('@@')]
        if not line:
            print('ERROR native', p.stderr[-300:]); bad += 1; continue
        a = json.loads(line[0][2:])
        e = Engine(REPO, timeout_ms=20000, extra_paths=['/verif/contracts'])
        out = {}
        def num(v):
            from pyvc.values import to_real
            import z3
            if isinstance(v, (int, Fraction)): return float(v)
            w = z3.simplify(to_real(v))
            return float(Fraction(w.numerator_as_long(), w.denominator_as_long()))
        def prog(e):
            m = e.load_module('mulgrids').globals
            F = lambda xs: [Fraction(x) for x in xs]
            g = e.call(e.getattr(e.call(m['mulgrid'], []), 'rectangular'), [F(sc['dx']), F(sc['dy']), F(sc['dz'])], {'origin': F(sc['org']), 'atmos_type': sc['atm']})
            for k, sv in sc['surf'].items():
                c = g.fields['columnlist'][int(k)]; e.setattr(c, 'surface', Fraction(sv)); e.call(e.getattr(g, 'set_column_num_layers'), [c])
            e.call(e.getattr(g, 'setup_block_name_index'), []); e.call(e.getattr(g, 'setup_block_connection_name_index'), [])
            tgt = e.call(e.getattr(e.call(m['mulgrid'], []), 'rectangular'), [F(sc['tdx']), F(sc['dy']), F(sc['tdz'])], {'origin': F(sc['org']), 'atmos_type': sc['atm']})
            mp = e.call(e.getattr(g, 'block_mapping'), [tgt])
            name = lambda c: c.fields['name'] if c is not None else None
            loc = [name(e.call(e.getattr(g, 'column_containing_point'), [NVec(F(p))])) for p in sc['pts']]
            qt = e.call(e.getattr(g, 'column_quadtree'), [])
            locq = [name(e.call(e.getattr(g, 'column_containing_point'), [NVec(F(p))], {'qtree': qt})) for p in sc['pts']]
            if sc['rot']:
                e.call(e.getattr(g, 'rotate'), [sc['rot'], NVec(F(sc['org'][:2]))]); g.fields['permeability_angle'] = -sc['rot']
            t = e.call(e.getattr(e.call(e.load_module('t2grids').globals['t2grid'], []), 'fromgeo'), [g])
            g2, bm = e.call(e.getattr(t, 'rectgeo'), [], {'atmos_type': sc['atm']})
            out.update({'mapping': sorted([list(kv) for kv in mp.items()]), 'locate': loc, 'locate_qtree': locq, 'blockmap': sorted([list(kv) for kv in bm.items()]),
                        'angle': round(num(g2.fields['permeability_angle']), 6) + 0.0, 'thick': [round(num(l.fields['top']) - num(l.fields['bottom']), 6) for l in g2.fields['layerlist'][1:]],
                        'nodes': sorted([round(num(n.fields['pos'].items[0]), 6), round(num(n.fields['pos'].items[1]), 6)] for n in g2.fields['nodelist']),
                        'surfaces': [round(num(e.getattr(c, 'surface')), 6) + 0.0 for c in g2.fields['columnlist']]})
        try:
            n = e.explore(prog, 'other')
            diff = [k for k in a if json.dumps(a[k]) != json.dumps(json.loads(json.dumps(out.get(k))))]
            ok = not diff and n == 1
            print('%s mapping / point search / rectgeo rot=%s paths=%d %s' % ('agree ' if ok else 'DIFFER', sc['rot'], n, '' if ok else [(k, a[k], out.get(k)) for k in diff][:2]))
            bad += not ok
        except Exception as ex:
            import traceback; traceback.print_exc(limit=-2)
            print('ERROR engine', repr(ex)[:300]); bad += 1
    return bad


# ---------------------------------------------------------------------------------------------
# the record tape against the real file: the records the real t2data.write() puts on the tape, rendered by the real
# write_values_to_string, must be exactly the lines the real write() puts in a real file for the same model

def tape_records(flavour, mesh, xp, shape):
    from pyvc.engine import Engine, Obj
    from contracts import c01
    e = Engine(REPO, timeout_ms=20000, extra_paths=['/verif/contracts'])
    out = {}
    class Concrete(c01.SymBackend):
        count = 0
        def real(self, name, lo=None, hi=None):
            self.count += 1
            v = 1.0 + 0.37 * self.count
            if hi is not None: v = min(v, hi)
            return Fraction(float(v))
        def int(self, name, lo, hi): return lo
        def nonzero(self, v): pass
    def plain(v):
        if isinstance(v, Fraction): return float(v)
        if isinstance(v, Obj):
            rep = v.cls.lookup('__str__') or v.cls.lookup('__repr__')
            return e.call(rep, [v])
        return v
    def prog(e):
        from contracts.c01_model import build_model
        m = e.load_module('t2data').globals
        d = build_model(Concrete(e), flavour, shape)
        files = c01.TapeFiles(e, {'main': m['t2data_format_specification'], 'xp': m['t2data_extra_precision_format_specification']})
        files.install()
        kw = {'meshfilename': 'MESH'} if mesh else {}
        if xp: kw.update(extra_precision=xp[0], echo_extra_precision=xp[1])
        e.call(e.getattr(d, 'write'), ['model.dat'], kw)
        for name, t in files.files.items():
            out[name] = [list(r[:2]) + ([[plain(v) for v in r[2]]] if r[0] == 'rec' else []) for r in t.recs]
    e.explore(prog, 'tape')
    return out


def tape_vs_file():
    bad = 0
    for flavour, mesh, xp, shape in [('TOUGH2', False, None, {}), ('AUTOUGH2', False, None, {}), ('AUTOUGH2', True, None, {'short': False, 'timesteps': 17}), ('AUTOUGH2', False, (True, True), {})]:
        recs = tape_records(flavour, mesh, xp, shape)
        code = r'''
import sys, json, os, tempfile, shutil
sys.path.insert(0, %r); sys.path.insert(0, '/verif')
import t2data as T
from contracts.c01_model import build_model, NativeBackend
recs = json.loads(%r)
flavour, mesh, xp, shape = json.loads(%r)
d = build_model(NativeBackend({}), flavour, shape)
tmp = tempfile.mkdtemp(dir='/var/tmp')
try:
    kw = {'meshfilename': os.path.join(tmp, 'MESH')} if mesh else {}
    if xp: kw.update(extra_precision=xp[0], echo_extra_precision=xp[1])
    d.write(os.path.join(tmp, 'model.dat'), **kw)
    bad = []
    for name, rr in recs.items():
        real = open(os.path.join(tmp, name)).read()
        spec = T.t2data_extra_precision_format_specification if name.endswith('pdat') else T.t2data_format_specification
        f = T.fixed_format_file.__new__(T.fixed_format_file); f.specification = spec; f.read_function = T.default_read_function; f.preprocess_specification()
        text = ''
        for r in rr:
            text += r[1] if r[0] == 'raw' else f.write_values_to_string(r[2], r[1]) + '\n'
        a, b = [l.rstrip() for l in text.split('\n')], [l.rstrip() for l in real.split('\n')]
        if a != b:
            k = [i for i, (x, y) in enumerate(zip(a, b)) if x != y]
            bad.append('%%s: %%d tape lines, %%d file lines; first difference %%r' %% (name, len(a), len(b), (a[k[0]], b[k[0]]) if k else None))
    print('@@' + json.dumps(bad))
finally:
    shutil.rmtree(tmp)
''' % (REPO, json.dumps(recs), json.dumps([flavour, mesh, xp, shape]))
        p = subprocess.run(['/venv/bin/python', '-W', 'ignore', '-c', code], capture_output=True, text=True, cwd='/var/tmp')
        line = [l for l in p.stdout.split('\n') if l.startswith('@@')]
        res = json.loads(line[0][2:]) if line else ['native side failed: ' + p.stderr[-400:]]
        print('%s tape vs file %s mesh=%s xp=%s %s' % ('agree ' if not res else 'DIFFER', flavour, mesh, xp, res[:2] if res else '(%d files, %d records)' % (len(recs), sum(len(v) for v in recs.values()))))
        bad += bool(res)
    return bad


# ---------------------------------------------------------------------------------------------
# the model of `re` (pyvc/rx.py) and the deciding str.find against CPython, on concrete strings: the same code decides
# symbolic characters by branching on the conditions that are evaluated here


def re_model():
    import re, random
    from pyvc.engine import Engine
    from pyvc import rx, library
    from pyvc.values import SymStr
    e = Engine(REPO, timeout_ms=20000)
    pats = [r'^([+-]?\d+\.?\d*)([+-]\d+)$', r'^([+-]?(?:\d+\.?\d*|\.\d+))([+-]\d+)$', r'\.[0-9]+', r'\.', r'a*?b', r'(a|ab)(c|bcd)(d*)', r'[^ ]+', r'\s*(\w+)\s*=\s*(\d+)?',
            r'x{2,3}y?', r'(?:ab)+c$', r'\A\d{1,2}\Z', r'([eEdD])([+-]?)(\d+)', r'\[.*\]']
    alph = '+-.0123456789 eEdDabcx=y_[]\n'
    rnd = random.Random(5); n = cases = 0
    for it in range(4000):
        p = rnd.choice(pats); s = ''.join(rnd.choice(alph) for _ in range(rnd.randint(0, 9)))
        po = rx.compile_(e, p); cp = re.compile(p)
        for kind in ('match', 'fullmatch', 'search'):
            a = getattr(cp, kind)(s); b = po.fields[kind].fn(e, s); cases += 1
            if (a is None) != (b is None): n += 1; print('DIFFER re.%s %r %r' % (kind, p, s)); continue
            if a is not None and (a.span(), a.groups(), a.group(0)) != (b.fields['span'].fn(e), b.fields['groups'].fn(e), b.fields['group'].fn(e)):
                n += 1; print('DIFFER re.%s %r %r' % (kind, p, s))
        try:
            fb = po.fields['findall'].fn(e, s)
        except Exception:
            fb = None            # an empty match: outside the subset
        if fb is not None:
            cases += 1
            if cp.findall(s) != fb: n += 1; print('DIFFER re.findall %r %r' % (p, s))
    e.find_branches = True
    for it in range(3000):
        s = ''.join(rnd.choice(' .E-1') for _ in range(rnd.randint(0, 12))); c = rnd.choice(' .E-')
        a, b = rnd.randint(-3, 13), rnd.choice([None, rnd.randint(-3, 14)])
        got = library._find(e, _sym(s), c, a, b)
        want = s.find(c, a) if b is None else s.find(c, a, b); cases += 1
        if got != want: n += 1; print('DIFFER find %r.find(%r, %r, %r) = %r, model %r' % (s, c, a, b, want, got))
    print('%s re model / deciding find vs CPython (%d cases)' % ('agree ' if not n else 'DIFFER', cases))
    return n


def re_model_symbolic():
    """the `re` model on symbolic strings (length <= 5 over a small alphabet): on every path, a string of the path gives in CPython
    the span, the groups and the findall list the model computed for the whole path"""
    import re, z3
    from pyvc.engine import Engine
    from pyvc import rx
    e = Engine(REPO, timeout_ms=20000)
    bad = n = 0
    for pat in [r'^([+-]?\d+\.?\d*)([+-]\d+)$', r'\.[0-9]+', r'(a|ab)(c|bcd)(d*)', r'^\s*(\d+)\s*$']:
        results = []
        def prog(e):
            s = e.sym_str('s', maxlen=5, alphabet='+-.019 abcd')
            po = rx.compile_(e, pat)
            m = po.fields['search'].fn(e, s)
            fa = None
            try: fa = po.fields['findall'].fn(e, s)
            except Exception: pass
            sol = z3.Solver(); sol.add(*e.pc); assert sol.check() == z3.sat
            text = e.model_inputs(sol.model())['s']
            got = None if m is None else (m.fields['span'].fn(e), tuple(x if x is None or isinstance(x, str) else e.model_value(sol.model(), x) for x in m.fields['groups'].fn(e)))
            def conv(x):
                if isinstance(x, (tuple, list)): return tuple(conv(y) for y in x)
                return x if x is None or isinstance(x, str) else e.model_value(sol.model(), x)
            results.append((text, got, None if fa is None else [conv(x) for x in fa]))
        e.explore(prog, 'rx')
        for text, got, fa in results:
            n += 1
            c = re.search(pat, text); want = None if c is None else (c.span(), c.groups())
            if got != want: bad += 1; print('DIFFER', pat, repr(text), got, want)
            if fa is not None:
                w = re.findall(pat, text)
                w = [tuple(x) if isinstance(x, tuple) else x for x in w]
                f2 = [tuple(e2 if isinstance(e2, str) else e2 for e2 in x) if isinstance(x, (tuple, list)) else x for x in fa]
                if f2 != w: bad += 1; print('DIFFER findall', pat, repr(text), f2, w)
    print('%s re model on symbolic strings vs CPython (%d paths)' % ('agree ' if not bad else 'DIFFER', n))
    return bad


def _sym(s):
    """a SymStr with concrete characters that does not normalise to a str (so that the model's own code runs)"""
    from pyvc.values import SymStr
    class Keep(SymStr):
        def concrete(self): return None
    return Keep([ord(x) for x in s])


if __name__ == '__main__':
    sys.exit(main())
