"""Common plumbing of the per-property checks: obligation bookkeeping, bounded results,
violations vs known findings, replay files, evidence files, exit codes.

Exit codes: 0 held on everything explored (possibly with KNOWN-FINDING lines);
1 violation (a `VIOLATION property=<id> replay=<path>` line per violation);
3 engine failure (never a verdict about the property).
"""
import os
import re
import sys
import json
import time
import hashlib
import traceback
import subprocess
import concurrent.futures

VERIF = os.path.dirname(os.path.dirname(os.path.abspath(__file__)))
REPO = os.environ.get('PYTOUGH_REPO', '/repo')
VENV_PY = '/venv/bin/python'
WORKERS = int(os.environ.get('VERIF_WORKERS', '16'))


def slug(s):
    return re.sub(r'[^A-Za-z0-9_.-]+', '_', s)[:120]


def sha256_file(path):
    h = hashlib.sha256()
    with open(path, 'rb') as f:
        h.update(f.read())
    return h.hexdigest()


class Check(object):
    def __init__(self, pid, level, tier=None, seed=None, technique=''):
        self.pid = pid
        self.level = level
        self.tier = tier or os.environ.get('VERIF_TIER', 'quick')
        self.seed = int(seed if seed is not None else os.environ.get('VERIF_SEED', '0') or 0)
        self.t0 = time.time()
        self.obligations = []      # dicts
        self.bounded = []          # dicts
        self.violations = []       # dicts
        self.assumptions = []
        self.trusted_base = []
        self.functions = {}        # qualname -> {file, lines, sha256}
        self.notes = []
        self.explanation = ''
        self.engine_failures = []
        self.technique = technique
        self.checker_cmd = 'python3-vt run.py check %s --tier %s' % (pid, self.tier)
        self.samples = []

    # ---- bookkeeping ------------------------------------------------------------------

    def assume(self, *texts):
        for t in texts:
            if t not in self.assumptions:
                self.assumptions.append(t)

    def trust(self, *texts):
        for t in texts:
            if t not in self.trusted_base:
                self.trusted_base.append(t)

    def function_under_contract(self, qualname, repo=None):
        """Record file / line span / hash of a function of the repository under contract."""
        import ast
        repo = repo or REPO
        parts = qualname.split('.')
        path = os.path.join(repo, parts[0] + '.py')
        info = {'file': path}
        try:
            src = open(path).read()
            info['sha256'] = hashlib.sha256(src.encode()).hexdigest()
            tree = ast.parse(src)
            node = tree
            for p in parts[1:]:
                found = None
                for n in ast.walk(node):
                    if isinstance(n, (ast.FunctionDef, ast.ClassDef)) and n.name == p and n is not node:
                        found = n
                        break
                node = found
                if node is None:
                    break
            if node is not None and node is not tree:
                info['lines'] = [node.lineno, node.end_lineno]
            else:
                info['missing'] = True
        except Exception as e:
            info['error'] = repr(e)
        self.functions[qualname] = info
        return info

    def obligation(self, name, status, backend='z3', seconds=0.0, detail='', model=None,
                   replay=None, paths=1, key=None, kind='deductive'):
        """status: discharged | failed | undecided"""
        self.obligations.append({'name': name, 'status': status, 'backend': backend,
                                 'seconds': round(seconds, 4), 'detail': detail, 'paths': paths,
                                 'model': model, 'kind': kind})
        if len(self.samples) < 12 and status == 'discharged':
            self.samples.append({'obligation': name, 'backend': backend, 'paths': paths})

    def add_bounded(self, name, evaluations, distinct, rule, samples, exhaustive=False, seconds=0.0):
        self.bounded.append({'name': name, 'evaluations': int(evaluations), 'distinct_nontrivial': int(distinct),
                             'rule': rule, 'samples': samples[:5], 'exhaustive': bool(exhaustive),
                             'seconds': round(seconds, 2), 'label': 'bounded'})

    def violation(self, obligation, what, key, replay=None, found_input=True, solver_output=None):
        """Register a violation.  key identifies the specific failing input / call site /
        history (matched against known_findings.json)."""
        self.violations.append({'obligation': obligation, 'what': what, 'key': key, 'replay': replay or {},
                                'found_input': found_input, 'solver_output': solver_output})

    def engine_failure(self, what):
        self.engine_failures.append(what)

    # ---- finish -----------------------------------------------------------------------

    def load_known(self):
        p = os.path.join(VERIF, 'known_findings.json')
        try:
            return json.load(open(p))
        except Exception:
            return {'findings': [], 'fixed': []}

    def finish(self):
        known = self.load_known()
        findings = [f for f in known.get('findings', []) if f.get('property') == self.pid]
        new, matched = [], []
        for v in self.violations:
            hit = None
            for f in findings:
                if f.get('key') == v['key'] or (f.get('pattern') and re.search(f['pattern'], v['key'])):
                    hit = f
                    break
            if hit:
                matched.append((hit, v))
            else:
                new.append(v)
        printed = set()
        for f, v in matched:
            tag = f.get('key') or f.get('pattern')
            if tag in printed:
                continue
            printed.add(tag)
            print('KNOWN-FINDING: property=%s %s' % (self.pid, f.get('what', v['what'])))
        rdir = os.path.join(os.environ.get('VERIF_REPLAY_DIR', os.path.join(VERIF, 'replays')), self.pid)
        seen_keys = set()
        nviol = 0
        for v in new:
            if v['key'] in seen_keys:
                continue
            seen_keys.add(v['key'])
            nviol += 1
            if nviol > 25:
                continue
            os.makedirs(rdir, exist_ok=True)
            path = os.path.join(rdir, slug(v['obligation'] + '__' + v['key']) + '.json')
            with open(path, 'w') as f:
                json.dump({'property': self.pid, 'obligation': v['obligation'], 'what': v['what'],
                           'key': v['key'], 'found_input': v['found_input'], 'replay': v['replay'],
                           'solver_output': v['solver_output'], 'tier': self.tier, 'seed': self.seed,
                           'how': 'python3-vt run.py replay ' + os.path.relpath(path, VERIF)}, f, indent=1, default=str)
            suffix = '' if v['found_input'] else ' no-failing-input-found'
            print('VIOLATION property=%s replay=%s obligation=%s %s%s' %
                  (self.pid, path, v['obligation'], v['what'][:300].replace('\n', ' '), suffix))
        self.write_evidence(len(new), len(matched))
        sys.stdout.flush()
        if self.engine_failures and not new:
            for e in self.engine_failures:
                print('ENGINE-FAILURE property=%s %s' % (self.pid, e))
            return 3
        return 1 if new else 0

    def write_evidence(self, nviol, nknown):
        ded = [o for o in self.obligations]
        n_ob = len(ded)
        n_dis = sum(1 for o in ded if o['status'] == 'discharged')
        undec = [o['name'] + ': ' + o['detail'][:160] for o in ded if o['status'] == 'undecided']
        failed = [o['name'] for o in ded if o['status'] == 'failed']
        backends = {}
        for o in ded:
            b = backends.setdefault(o['backend'], {'obligations': 0, 'seconds': 0.0})
            b['obligations'] += 1
            b['seconds'] = round(b['seconds'] + o['seconds'], 3)
        evals = sum(b['evaluations'] for b in self.bounded)
        distinct = sum(b['distinct_nontrivial'] for b in self.bounded)
        samples = list(self.samples)
        for b in self.bounded:
            for s in b['samples'][:2]:
                samples.append({'bounded': b['name'], 'case': s})
        if not samples:
            samples = [{'note': 'no case recorded'}]
        cov = {
            'obligations': n_ob, 'discharged': n_dis,
            'undecided': undec, 'failed': failed,
            'checker_cmd': self.checker_cmd,
            'trusted_base': self.trusted_base,
            'functions_under_contract': self.functions,
            'backends': backends,
            'solver_seconds': round(sum(o['seconds'] for o in ded), 3),
            'evaluations': max(evals, 0), 'distinct_nontrivial': max(distinct, 0),
            'rule': '; '.join('%s: %s' % (b['name'], b['rule']) for b in self.bounded) or
                    'deductive obligations only (no sampled cases)',
            'samples': samples[:20],
            'bounded_checks': self.bounded,
            'exhaustive': bool(self.bounded) and all(b['exhaustive'] for b in self.bounded),
            'explanation': self.explanation,
            'known_findings_matched': nknown,
            'notes': self.notes,
            'obligation_table': [{k: o[k] for k in ('name', 'status', 'backend', 'seconds', 'paths', 'kind')} for o in ded][:400],
        }
        ev = {'property_id': self.pid, 'tier': self.tier, 'seed': self.seed, 'level': self.level,
              'coverage': cov, 'assumptions': self.assumptions, 'wall_s': round(time.time() - self.t0, 2),
              'violations': nviol}
        edir = os.environ.get('VERIF_EVIDENCE_DIR', os.path.join(VERIF, 'evidence'))
        os.makedirs(edir, exist_ok=True)
        with open(os.path.join(edir, self.pid + '.json'), 'w') as f:
            json.dump(ev, f, indent=1, default=str)


# ----------------------------------------------------------------------------------------
# native execution (the interpreter of the pinned suite) for replays and bounded harnesses


def run_native(snippet, repo=None, timeout=120, extra_env=None):
    """Run a Python snippet under /venv/bin/python with the repository importable.  The
    snippet must set `ok` (bool) and may set `detail`.  Returns dict(ok, detail, exc)."""
    repo = repo or REPO
    prog = (
        "import sys, json, warnings\n"
        "warnings.filterwarnings('ignore')\n"
        "sys.path.insert(0, %r); sys.path.insert(0, %r)\n"
        "ok, detail, exc = None, '', None\n"
        "try:\n"
        "    exec(compile(%r, '<replay>', 'exec'), globals())\n"
        "except BaseException as e:\n"
        "    import traceback\n"
        "    exc = type(e).__name__ + ': ' + str(e)\n"
        "    detail = traceback.format_exc()[-1500:]\n"
        "print('\\n@@RESULT@@' + json.dumps({'ok': ok, 'detail': str(detail)[:3000], 'exc': exc}))\n"
    ) % (VERIF, repo, snippet)
    env = dict(os.environ)
    env['PYTHONPATH'] = repo
    env['PYTHONHASHSEED'] = '0'
    env.pop('PYTHONWARNINGS', None)
    if extra_env:
        env.update(extra_env)
    scratch = '/var/tmp'
    try:
        p = subprocess.run([VENV_PY, '-W', 'ignore', '-c', prog], capture_output=True, text=True,
                           timeout=timeout, env=env, cwd=scratch)
    except subprocess.TimeoutExpired:
        return {'ok': None, 'detail': 'timeout after %ss' % timeout, 'exc': 'Timeout'}
    out = p.stdout
    i = out.rfind('@@RESULT@@')
    if i < 0:
        return {'ok': None, 'detail': (out + p.stderr)[-2000:], 'exc': 'NoResult'}
    return json.loads(out[i + len('@@RESULT@@'):])


def run_bounded_script(script, args, repo=None, timeout=3600, env=None):
    """Run a bounded harness (bounded/<script>.py) under the pinned interpreter; it prints
    one JSON document on the last line starting with @@JSON@@."""
    repo = repo or REPO
    e = dict(os.environ)
    e['PYTHONPATH'] = repo + os.pathsep + VERIF
    e['PYTOUGH_REPO'] = repo
    e.setdefault('PYTHONHASHSEED', '0')
    if env:
        e.update(env)
    cmd = [VENV_PY, '-W', 'ignore', os.path.join(VERIF, 'bounded', script)] + [str(a) for a in args]
    # the harness's scratch files live in a directory of this call, removed whatever happens to the harness (a harness
    # killed at its time limit used to leave its files - up to 3 GB of perturbed listings - behind)
    import tempfile, shutil
    scratch = tempfile.mkdtemp(prefix='pytough-h-', dir='/var/tmp')
    e['PYTOUGH_SCRATCH'] = scratch
    try:
        p = subprocess.run(cmd, capture_output=True, text=True, timeout=timeout, env=e, cwd='/var/tmp')
    except subprocess.TimeoutExpired as ex:
        return {'error': 'timeout after %ss' % timeout, 'timeout': True}
    finally:
        shutil.rmtree(scratch, ignore_errors=True)
    i = p.stdout.rfind('@@JSON@@')
    if i < 0:
        return {'error': 'no result', 'stdout': p.stdout[-1500:], 'stderr': p.stderr[-3000:], 'rc': p.returncode}
    try:
        return json.loads(p.stdout[i + 8:])
    except Exception as ex:
        return {'error': 'bad json: %r' % ex, 'stdout': p.stdout[-1500:]}


# ----------------------------------------------------------------------------------------
# running obligation programs in a process pool


def _run_program(modname, progname, repo, timeout_ms, arg):
    import importlib
    sys.path.insert(0, VERIF)
    from pyvc.engine import Engine, BudgetExceeded
    from pyvc.values import Unsupported
    mod = importlib.import_module(modname)
    fn = getattr(mod, progname)
    if getattr(fn, 'plain', False):
        # a plain obligation function (symx / nlsat): returns a list of obligation dicts
        t0 = time.time()
        try:
            obs = fn(repo, arg, timeout_ms)
            err = None
        except Exception as e:
            obs, err = [], 'engine error: %s\n%s' % (repr(e), traceback.format_exc()[-1500:])
        for o in obs:
            o.setdefault('detail', ''); o.setdefault('model', None); o.setdefault('seconds', 0.0)
            o.setdefault('backend', 'sympy'); o.setdefault('paths', 1)
        return {'program': progname, 'arg': arg, 'obligations': obs, 'error': err, 'paths': 1,
                'wall': time.time() - t0, 'assumptions': [], 'solver_seconds': sum(o['seconds'] for o in obs)}
    eng = Engine(repo, timeout_ms=timeout_ms, extra_paths=[os.path.join(VERIF, 'contracts')])
    t0 = time.time()
    err = None
    try:
        if arg is None:
            fn(eng)
        else:
            fn(eng, arg)
    except BudgetExceeded as e:
        err = 'budget: %s' % e
    except Unsupported as e:
        err = 'unsupported: %s' % e
    except Exception as e:
        err = 'engine error: %s\n%s' % (repr(e), traceback.format_exc()[-1500:])
    obs = []
    for ob in eng.obligations.values():
        obs.append({'name': ob.name, 'status': ob.status or 'undecided', 'detail': ob.detail,
                    'model': ob.model, 'seconds': ob.seconds, 'backend': ob.backend, 'paths': ob.paths})
    return {'program': progname, 'arg': arg, 'obligations': obs, 'error': err, 'paths': eng.npaths,
            'wall': time.time() - t0, 'assumptions': sorted(eng.assumptions_used),
            'solver_seconds': eng.solver_seconds}


def _child(conn, modname, pn, repo, timeout_ms, arg):
    try:
        r = _run_program(modname, pn, repo, timeout_ms, arg)
    except BaseException as e:
        r = {'program': pn, 'arg': arg, 'obligations': [], 'error': 'worker crashed: %r' % e, 'paths': 0, 'wall': 0, 'assumptions': [], 'solver_seconds': 0}
    try:
        conn.send(r)
    finally:
        conn.close()


def run_programs(modname, programs, repo=None, timeout_ms=10000, workers=None, wall_s=None):
    """programs: list of (progname, arg).  Returns list of result dicts (same order).  One process per program,
    at most `workers` at a time; a program that exceeds its wall-clock budget is killed and reported as undecided
    (never as a violation): solver time limits are not always honoured on nonlinear queries."""
    repo = repo or REPO
    workers = workers or WORKERS
    wall_s = wall_s or max(600, int(timeout_ms / 1000.0 * 25))
    results = [None] * len(programs)
    import multiprocessing
    ctx = multiprocessing.get_context('fork')
    pending = list(enumerate(programs))
    running = []
    while pending or running:
        while pending and len(running) < workers:
            i, (pn, arg) = pending.pop(0)
            rd, wr = ctx.Pipe(duplex=False)
            pr = ctx.Process(target=_child, args=(wr, modname, pn, repo, timeout_ms, arg))
            pr.start()
            wr.close()
            running.append((i, pr, rd, time.time()))
        still = []
        for (i, pr, rd, t0) in running:
            done = False
            try:
                if rd.poll(0):
                    results[i] = rd.recv()
                    done = True
            except (EOFError, OSError):
                results[i] = {'program': programs[i][0], 'arg': programs[i][1], 'obligations': [], 'error': 'worker died without a result (exit code %s)' % pr.exitcode,
                              'paths': 0, 'wall': time.time() - t0, 'assumptions': [], 'solver_seconds': 0}
                done = True
            if not done and not pr.is_alive() and not rd.poll(0):
                results[i] = {'program': programs[i][0], 'arg': programs[i][1], 'obligations': [], 'error': 'worker died without a result (exit code %s)' % pr.exitcode,
                              'paths': 0, 'wall': time.time() - t0, 'assumptions': [], 'solver_seconds': 0}
                done = True
            if not done and time.time() - t0 > wall_s:
                pr.kill()
                results[i] = {'program': programs[i][0], 'arg': programs[i][1], 'obligations': [], 'error': 'budget: wall clock %d s exceeded, program killed' % wall_s,
                              'paths': 0, 'wall': time.time() - t0, 'assumptions': [], 'solver_seconds': 0}
                done = True
            if done:
                pr.join(5)
                rd.close()
            else:
                still.append((i, pr, rd, t0))
        running = still
        if running:
            time.sleep(0.02)
    return results


def absorb(check, results, replayer=None, prefix=''):
    """Move obligation results of run_programs into the Check, replaying counterexamples
    natively.  replayer(obligation_name, model, result) -> python snippet (sets ok/detail)
    or None when the obligation has no input image."""
    for r in results:
        for a in r.get('assumptions', []):
            check.trust(a)
        if r['error'] and not r['obligations']:
            check.obligation(prefix + r['program'] + (('[%s]' % (r['arg'],)) if r['arg'] is not None else ''),
                             'undecided', detail=r['error'])
            continue
        for ob in r['obligations']:
            name = prefix + ob['name']
            status, detail = ob['status'], ob['detail']
            if r['error'] and status == 'discharged':
                # some path of the program was not explored to the end
                status, detail = 'undecided', 'program incomplete: ' + r['error']
            if status == 'failed':
                snippet = replayer(ob['name'], ob['model'], r) if replayer else None
                if snippet:
                    nat = run_native(snippet)
                    if nat['ok'] is False:
                        check.obligation(name, 'failed', ob['backend'], ob['seconds'], detail, ob['model'], paths=ob['paths'])
                        check.violation(name, 'contract fails on the real code: %s %s' % (json.dumps(ob['model'], default=str)[:300], nat['detail'][:300]),
                                        key=name + ' ' + json.dumps(ob['model'], sort_keys=True, default=str)[:200],
                                        replay={'snippet': snippet, 'model': ob['model'], 'native': nat},
                                        found_input=True, solver_output=detail)
                        continue
                    if nat['ok'] is True:
                        check.obligation(name, 'undecided', ob['backend'], ob['seconds'],
                                         'spurious counterexample (holds natively): %s' % json.dumps(ob['model'], default=str)[:200],
                                         ob['model'], paths=ob['paths'])
                        continue
                    check.obligation(name, 'undecided', ob['backend'], ob['seconds'],
                                     'replay inconclusive: %s' % (nat.get('exc') or nat['detail'])[:300], ob['model'], paths=ob['paths'])
                    continue
                check.obligation(name, 'failed', ob['backend'], ob['seconds'], detail, ob['model'], paths=ob['paths'])
                check.violation(name, 'obligation refuted by the solver: %s' % json.dumps(ob['model'], default=str)[:400],
                                key=name, replay={'model': ob['model'], 'obligation': name},
                                found_input=False, solver_output=detail)
                continue
            check.obligation(name, status, ob['backend'], ob['seconds'], detail, None, paths=ob['paths'])
