"""C18 bounded stand-in: g -> t2grid().fromgeo(g) -> grid.rectgeo() -> (g2, blockmap) -> fromgeo(g2, blockmap),
in memory and after a data-file round trip (standard and extra-precision files), evaluated on the real library
over generated rectangular geometries.

Oracle (independent of the code under test): the geometry is described by the generated numbers (spacings, origin,
rotation angle, surfaces); expected node / column / layer positions are computed here with plain trigonometry,
never taken from the reconstructed objects.  The regenerated grid is compared with the grid rectgeo() was given.

usage: c18_rectgeo.py <tier> <seed>
"""
import sys, os
if os.environ.get('PYTHONHASHSEED') is None:
    # rectgeo iterates over sets of name tuples: pin the hash seed so that the output is a function of <seed>
    _seed = sys.argv[2] if len(sys.argv) > 2 else '0'
    env = dict(os.environ); env['PYTHONHASHSEED'] = str(int(_seed) % 4294967295)
    os.execve(sys.executable, [sys.executable, '-W', 'ignore'] + sys.argv, env)
import json, time, random, math, signal, shutil, tempfile, traceback
import warnings
warnings.filterwarnings('ignore')
sys.path.insert(0, os.environ.get('PYTOUGH_REPO', '/repo'))
import numpy as np
from mulgrids import *
from t2grids import *
from t2data import *
import multiprocessing as mp

tier = sys.argv[1] if len(sys.argv) > 1 else 'quick'
seed = int(sys.argv[2]) if len(sys.argv) > 2 else 0
NCASES = {'quick': 400, 'thorough': 4000}.get(tier, 400)
CASE_TIMEOUT = 120
SNAPS = (0.1, 1.e-3)
BIG = 1.e50


SCRATCH = ['/var/tmp']      # main() puts its own scratch directory here (inherited by the forked workers)


class CaseTimeout(Exception):
    pass


def _alarm(signum, frame):
    raise CaseTimeout()


# --------------------------------------------------------------------------------------------------
# case generation (pure numbers, JSON-able)

def logu(rnd, lo, hi):
    return math.exp(rnd.uniform(math.log(lo), math.log(hi)))


def spacing_list(rnd, n, lo, hi):
    style = rnd.choice(['uniform', 'random', 'random', 'geometric'])
    if style == 'uniform':
        return [round(logu(rnd, lo, hi), 3)] * n
    if style == 'geometric':
        a, r = logu(rnd, lo, math.sqrt(lo * hi)), rnd.uniform(1.05, 1.5)
        return [min(hi, a * r ** i) for i in range(n)]
    return [logu(rnd, lo, hi) for _ in range(n)]


def gen_case(rnd, idx):
    small = rnd.random() < 0.4
    hi_xy, hi_z = (4, 5) if small else (12, 14)
    nx, ny = rnd.randint(1, hi_xy), rnd.randint(1, hi_xy)
    if nx == 1 and ny == 1:
        if rnd.random() < 0.5: nx = rnd.randint(2, hi_xy)
        else: ny = rnd.randint(2, hi_xy)
    # make sure both kinds of 2-D grid are exercised regularly
    if idx % 10 == 3: nx, ny = 1, max(ny, 2)
    if idx % 10 == 7: nx, ny = max(nx, 2), 1
    nz = rnd.randint(2, hi_z)
    dx = spacing_list(rnd, nx, 0.5, 2000.)
    dy = spacing_list(rnd, ny, 0.5, 2000.)
    dz = spacing_list(rnd, nz, 1., 500.)
    if rnd.random() < 0.45:     # near the coordinate origin: the standard-precision file can carry such a model
        origin = [rnd.choice([0., rnd.uniform(-50., 50.)]), rnd.choice([0., rnd.uniform(-50., 50.)]),
                  rnd.choice([0., rnd.uniform(-20., 20.)])]
    else:
        origin = [rnd.choice([0., round(rnd.uniform(-1.e4, 1.e4), 2), rnd.uniform(-3.e5, 3.e5), rnd.uniform(-5000, 5000)]),
                  rnd.choice([0., round(rnd.uniform(-1.e4, 1.e4), 2), rnd.uniform(-5000, 5000)]),
                  rnd.choice([0., round(rnd.uniform(-3000., 3000.), 1), rnd.uniform(-500., 500.)])]
    angle = rnd.choice([0., 30., 45., 90., -90., 180., rnd.uniform(-180., 180.), rnd.uniform(-180., 180.),
                        rnd.uniform(-180., 180.), rnd.uniform(-40., 40.)])
    aligned = True
    if abs(angle) <= 40. and rnd.random() < 0.3:
        aligned = False      # permeability axes left at 0: directions are still x -> 1, y -> 2
    atm = rnd.choice([0, 1, 2])
    conv, rconv = rnd.randint(0, 3), rnd.randint(0, 3)
    if (nx + 1) * (ny + 1) > 99:       # convention 1 numbers columns and nodes with two digits
        conv, rconv = rnd.choice([0, 2, 3]), rnd.choice([0, 2, 3])
    snap = rnd.choice(SNAPS)
    ztop = [0.]
    for t in dz: ztop.append(ztop[-1] - t)       # ztop[m] = top of underground layer m, ztop[nz] = bottom
    ncol = nx * ny
    mode = rnd.choice(['flat', 'flat', 'stepped', 'stepped', 'sloping', 'sloping', 'above', 'thin'])
    surf = None
    if mode == 'stepped':
        surf = []
        base = rnd.randint(0, nz - 1)
        for k in range(ncol):
            m = min(nz - 1, max(0, base + rnd.choice([-2, -1, 0, 0, 1, 2])))
            surf.append(ztop[m])
    elif mode in ('sloping', 'above', 'thin'):
        # plane + noise, clipped to [top of bottom layer, top (+ a bit for 'above')]
        xc = np.cumsum([0.] + dx); yc = np.cumsum([0.] + dy)
        gx, gy = rnd.uniform(-1, 1), rnd.uniform(-1, 1)
        depth = -ztop[nz - 1]
        surf = []
        for j in range(ny):
            for i in range(nx):
                fx = (i + 0.5) / nx; fy = (j + 0.5) / ny
                s = -depth * min(1., max(0., 0.5 + 0.5 * (gx * (fx - 0.5) + gy * (fy - 0.5)) + rnd.uniform(-0.2, 0.2)))
                if mode == 'above' and rnd.random() < 0.5:
                    s = rnd.uniform(0.05, 2.) * dz[0]
                    surf.append(s); continue
                # layer holding s
                m = max(mm for mm in range(nz) if ztop[mm] >= s) if s < 0 else 0
                if s <= ztop[nz - 1]: m = nz - 1
                top, bot = ztop[m], ztop[m + 1]
                if mode == 'thin' and rnd.random() < 0.5 and m < nz - 1:
                    s = bot + rnd.uniform(0.05, 0.9) * snap           # surface block thinner than layer_snap
                else:
                    s = bot + rnd.uniform(0.35, 1.0) * (top - bot)    # at least 0.35 m (> 3 * layer_snap) thick
                    if m == nz - 1: s = top                          # the bottom layer stays complete
                surf.append(s)
        if mode == 'thin' and not any(is_thin(s, ztop, snap) for s in surf): mode = 'sloping'
    # what the grid can tell about the top of the model: 'full' = some column fills the top layer; 'partial' = the
    # highest column ends inside the top layer; 'missing' = whole layers at the top hold no block at all
    if surf is not None and max(surf) < 0. and rnd.random() < 0.93:
        surf[rnd.randrange(ncol)] = 0.
    top = 'full' if surf is None or max(surf) >= 0. else ('partial' if max(surf) > ztop[1] else 'missing')
    bcs = ['none'] * 5 + ['bottom-huge', 'bottom-huge', 'side-max-huge', 'side-max-zero', 'side-min-huge']
    if atm == 2: bcs += ['top-huge', 'top-zero', 'top1-huge']
    bc = rnd.choice(bcs)
    # some column consists of the bottom layer only (its surface is the top of the bottom layer)
    onelayer = surf is not None and any(s <= ztop[nz - 1] for s in surf)
    return dict(case=idx, onelayer=onelayer, nx=nx, ny=ny, nz=nz, dx=dx, dy=dy, dz=dz, origin=origin, angle=angle, aligned=aligned,
                atmos_type=atm, convention=conv, rectgeo_convention=rconv, layer_snap=snap, surface_mode=mode,
                surface=surf, top=top, bc=bc, bc_dirn=rnd.choice([1, 2]), bc_centres=rnd.random() < 0.5,
                remove_inactive=rnd.random() < 0.5, give_origin_block=rnd.random() < 0.2)


def is_thin(s, ztop, snap):
    for m in range(len(ztop) - 1):
        if ztop[m + 1] < s <= ztop[m]:
            return s - ztop[m + 1] < snap
    return False


# --------------------------------------------------------------------------------------------------
# own geometry formulas

class Layout(object):
    """Expected positions of everything, from the generated numbers alone."""
    def __init__(self, p):
        self.p = p
        a = math.radians(p['angle'])
        ca, sa = math.cos(a), math.sin(a)
        ox, oy, oz = p['origin']
        self.tr = lambda x, y: (x * ca + y * sa + ox, -x * sa + y * ca + oy)     # clockwise by angle, then shift
        self.xv = [0.]
        for d in p['dx']: self.xv.append(self.xv[-1] + d)
        self.yv = [0.]
        for d in p['dy']: self.yv.append(self.yv[-1] + d)
        self.ztop = [oz]
        for d in p['dz']: self.ztop.append(self.ztop[-1] - d)
        nx, ny = p['nx'], p['ny']
        self.cols = []        # (i, j, centre, corner list, area, surface)
        for j in range(ny):
            for i in range(nx):
                k = j * nx + i
                c = self.tr(0.5 * (self.xv[i] + self.xv[i + 1]), 0.5 * (self.yv[j] + self.yv[j + 1]))
                corners = [self.tr(self.xv[i + di], self.yv[j + dj]) for di, dj in ((0, 0), (0, 1), (1, 1), (1, 0))]
                s = oz + (p['surface'][k] if p['surface'] is not None else 0.)
                self.cols.append(dict(i=i, j=j, centre=c, corners=corners, area=p['dx'][i] * p['dy'][j], surface=s))
        self.maxabs_xy = max(max(abs(c[0]), abs(c[1])) for col in self.cols for c in col['corners'])
        self.maxabs_z = max(abs(z) for z in self.ztop + [col['surface'] for col in self.cols])
        self.Lx, self.Ly, self.H = self.xv[-1], self.yv[-1], self.ztop[0] - self.ztop[-1]
        self.D = math.hypot(self.Lx, self.Ly)

    def nlayers_of(self, s):
        return len([m for m in range(self.p['nz']) if self.ztop[m + 1] < s])

    def thin(self, col):
        s = col['surface']
        for m in range(self.p['nz']):
            if self.ztop[m + 1] < s <= self.ztop[m]:
                return s - self.ztop[m + 1] < self.p['layer_snap'] and m < self.p['nz'] - 1
        return False

    def min_surface_block(self):
        """Smallest thickness of a (non-thin) surface block."""
        out = 1.e99
        for col in self.cols:
            if self.thin(col): continue
            s = col['surface']
            for m in range(self.p['nz']):
                if self.ztop[m + 1] < s and (s <= self.ztop[m] or m == 0):
                    out = min(out, min(s, self.ztop[m]) - self.ztop[m + 1])
        return out


def tolerances(L, eps_c, eps_v):
    """Bounds on what the reconstruction can differ by when block centres carry a relative error eps_c and
    volumes / distances / areas a relative error eps_v (field widths of the data file; ~1e-13 in memory)."""
    p = L.p
    floor = 1.e-9 * max(1., L.maxabs_xy, L.maxabs_z, L.D, L.H)
    e = eps_c * L.maxabs_xy
    # the orientation is recovered from the two ends of the direction-1 row through the origin block
    L1 = L.Lx - 0.5 * (p['dx'][0] + p['dx'][-1])
    dtheta = 0. if p['nx'] == 1 else min(1., 3. * e / L1)
    t = {}
    t['rel_spacing'] = 4. * eps_v + 1.e-9
    t['dtheta'] = dtheta
    t['xy'] = floor + 1.5 * e + dtheta * L.D + 4. * eps_v * L.D
    t['z'] = floor + eps_c * L.maxabs_z + 4. * eps_v * L.H
    maxh = max(max(p['dz']), max([0.] + [col['surface'] - L.ztop[1] for col in L.cols]))
    t['surface'] = floor + t['z'] + eps_c * L.maxabs_z + 4. * eps_v * maxh
    t['angle_deg'] = math.degrees(dtheta) + 1.e-7
    t['eps_v'] = eps_v
    t['eps_c'] = eps_c
    t['floor'] = floor
    return t


# --------------------------------------------------------------------------------------------------
# building the objects with the real library

def build_geometry(p):
    geo = mulgrid().rectangular(p['dx'], p['dy'], p['dz'], convention=p['convention'], atmos_type=p['atmos_type'])
    if p['surface'] is not None:
        for col, s in zip(geo.columnlist, p['surface']):
            col.surface = s
            geo.set_column_num_layers(col)
        geo.setup_block_name_index()
        geo.setup_block_connection_name_index()
    geo.rotate(p['angle'], np.zeros(2))
    if p['aligned']: geo.permeability_angle = -p['angle']
    geo.translate(np.array(p['origin']))
    return geo


def add_boundary_blocks(p, geo, grid):
    """Inactive boundary blocks (huge or zero volume) the way a modeller attaches them; returns their names."""
    bc = p['bc']
    if bc == 'none': return []
    vol = 0. if bc.endswith('zero') else BIG
    rock = grid.rocktypelist[0]
    names = []
    nx, ny = p['nx'], p['ny']

    def newblock(k, centre):
        name = 'Z%s%s%2d' % ('ABCDEFGHIJ'[(k // 990) % 10], 'ABCDEFGHIJ'[(k // 99) % 10], k % 99 + 1)
        grid.add_block(t2block(name, vol, rock, centre=centre))
        names.append(name)
        return grid.block[name]

    layers = geo.layerlist[1:]
    if bc.startswith('top'):
        single = bc.startswith('top1')
        shared = newblock(0, None) if single else None
        for k, col in enumerate(geo.columnlist):
            lay = geo.column_surface_layer(col)
            blk = grid.block[geo.block_name(lay.name, col.name)]
            if single: b = shared
            else:
                c = np.array(list(col.centre) + [max(col.surface, geo.layerlist[0].bottom) + 1.]) if p['bc_centres'] else None
                b = newblock(k, c)
            grid.add_connection(t2connection([blk, b], 3, [col.surface - blk.centre[2], 1.e-6], col.area, -1.))
    elif bc.startswith('bottom'):
        b = newblock(0, None)
        lay = layers[-1]
        for col in geo.columnlist:
            blk = grid.block[geo.block_name(lay.name, col.name)]
            grid.add_connection(t2connection([b, blk], 3, [1.e-6, 0.5 * lay.thickness], col.area, 1.))
    elif bc.startswith('side'):
        dirn = p['bc_dirn']
        if dirn == 1 and nx == 1: dirn = 2
        if dirn == 2 and ny == 1: dirn = 1
        atmax = 'max' in bc
        b = newblock(0, None)
        if dirn == 1:
            i = nx - 1 if atmax else 0
            ks = [(j * nx + i, p['dx'][i], p['dy'][j]) for j in range(ny)]
        else:
            j = ny - 1 if atmax else 0
            ks = [(j * nx + i, p['dy'][j], p['dx'][i]) for i in range(nx)]
        for k, along, across in ks:
            col = geo.columnlist[k]
            for lay in layers:
                if col.surface > lay.bottom:
                    blk = grid.block[geo.block_name(lay.name, col.name)]
                    h = geo.block_surface(lay, col) - lay.bottom
                    grid.add_connection(t2connection([blk, b], dirn, [0.5 * along, 1.e-6], across * h, 0.))
    return names


def file_round_trip(grid, tmpdir, tag, extra):
    dat = t2data()
    dat.title = 'C18 ' + tag
    dat.grid = grid
    fn = os.path.join(tmpdir, tag + '.dat')
    if extra:
        dat.simulator = 'AUTOUGH2.2'
        dat.write(fn, extra_precision=['ROCKS', 'ELEME', 'CONNE'], echo_extra_precision=False)
    else:
        dat.write(fn)
    back = t2data(fn)
    return back.grid


# --------------------------------------------------------------------------------------------------
# contracts

def close(a, b, tol):
    return abs(a - b) <= tol


def match_columns(L, geo, tol):
    """Pairs each expected column with the geometry column whose centre is within tol (own brute force)."""
    pairs, problems = {}, []
    used = set()
    for k, ec in enumerate(L.cols):
        best, bestd = None, None
        for c in geo.columnlist:
            d = math.hypot(c.centre[0] - ec['centre'][0], c.centre[1] - ec['centre'][1])
            if bestd is None or d < bestd: best, bestd = c, d
        if bestd is None or not (bestd <= tol) or best.name in used:
            problems.append((k, None if bestd is None else float(bestd)))
        else:
            pairs[k] = best; used.add(best.name)
    return pairs, problems


def contract_spacings(L, geo, tol):
    """same block spacings in all three directions (counts, every column's side lengths, every layer thickness)"""
    p = L.p
    if geo.num_columns != p['nx'] * p['ny']:
        return False, '%d columns, expected %d x %d' % (geo.num_columns, p['nx'], p['ny'])
    if geo.num_layers != p['nz'] + 1:
        return False, '%d layers, expected %d + atmosphere' % (geo.num_layers, p['nz'])
    rel = tol['rel_spacing']
    if any(not np.all(np.isfinite(n.pos)) for n in geo.nodelist) or any(not np.all(np.isfinite(c.centre)) for c in geo.columnlist):
        return False, 'NAN: node / column positions of the reconstructed geometry are not finite, e.g. %r' % ([float(v) for v in geo.nodelist[0].pos],)
    for m, lay in enumerate(geo.layerlist[1:]):
        th = lay.top - lay.bottom
        if not (abs(th - p['dz'][m]) <= rel * p['dz'][m]):
            return False, 'layer %d thickness %r, expected %r' % (m, float(th), p['dz'][m])
    # sides of each column polygon, in index order (rectangular() numbers columns x-fastest)
    for k, col in enumerate(geo.columnlist):
        ec = L.cols[k]
        want = sorted([p['dx'][ec['i']], p['dy'][ec['j']]] * 2)
        pts = [n.pos for n in col.node]
        if len(pts) != 4: return False, 'column %d has %d nodes' % (k, len(pts))
        got = sorted(float(np.linalg.norm(pts[q] - pts[(q + 1) % 4])) for q in range(4))
        if not all(abs(g - w) <= rel * w for g, w in zip(got, want)):
            return False, 'column %d sides %r, expected %r' % (k, got, want)
    return True, ''


def contract_position(L, geo, tol, check_angle):
    """same position and orientation (every column centre and corner, every layer elevation, permeability angle)"""
    pairs, problems = match_columns(L, geo, tol['xy'])
    if problems:
        k, d = problems[0]
        c = geo.columnlist[k].centre if k < geo.num_columns else None
        return False, 'no column at expected centre %r (column %d of the original): nearest is %r away (tolerance %.3g); ' \
            'column %d of the reconstruction is at %r' % (L.cols[k]['centre'], k, d, tol['xy'], k, None if c is None else [float(v) for v in c]), pairs
    for k, col in pairs.items():
        for ex in L.cols[k]['corners']:
            if not any(math.hypot(n.pos[0] - ex[0], n.pos[1] - ex[1]) <= tol['xy'] for n in col.node):
                return False, 'column %d has no corner at %r: %r' % (k, ex, [[float(v) for v in n.pos] for n in col.node]), pairs
    for m, lay in enumerate(geo.layerlist[1:]):
        if not (close(lay.top, L.ztop[m], tol['z']) and close(lay.bottom, L.ztop[m + 1], tol['z'])):
            return False, 'layer %d spans [%r, %r], expected [%r, %r]' % (m, float(lay.bottom), float(lay.top), L.ztop[m + 1], L.ztop[m]), pairs
    if check_angle:
        want = -L.p['angle']
        d = (geo.permeability_angle - want + 180.) % 360. - 180.
        if not (abs(d) <= tol['angle_deg']):
            return False, 'permeability_angle %r, expected %r (mod 360)' % (float(geo.permeability_angle), want), pairs
    return True, '', pairs


def contract_surface(L, geo, pairs, tol, snap):
    """same column surface elevations (and the same number of layers in each column)"""
    for k, col in pairs.items():
        ec = L.cols[k]
        s = col.surface
        if s is None: return False, 'column %d has no surface' % k
        if L.thin(ec):
            if not (abs(s - ec['surface']) <= snap + tol['surface']):
                return False, 'column %d (surface block thinner than layer_snap) surface %r, expected within layer_snap=%g of %r' % (k, float(s), snap, ec['surface'])
            continue
        # surfaces above the top of the model are kept; at or below it they must agree
        if not (abs(s - ec['surface']) <= tol['surface']):
            return False, 'column %d surface %r, expected %r (tolerance %.3g)' % (k, float(s), ec['surface'], tol['surface'])
        nl = L.nlayers_of(ec['surface'])
        if col.num_layers != nl:
            return False, 'column %d has %d layers, expected %d (surface %r)' % (k, col.num_layers, nl, float(s))
    return True, ''


def contract_atmosphere(L, geo0, geo, blockmap, pairs, grid, bcnames):
    """same atmosphere arrangement, and the atmosphere blocks are mapped onto the grid's atmosphere blocks"""
    atm = L.p['atmos_type']
    if geo.atmosphere_type != atm:
        return False, 'atmosphere_type %r, expected %r' % (geo.atmosphere_type, atm)
    want = {0: 1, 1: L.p['nx'] * L.p['ny'], 2: 0}[atm]
    if geo.num_atmosphere_blocks != want:
        return False, '%d atmosphere blocks, expected %d' % (geo.num_atmosphere_blocks, want)
    eff = lambda n: blockmap.get(n, n)
    if atm == 0:
        got = eff(geo.block_name_list[0]); exp = geo0.block_name_list[0]
        if got != exp: return False, 'atmosphere block maps to %r, expected %r' % (got, exp)
    elif atm == 1:
        for k, col in pairs.items():
            got = eff(geo.block_name(geo.layerlist[0].name, col.name))
            exp = geo0.block_name(geo0.layerlist[0].name, geo0.columnlist[k].name)
            if got != exp: return False, 'atmosphere block over column %d maps to %r, expected %r' % (k, got, exp)
    return True, ''


def contract_blockmap(geo, blockmap, grid, bcnames, thin):
    """the block map sends the reconstructed geometry's blocks one-to-one onto the grid's (non-boundary) blocks"""
    names = geo.block_name_list
    extra = [k for k in blockmap if k not in set(names)]
    if extra: return False, 'map has keys that are not blocks of the geometry: %r' % extra[:3]
    img = [blockmap.get(n, n) for n in names]
    missing = [(n, m) for n, m in zip(names, img) if m not in grid.block]
    if missing: return False, 'geometry block %r maps to %r which is not in the grid' % missing[0]
    if len(set(img)) != len(img): return False, 'map is not one-to-one'
    hit_bc = [m for m in img if m in bcnames]
    if hit_bc: return False, 'geometry blocks map onto boundary blocks %r' % hit_bc[:3]
    if not thin:
        rest = set(b.name for b in grid.blocklist) - set(bcnames) - set(img)
        if rest: return False, 'grid blocks with no geometry block: %r' % sorted(rest)[:3]
    return True, ''


def contract_regenerate(L, geo, blockmap, grid, bcnames, tol):
    """fromgeo(reconstructed geometry, map) reproduces the grid's block names, volumes, centres and connections"""
    grid2 = t2grid().fromgeo(geo, blockmap)
    bc = set(bcnames)
    n1 = set(b.name for b in grid.blocklist) - bc
    n2 = set(b.name for b in grid2.blocklist)
    if n1 != n2:
        return False, 'block names differ: only in original %r, only in regenerated %r' % (sorted(n1 - n2)[:3], sorted(n2 - n1)[:3])
    ev, dsz = tol['eps_v'], 2. * (tol['surface'] + tol['z'])
    hmin = min(L.p['dz'] + [L.min_surface_block()])
    for b in grid.blocklist:
        if b.name in bc: continue
        b2 = grid2.block[b.name]
        tv = 8. * ev * abs(b.volume) + 1.e-9 * abs(b.volume)
        if 0 < b.volume < 1.e25:
            # height error of a surface block times its area (area <= volume / smallest block height)
            tv += dsz * b.volume / hmin
        if not (abs(b.volume - b2.volume) <= tv):
            return False, 'block %r volume %r, original %r' % (b.name, float(b2.volume), float(b.volume))
        if (b.centre is None) != (b2.centre is None):
            return False, 'block %r centre %r, original %r' % (b.name, b2.centre, b.centre)
        if b.centre is not None:
            dxy = math.hypot(b.centre[0] - b2.centre[0], b.centre[1] - b2.centre[1])
            if not (dxy <= 2. * tol['xy'] and abs(b.centre[2] - b2.centre[2]) <= dsz + tol['z']):
                return False, 'block %r centre %r, original %r' % (b.name, [float(v) for v in b2.centre], [float(v) for v in b.centre])
    c1 = {}
    for c in grid.connectionlist:
        a, b = c.block[0].name, c.block[1].name
        if a in bc or b in bc: continue
        c1[frozenset((a, b))] = c
    c2 = {}
    for c in grid2.connectionlist:
        c2[frozenset((c.block[0].name, c.block[1].name))] = c
    if len(c2) != len(grid2.connectionlist): return False, 'regenerated grid has duplicate connections'
    if set(c1) != set(c2):
        return False, 'connections differ: only in original %r, only in regenerated %r' % (
            [sorted(x) for x in list(set(c1) - set(c2))[:2]], [sorted(x) for x in list(set(c2) - set(c1))[:2]])
    for key, c in c1.items():
        d = c2[key]
        same = c.block[0].name == d.block[0].name
        nm = sorted(key)
        if c.direction != d.direction:
            return False, 'connection %r direction %r, original %r' % (nm, d.direction, c.direction)
        dd = list(d.distance) if same else list(d.distance)[::-1]
        for x, y in zip(c.distance, dd):
            t = 4. * ev * abs(x) + 1.e-9 * abs(x) + (dsz if c.direction == 3 else 0.)
            if not (abs(x - y) <= t):
                return False, 'connection %r distances %r, original %r' % (nm, [float(v) for v in dd], [float(v) for v in c.distance])
        ta = 8. * ev * abs(c.area) + 1.e-9 * abs(c.area)
        if c.direction != 3: ta += dsz * c.area / hmin
        if not (abs(c.area - d.area) <= ta):
            return False, 'connection %r area %r, original %r' % (nm, float(d.area), float(c.area))
        dc = d.dircos if same else -d.dircos       # the gravity cosine changes sign with the block order
        # a horizontal connection between blocks of different height has a small cosine (file field: %10.7f)
        tdc = (1.e-9 if tol['eps_c'] < 1.e-12 else 2.e-7) + 4. * (dsz + tol['z']) / max(1e-300, sum(c.distance))
        ok = abs(c.dircos - dc) <= tdc
        if not ok:
            return False, 'connection %r dircos %r (blocks %s), original %r' % (nm, float(d.dircos), 'same order' if same else 'reversed', float(c.dircos))
    return True, ''


def contract_forward(L, geo, tol):
    """sanity of the forward constructor against the same own formulas (rectangular / rotate / translate)"""
    ok, what = contract_spacings(L, geo, tol)
    if not ok: return ok, what
    ok, what, pairs = contract_position(L, geo, tol, L.p['aligned'])
    if ok and any(pairs[k] is not geo.columnlist[k] for k in pairs): return False, 'columns not in x-fastest order'
    return ok, what


# --------------------------------------------------------------------------------------------------

CONTRACTS = ['forward', 'spacings', 'position', 'surface', 'atmosphere', 'blockmap', 'regenerate', 'no-exception']


def tags(p):
    two_d = 'x' if p['nx'] == 1 else ('y' if p['ny'] == 1 else 'no')
    bc = p['bc']
    if bc.startswith('side'):
        bc += '/dir%d' % (2 if p['nx'] == 1 else (1 if p['ny'] == 1 else p['bc_dirn']))
    return 'nx=%d ny=%d nz=%d single=%s atm=%d conv=%d rconv=%d surf=%s top=%s onelayer=%s bc=%s aligned=%s angle=%.6g case=%d' % (
        p['nx'], p['ny'], p['nz'], two_d, p['atmos_type'], p['convention'], p['rectgeo_convention'], p['surface_mode'],
        p['top'], 'y' if p['onelayer'] else 'n', bc, 'y' if p['aligned'] else 'n', p['angle'], p['case'])


def run_case(p):
    """Returns (failures, evaluation counts per contract, descriptors, sample)."""
    fails, counts, desc = [], dict((c, 0) for c in CONTRACTS), []
    sample = None
    tmpdir = tempfile.mkdtemp(prefix='task-', dir=SCRATCH[0])
    signal.signal(signal.SIGALRM, _alarm)
    signal.alarm(CASE_TIMEOUT)
    stage = 'setup'

    def fail(cat, st, what):
        inp = dict(p); inp['stage'] = st
        fails.append({'key': '%s %s %s' % (cat, st, tags(p)), 'what': what, 'input': inp})

    try:
        L = Layout(p)
        geo0 = build_geometry(p)
        # in memory: rounding only - cancellation makes a spacing recovered from coordinates of size M uncertain by ulp(M)
        ulp = 2.3e-16
        tmem = tolerances(L, 1.e-13, 1.e-13 + 50. * ulp * max(L.maxabs_xy / min(p['dx'] + p['dy']), L.maxabs_z / min(p['dz'])))
        counts['forward'] += 1
        ok, what = contract_forward(L, geo0, tmem)
        if not ok: fail('forward-geometry', 'mem', what)
        grid0 = t2grid().fromgeo(geo0)
        bcnames = add_boundary_blocks(p, geo0, grid0)
        thin_any = any(L.thin(c) for c in L.cols)
        msb = L.min_surface_block()
        stages = [('mem', grid0, tmem, p['layer_snap'])]
        # files: tolerances from the field widths (%10.3e centres, %10.4e volumes / distances / areas; %15.8e extra precision)
        for st, ec, ev, extra in (('xfile', 5.1e-9, 5.1e-9, True), ('file', 5.1e-4, 5.1e-5, False)):
            tf = tolerances(L, ec, ev)
            need = 2. * (tf['surface'] + tf['z'])
            snap = max(p['layer_snap'], 2. * need)
            # the file's precision must be able to carry the model: orientation recoverable, and surface blocks
            # thick enough to be told from rounding noise
            if tf['xy'] < 0.2 * min(p['dx'] + p['dy']) and msb > snap + 2. * need and not (thin_any and snap > p['layer_snap']):
                stages.append((st, None, tf, snap))
                desc.append((st,))
        for st, grid, tol, snap in stages:
            stage = st
            try:
                if grid is None:
                    grid = file_round_trip(grid0, tmpdir, st, st == 'xfile')
                kw = dict(atmos_type=p['atmos_type'], convention=p['rectgeo_convention'], layer_snap=snap,
                          remove_inactive=p['remove_inactive'])
                if p['give_origin_block']:
                    kw['origin_block'] = geo0.block_name(geo0.layerlist[-1].name, geo0.columnlist[0].name)
                counts['no-exception'] += 1
                counts['stage:' + st] = counts.get('stage:' + st, 0) + 1
                geo1, bmap = grid.rectgeo(**kw)
            except CaseTimeout:
                raise
            except Exception as e:
                tb = traceback.extract_tb(sys.exc_info()[2])[-1]
                fail('exception', st, 'rectgeo / file round trip raised %s: %s (%s:%d %s)' % (
                    type(e).__name__, e, os.path.basename(tb.filename), tb.lineno, tb.name))
                continue
            counts['spacings'] += 1
            ok, what = contract_spacings(L, geo1, tol)
            if not ok:
                fail('nan-position' if what.startswith('NAN') else 'spacings', st, what); continue
            counts['position'] += 1
            ok, what, pairs = contract_position(L, geo1, tol, p['aligned'])
            if not ok:
                fail('position', st, what); continue
            counts['surface'] += 1
            ok, what = contract_surface(L, geo1, pairs, tol, snap)
            sok = ok
            if not ok: fail('surface', st, what)
            counts['atmosphere'] += 1
            ok, what = contract_atmosphere(L, geo0, geo1, bmap, pairs, grid, bcnames)
            if not ok: fail('atmosphere', st, what)
            counts['blockmap'] += 1
            ok, what = contract_blockmap(geo1, bmap, grid, bcnames, thin_any)
            if not ok: fail('blockmap', st, what)
            if sok and not thin_any:
                counts['regenerate'] += 1
                try:
                    ok, what = contract_regenerate(L, geo1, bmap, grid, bcnames, tol)
                except CaseTimeout:
                    raise
                except Exception as e:
                    ok, what = False, 'fromgeo(reconstructed, map) raised %s: %s' % (type(e).__name__, e)
                if not ok: fail('regenerate', st, what)
            if st == 'mem':
                sample = {'case': tags(p), 'reconstructed_columns': geo1.num_columns, 'layers': geo1.num_layers - 1,
                          'blockmap_size': len(bmap), 'permeability_angle': float(geo1.permeability_angle),
                          'stages': [s[0] for s in stages]}
    except CaseTimeout:
        fail('timeout', stage, 'no result within %d s' % CASE_TIMEOUT)
    except Exception as e:
        fails.append({'key': 'harness-error %s %s' % (stage, tags(p)), 'what': traceback.format_exc()[-600:], 'input': p})
    finally:
        signal.alarm(0)
        shutil.rmtree(tmpdir, ignore_errors=True)
    desc.append((p['nx'], p['ny'], p['nz'], p['atmos_type'], p['convention'], p['rectgeo_convention'],
                 p['surface_mode'], p['bc'], p['aligned']))
    return fails, counts, desc, sample


class HarnessDeadline(Exception):
    pass


def _deadline(signum, frame):
    raise HarnessDeadline()


def _worker_init():
    # the parent's SIGTERM handler must not be inherited: Pool.terminate() relies on SIGTERM killing a worker outright
    signal.signal(signal.SIGTERM, signal.SIG_DFL)


def main():
    t0 = time.time()
    SCRATCH[0] = tempfile.mkdtemp(prefix='pytough-', dir=os.environ.get('PYTOUGH_SCRATCH', '/var/tmp'))
    signal.signal(signal.SIGTERM, lambda *a: sys.exit(1))      # so that the scratch directory goes even when killed
    rnd = random.Random(seed)
    cases = [gen_case(rnd, i) for i in range(NCASES)]
    nproc = min(16, os.cpu_count() or 1)
    failures, counts, distinct, samples = [], dict((c, 0) for c in CONTRACTS), set(), []
    pool = mp.Pool(nproc, initializer=_worker_init)
    signal.signal(signal.SIGALRM, _deadline)
    signal.alarm({'quick': 280, 'thorough': 870}.get(tier, 280))      # whatever happens, report within the budget
    hung = False
    try:
        for fails, cnt, desc, sample in pool.imap(run_case, cases, chunksize=1):
            failures.extend(fails)
            for k, v in cnt.items(): counts[k] = counts.get(k, 0) + v
            distinct.update(desc)
            if sample is not None and len(samples) < 4: samples.append(sample)
    except HarnessDeadline:
        failures.append({'key': 'timeout harness-deadline', 'what': 'the harness did not finish within its wall-clock budget; results are partial',
                         'input': {'tier': tier, 'seed': seed}})
    finally:
        signal.alarm(30)
        try:
            pool.terminate(); pool.join()
        except HarnessDeadline:
            hung = True
        finally:
            signal.alarm(0)
        shutil.rmtree(SCRATCH[0], ignore_errors=True)
    # at most 60 are printed: smallest reproduction of every class first, then the second smallest of every class, ...
    def klass(f):
        i = f['input']
        return (f['key'].split(' ')[0], i.get('stage'), 'x' if i.get('nx') == 1 else ('y' if i.get('ny') == 1 else 'no'),
                i.get('top'), i.get('onelayer'), i.get('bc'), i.get('atmos_type'), i.get('surface_mode') == 'thin')
    size = lambda f: (f['input'].get('nx', 0) * f['input'].get('ny', 0) * f['input'].get('nz', 0), f['key'])
    def plain(f):
        # inputs without any of the stress features (single block in x, one-layer columns, truncated top, side boundary
        # blocks) come first, so that a failure on an ordinary model is never crowded out of the 60 printed
        i = f['input']
        return not (i.get('nx') == 1 or i.get('onelayer') or i.get('top') != 'full' or str(i.get('bc')).startswith('side'))
    groups = {}
    for f in sorted(failures, key=size): groups.setdefault(klass(f), []).append(f)
    ordered, rank = [], 0
    while len(ordered) < len(failures):
        for k in sorted(groups, key=lambda k: (not plain(groups[k][0]),) + tuple(str(x) for x in k)):
            if rank < len(groups[k]): ordered.append(groups[k][rank])
        rank += 1
    failures = ordered
    stages = dict((k[6:], counts.pop(k)) for k in list(counts) if k.startswith('stage:'))
    out = {'evaluations': sum(counts.values()), 'stages': stages, 'distinct': len(distinct), 'failures': failures[:int(os.environ.get('C18_MAXFAIL', '60'))],
           'nfailures': len(failures), 'samples': samples, 'seconds': time.time() - t0, 'per_contract': counts,
           'failure_classes': len(groups)}
    print('@@JSON@@' + json.dumps(out))
    if hung:
        sys.stdout.flush(); os._exit(0)


if __name__ == '__main__':
    main()
