"""Native replay of C04 counterexamples: a real two-column geometry with the model's layer
elevations and surfaces is converted with the real t2grid.fromgeo and compared with the
formulas of the property statement.  Returns (ok, detail)."""
import numpy as np


def replay_geometry(z0, bottoms, centres, surfaces, atm):
    from mulgrids import mulgrid
    from t2grids import t2grid
    dz = []
    top = z0
    for b in bottoms:
        dz.append(top - b); top = b
    if any(d <= 0 for d in dz):
        return True, 'model elevations not realisable'
    geo = mulgrid().rectangular([10., 20.], [10.], dz, origin=[0., 0., z0], atmos_type=atm)
    for lay, c in zip(geo.layerlist[1:], centres):
        lay.centre = c
    for col, s in zip(geo.columnlist, surfaces):
        if s is not None:
            col.surface = s
            geo.set_column_num_layers(col)
    geo.setup_block_name_index(); geo.setup_block_connection_name_index()
    grid = t2grid().fromgeo(geo)
    gridtop = geo.layerlist[0].top
    problems = []
    def top_of(i, col):
        lay = geo.layerlist[i]
        s = col.surface
        if s <= lay.bottom: return None
        if s <= lay.top: return s
        if i == 1 and s > gridtop: return s
        return lay.top
    for i, lay in enumerate(geo.layerlist[1:], 1):
        for col in geo.columnlist:
            t = top_of(i, col)
            name = geo.block_name(lay.name, col.name)
            if t is None:
                if name in grid.block: problems.append('block %r exists above the surface' % name)
                continue
            if name not in grid.block:
                problems.append('block %r missing' % name); continue
            blk = grid.block[name]
            if abs(blk.volume - (t - lay.bottom) * col.area) > 1e-9 * abs(blk.volume) + 1e-12:
                problems.append('volume of %r is %r, expected %r' % (name, blk.volume, (t - lay.bottom) * col.area))
            zc = 0.5 * (lay.bottom + col.surface) if lay.bottom < col.surface <= lay.top else lay.centre
            if abs(blk.centre[2] - zc) > 1e-9 * (abs(zc) + 1):
                problems.append('centre of %r is %r, expected %r' % (name, blk.centre[2], zc))
    for con in grid.connectionlist:
        b0, b1 = con.block
        if con.direction == 3:
            if abs(con.dircos + 1) > 1e-12: problems.append('vertical dircos %r' % con.dircos)
            col = geo.column[geo.column_name(b0.name)]
            if abs(con.area - col.area) > 1e-9 * col.area: problems.append('vertical area %r vs column area %r' % (con.area, col.area))
            if b1.atmosphere:
                want = [col.surface - b0.centre[2], geo.atmosphere_connection]
                if abs(con.distance[0] - want[0]) > 1e-9 * (abs(want[0]) + 1) or abs(con.distance[1] - want[1]) > 1e-12:
                    problems.append('atmosphere connection %s distances %r, expected %r' % (con, list(con.distance), want))
            else:
                sep = b1.centre[2] - b0.centre[2]
                if abs(sum(con.distance) - sep) > 1e-9 * (abs(sep) + 1):
                    problems.append('vertical connection %s distances %r add to %r, centres are %r apart' % (con, list(con.distance), sum(con.distance), sep))
        else:
            lay = geo.layer[geo.layer_name(b0.name)]
            i = geo.layerlist.index(lay)
            hs = [top_of(i, geo.column[geo.column_name(b.name)]) - lay.bottom for b in con.block]
            if abs(con.area - 10. * min(hs)) > 1e-9 * (con.area + 1):
                problems.append('horizontal area %r, expected edge 10 x lower height %r' % (con.area, min(hs)))
            if abs(con.distance[0] - 5.) > 1e-9 or abs(con.distance[1] - 10.) > 1e-9:
                problems.append('horizontal distances %r, expected [5, 10]' % list(con.distance))
            d = b1.centre - b0.centre
            want = -d[2] / np.linalg.norm(d)
            if abs(con.dircos - want) > 1e-9:
                problems.append('horizontal dircos %r, expected %r' % (con.dircos, want))
    if [b.name for b in grid.blocklist] != geo.block_name_list:
        problems.append('grid blocks %r differ from the geometry block list %r' % ([b.name for b in grid.blocklist], geo.block_name_list))
    cn = [tuple(b.name for b in c.block) for c in grid.connectionlist]
    if cn != geo.block_connection_name_list:
        problems.append('grid connections %r differ from the geometry connection list %r' % (cn, geo.block_connection_name_list))
    return (not problems), '; '.join(problems[:4])
