"""C04 bounded stand-in: the postcondition of t2grid().fromgeo(geo, blockmap), evaluated on the real
library code against an independent geometric oracle written from the property statement (own
shoelace area, shared-edge length, perpendicular centre-to-edge distances, block tops / heights from
layer and surface data, gravity vector from the direction cosines).

Inputs: rectangular geometries with random spacings / origins, the shipped irregular geometries
tests/mulgrid/g1..g7.dat and partial refinements of them, rotated / translated, every atmosphere
type, naming convention, block order and a set of permeability angles, column surfaces anywhere
from just above the bottom of the bottom layer to above the top layer, with and without a block-name
mapping (renaming and permuting), a few tilted (GDCX/GDCY) geometries.

usage: c04_fromgeo.py <tier> <seed>
"""
import sys, os, json, time, math, random, signal
import multiprocessing as mp
import warnings
warnings.filterwarnings('ignore')
REPO = os.environ.get('PYTOUGH_REPO', '/repo')
sys.path.insert(0, REPO)
import numpy as np
from mulgrids import mulgrid
from t2grids import t2grid

RTOL = 1.e-9            # DESIGN.md: tolerance 1e-9 relative
CASE_TIMEOUT = 600      # seconds per case (alarm)
ATMCOL = ['ATM', ' 0', '  0', 'ATM']   # documented name of the single atmosphere "column" per convention
CONTRACTS = ['block_names_vs_geo', 'block_names_vs_oracle', 'connection_names_vs_geo',
             'connection_names_vs_oracle', 'block_volume', 'block_centre', 'block_atmosphere_flag',
             'total_volume', 'vconn_area', 'vconn_dircos', 'vconn_direction', 'vconn_dist_sum',
             'vconn_dist_split', 'vconn_atm_dist', 'hconn_area', 'hconn_dist', 'hconn_dircos',
             'hconn_direction', 'lookup_tables']

# ----------------------------------------------------------------------------------------------
# independent oracle (plain floats, no library calls)

def o_block_name(conv, layname, colname):
    if conv in (0, 3): nm = colname[0:3] + layname[0:2]
    elif conv == 1: nm = layname[0:3] + colname[0:2]
    else: nm = layname[0:2] + colname[0:3]
    # TOUGH2 reads names as (a3, i2): a blank 4th character between digits is written as '0'
    if nm[2].isdigit() and nm[4].isdigit() and nm[3] == ' ':
        nm = nm[0:3] + '0' + nm[4]
    return nm


def o_area(poly):
    """shoelace, on coordinates relative to the first vertex"""
    x0, y0 = poly[0]
    s = 0.0
    n = len(poly)
    for i in range(n):
        ax, ay = poly[i][0] - x0, poly[i][1] - y0
        bx, by = poly[(i + 1) % n][0] - x0, poly[(i + 1) % n][1] - y0
        s += ax * by - bx * ay
    return abs(s) / 2.0


def o_perp_dist(c, a, b):
    """distance from c to the infinite line through a, b (cross product / base length)"""
    ux, uy = b[0] - a[0], b[1] - a[1]
    wx, wy = c[0] - a[0], c[1] - a[1]
    return abs(ux * wy - uy * wx) / math.hypot(ux, uy)


def o_gravity(gdcx, gdcy):
    gx = 0.0 if gdcx is None else float(gdcx)
    gy = 0.0 if gdcy is None else float(gdcy)
    r = 1.0 - gx * gx - gy * gy
    if r <= 0.0: return None
    return (gx, gy, -math.sqrt(r))


def extract(geo):
    """plain data of a geometry: only stored attributes are read (node positions, node lists, column
    centres and surfaces, layer names / bottoms / centres, connection column pairs, header values);
    nothing the library computes (areas, tops, connection nodes) is used."""
    colidx = dict((id(c), i) for i, c in enumerate(geo.columnlist))
    cols = []
    for c in geo.columnlist:
        cols.append({'name': c.name, 'nodes': [id(n) for n in c.node],
                     'poly': [(float(n.pos[0]), float(n.pos[1])) for n in c.node],
                     'centre': (float(c.centre[0]), float(c.centre[1])),
                     'surface': None if c.surface is None else float(c.surface)})
    lays = [{'name': l.name, 'bottom': float(l.bottom), 'centre': float(l.centre)} for l in geo.layerlist]
    cons = [(colidx[id(cn.column[0])], colidx[id(cn.column[1])]) for cn in geo.connectionlist]
    return {'cols': cols, 'lays': lays, 'cons': cons, 'conv': geo.convention, 'atm': geo.atmosphere_type,
            'atmvol': geo.atmosphere_volume, 'atmcon': geo.atmosphere_connection,
            'angle': geo.permeability_angle, 'gdcx': geo.gdcx, 'gdcy': geo.gdcy, 'order': geo.block_order}


def oracle(G):
    """expected blocks and connections, from the property statement"""
    cols, lays, conv, atm = G['cols'], G['lays'], G['conv'], G['atm']
    nlay = len(lays)
    bottom = [l['bottom'] for l in lays]
    top = [bottom[0]] + [bottom[k - 1] for k in range(1, nlay)]
    grav = o_gravity(G['gdcx'], G['gdcy'])
    scale = max([abs(v) for c in cols for p in c['poly'] for v in p] + [1.0])
    zscale = max([abs(b) for b in bottom] + [abs(c['surface']) for c in cols if c['surface'] is not None] + [1.0])
    heps = 16 * 2.3e-16 * scale      # round-off floor of a horizontal coordinate difference (the stored coordinates
    zeps = 16 * 2.3e-16 * zscale     # themselves carry this much after a rotation / translation); same for elevations
    for c in cols:
        c['area'] = o_area(c['poly'])
        n = len(c['poly'])
        c['perimeter'] = sum(math.hypot(c['poly'][(i + 1) % n][0] - c['poly'][i][0], c['poly'][(i + 1) % n][1] - c['poly'][i][1])
                             for i in range(n))
        c['area_tol'] = heps * c['perimeter']
        if c['surface'] is None: c['surface'] = bottom[0]
    blocks, bindex = [], {}

    def add(rec):
        bindex[(rec['k'], rec['ci'])] = rec
        blocks.append(rec)
    if atm == 0:
        add({'name': o_block_name(conv, lays[0]['name'], ATMCOL[conv]), 'vol': G['atmvol'], 'centre': None,
             'atmos': True, 'k': 0, 'ci': None})
    elif atm == 1:
        for ci, c in enumerate(cols):
            add({'name': o_block_name(conv, lays[0]['name'], c['name']), 'vol': G['atmvol'],
                 'centre': (c['centre'][0], c['centre'][1], lays[0]['centre']), 'atmos': True, 'k': 0, 'ci': ci})
    under = []
    for k in range(1, nlay):
        for ci, c in enumerate(cols):
            s = c['surface']
            if not s > bottom[k]: continue
            first = (k == 1) or not (s > bottom[k - 1])     # the top block of this column
            btop = s if first else top[k]                    # "layer top, or the column surface in the top block"
            zc = 0.5 * (bottom[k] + s) if (bottom[k] < s <= top[k]) else lays[k]['centre']
            under.append({'name': o_block_name(conv, lays[k]['name'], c['name']), 'vol': c['area'] * (btop - bottom[k]),
                          'vol_tol': c['area_tol'] * (btop - bottom[k]) + c['area'] * zeps,
                          'centre': (c['centre'][0], c['centre'][1], zc), 'atmos': False, 'k': k, 'ci': ci,
                          'first': first, 'btop': btop, 'ltop': top[k], 'height': btop - bottom[k], 'nn': len(c['poly'])})
    if G['order'] == 'dmplex':
        under = [b for b in under if b['nn'] == 4] + [b for b in under if b['nn'] == 3]
    for b in under: add(b)
    total = sum(c['area'] * (c['surface'] - bottom[nlay - 1]) for c in cols if c['surface'] > bottom[nlay - 1])
    total_tol = sum(c['area_tol'] * (c['surface'] - bottom[nlay - 1]) + c['area'] * zeps * nlay for c in cols if c['surface'] > bottom[nlay - 1])
    # connections
    a = math.radians(G['angle'])
    e1, e2 = (math.cos(a), math.sin(a)), (-math.sin(a), math.cos(a))   # first / second permeability direction
    conns = []
    skipped_edges = 0
    for k in range(1, nlay):
        inlayer = [ci for ci, c in enumerate(cols) if c['surface'] > bottom[k]]
        inset = set(inlayer)
        for ci in inlayer:
            b = bindex[(k, ci)]
            c = cols[ci]
            if b['first']:
                if atm == 0: above = blocks[0]
                elif atm == 1: above = bindex[(0, ci)]
                else: continue
                conns.append({'kind': 'v-atm', 'names': (b['name'], above['name']),
                              'dist': (c['surface'] - b['centre'][2], G['atmcon']), 'area': c['area'], 'area_tol': c['area_tol'],
                              'dircos': None if grav is None else grav[2], 'direction': 3, 'k': k, 'ci': (ci,)})
            else:
                above = bindex[(k - 1, ci)]
                conns.append({'kind': 'v', 'names': (b['name'], above['name']),
                              'dist': (top[k] - b['centre'][2], above['centre'][2] - bottom[k - 1]),
                              'sep': above['centre'][2] - b['centre'][2], 'area': c['area'], 'area_tol': c['area_tol'],
                              'dircos': None if grav is None else grav[2], 'direction': 3, 'k': k, 'ci': (ci,)})
        for (i0, i1) in G['cons']:
            if i0 in inset and i1 in inset:
                c0, c1 = cols[i0], cols[i1]
                b0, b1 = bindex[(k, i0)], bindex[(k, i1)]
                shared = [j for j, nid in enumerate(c0['nodes']) if nid in set(c1['nodes'])]
                rec = {'kind': 'h', 'names': (b0['name'], b1['name']), 'direction': None, 'k': k, 'ci': (i0, i1)}
                if len(shared) == 2:
                    pa, pb = c0['poly'][shared[0]], c0['poly'][shared[1]]
                    elen = math.hypot(pb[0] - pa[0], pb[1] - pa[1])
                    rec['area'] = elen * min(b0['height'], b1['height'])
                    rec['area_tol'] = heps * min(b0['height'], b1['height']) + elen * zeps
                    rec['dist'] = (o_perp_dist(c0['centre'], pa, pb), o_perp_dist(c1['centre'], pa, pb))
                else:
                    rec['area'] = rec['dist'] = None      # not a single shared edge: outside the oracle
                    skipped_edges += 1
                d = [b1['centre'][j] - b0['centre'][j] for j in range(3)]
                dn = math.sqrt(d[0] ** 2 + d[1] ** 2 + d[2] ** 2)
                rec['dircos'] = None if grav is None else sum(d[j] * grav[j] for j in range(3)) / dn
                rec['dz'] = d[2]
                p1 = abs(d[0] * e1[0] + d[1] * e1[1])
                p2 = abs(d[0] * e2[0] + d[1] * e2[1])
                if abs(p1 - p2) > 1.e-9 * dn: rec['direction'] = 1 if p1 > p2 else 2
                conns.append(rec)
    return {'blocks': blocks, 'conns': conns, 'total': total, 'total_tol': total_tol, 'skipped_edges': skipped_edges,
            'heps': heps, 'zeps': zeps}


# ----------------------------------------------------------------------------------------------
# case construction

def lattice_surface(bottoms, rnd):
    """a surface elevation from the lattice: layer boundaries, mid-layers, just above the bottom of the
    bottom layer, at / above / far above the top"""
    n = len(bottoms) - 1
    thick = [bottoms[k - 1] - bottoms[k] for k in range(1, n + 1)]
    kind = rnd.choice(['top', 'top', 'above', 'above-small', 'above-far', 'mid', 'mid', 'mid', 'boundary',
                       'near-boundary', 'deep', 'random'])
    if kind == 'top': return bottoms[0], kind
    if kind == 'above': return bottoms[0] + rnd.uniform(0.05, 2.0) * thick[0], kind
    if kind == 'above-small': return bottoms[0] + 1.e-3 * thick[0], kind
    if kind == 'above-far': return bottoms[0] + 50. * sum(thick), kind
    if kind == 'mid':
        k = rnd.randint(1, n)
        return bottoms[k] + rnd.uniform(0.05, 0.95) * thick[k - 1], kind
    if kind == 'boundary':
        if n < 2: return bottoms[0], 'top'
        return bottoms[rnd.randint(1, n - 1)], kind
    if kind == 'near-boundary':
        k = rnd.randint(1, n)
        if k == n: return bottoms[k] + 1.e-3 * thick[k - 1], kind
        return bottoms[k] + rnd.choice([-1.e-3, 1.e-3]) * min(thick[k - 1], thick[k]), kind
    if kind == 'deep': return bottoms[n] + rnd.uniform(1.e-3, 0.2) * thick[n - 1], kind
    return rnd.uniform(bottoms[n] + 1.e-3 * thick[n - 1], bottoms[0] + thick[0]), kind


def spacing(rnd, n):
    style = rnd.choice(['uniform', 'log', 'log', 'int', 'geometric'])
    if style == 'uniform': return [round(10 ** rnd.uniform(-1, 3), 3)] * n
    if style == 'log': return [round(10 ** rnd.uniform(-1, 3), 4) for _ in range(n)]
    if style == 'int': return [float(rnd.randint(1, 500)) for _ in range(n)]
    d0, f = 10 ** rnd.uniform(0, 2), rnd.uniform(1.1, 2.0)
    return [round(d0 * f ** i, 5) for i in range(n)]


def rect_case(rnd, idx):
    nx, ny, nz = rnd.randint(1, 5), rnd.randint(1, 4), rnd.randint(1, 6)
    origin = rnd.choice([[0., 0., 0.], [0., 0., 0.],
                         [round(rnd.uniform(-1e3, 1e3), 2), round(rnd.uniform(-1e3, 1e3), 2), round(rnd.uniform(-500, 2000), 2)],
                         [2765984.77, 6261546.23, 880.], [-5.e4, 1.e5, -1234.5]])
    d = {'kind': 'rect', 'idx': idx, 'dx': spacing(rnd, nx), 'dy': spacing(rnd, ny), 'dz': spacing(rnd, nz), 'origin': origin,
         'convention': rnd.randint(0, 3), 'atmos_type': rnd.randint(0, 2), 'justify': rnd.choice('rl'),
         'case': rnd.choice([None, 'l', 'u']), 'block_order': rnd.choice([None, None, 'layer_column', 'dmplex']),
         'angle': rnd.choice([0., 0., 30., 45., 90., -60., 123.4, round(rnd.uniform(-180, 180), 3)]),
         'surface_mode': rnd.choice(['default', 'lattice', 'lattice', 'lattice', 'all-above', 'one-low', 'all-mid-top']),
         'rotate': rnd.choice([None, None, 90., round(rnd.uniform(-180, 180), 3)]),
         'translate': rnd.choice([None, None, [round(rnd.uniform(-1e4, 1e4), 1), round(rnd.uniform(-1e4, 1e4), 1), round(rnd.uniform(-1e3, 1e3), 1)]]),
         'tilt': rnd.choice([None, None, None, None, [0., 0.], [0.1, 0.], [0., -0.2], [round(rnd.uniform(-0.6, 0.6), 3), round(rnd.uniform(-0.6, 0.6), 3)]]),
         'atmos_volume': rnd.choice([1.e25, 1.e25, 1.e50, 12345.6]), 'atmos_connection': rnd.choice([1.e-6, 1.e-6, 1.e-9, 0.5]),
         'blockmap': rnd.choice(['none', 'none', 'rename', 'swap', 'rename+atm']), 'refine': None, 'seed': rnd.randrange(1 << 30)}
    return d


def file_case(rnd, idx, gi, variant, refine_big=True):
    d = {'kind': 'file', 'idx': idx, 'file': 'g%d.dat' % gi, 'atmos_type': None, 'block_order': None, 'angle': None,
         'surface_mode': 'default', 'rotate': None, 'translate': None, 'tilt': None, 'atmos_volume': None,
         'atmos_connection': None, 'blockmap': 'none', 'refine': None, 'seed': rnd.randrange(1 << 30)}
    if variant:
        d['atmos_type'] = rnd.randint(0, 2)
        d['block_order'] = rnd.choice([None, 'layer_column'] + (['dmplex'] if gi in (2, 4, 5, 6, 7) else []))
        d['angle'] = rnd.choice([0., 30., 45., 90., -60., 123.4, round(rnd.uniform(-180, 180), 3)])
        d['surface_mode'] = rnd.choice(['default', 'lattice', 'lattice', 'lattice-some', 'all-above', 'one-low'])
        d['rotate'] = rnd.choice([None, 90., round(rnd.uniform(-180, 180), 3)])
        d['translate'] = rnd.choice([None, [round(rnd.uniform(-1e4, 1e4), 1), round(rnd.uniform(-1e4, 1e4), 1), round(rnd.uniform(-1e3, 1e3), 1)]])
        d['tilt'] = rnd.choice([None, None, None, [0.1, 0.], [round(rnd.uniform(-0.6, 0.6), 3), round(rnd.uniform(-0.6, 0.6), 3)]])
        d['atmos_volume'] = rnd.choice([None, 1.e50])
        d['atmos_connection'] = rnd.choice([None, 1.e-9, 0.5])
        d['blockmap'] = rnd.choice(['none', 'rename', 'swap', 'rename+atm'])
        if gi in (2, 4, 5, 6, 7) and rnd.random() < 0.6 and (refine_big or gi not in (2, 4)):
            d['refine'] = {'every': rnd.choice([5, 9, 17, 40]), 'offset': rnd.randint(0, 4)}
    return d


def build(d):
    """geometry + block map of a case descriptor; returns (geo, blockmap, notes)"""
    rnd = random.Random(d['seed'])
    notes = {}
    if d['kind'] == 'rect':
        geo = mulgrid().rectangular(d['dx'], d['dy'], d['dz'], convention=d['convention'], atmos_type=d['atmos_type'],
                                    origin=d['origin'], justify=d['justify'], case=d['case'], block_order=d['block_order'])
    else:
        geo = mulgrid(os.path.join(REPO, 'tests', 'mulgrid', d['file']))
        if d['atmos_type'] is not None: geo.atmosphere_type = d['atmos_type']
        if d['block_order'] is not None: geo.block_order = d['block_order']
    if d['refine']:
        cols = [c for c in geo.columnlist[d['refine']['offset']::d['refine']['every']]]
        geo.refine(cols)
        notes['refined_to'] = geo.num_columns
    if d['angle'] is not None: geo.permeability_angle = d['angle']
    if d['atmos_volume'] is not None: geo.atmosphere_volume = d['atmos_volume']
    if d['atmos_connection'] is not None: geo.atmosphere_connection = d['atmos_connection']
    if d['tilt'] is not None: geo.gdcx, geo.gdcy = d['tilt']
    mode = d['surface_mode']
    bottoms = [float(l.bottom) for l in geo.layerlist]
    kinds = set()
    if mode != 'default':
        surf = {}
        ncol = geo.num_columns
        # columns visited in a geometric order: refine() numbers its new columns in an order that differs from run to run
        canon = sorted(range(ncol), key=lambda j: (round(float(geo.columnlist[j].centre[0]), 6), round(float(geo.columnlist[j].centre[1]), 6)))
        for i in canon:
            col = geo.columnlist[i]
            if mode == 'lattice' or (mode == 'lattice-some' and rnd.random() < 0.3):
                s, kind = lattice_surface(bottoms, rnd)
            elif mode == 'all-above':
                s, kind = bottoms[0] + rnd.uniform(0.01, 3.) * (bottoms[0] - bottoms[1]), 'above'
            elif mode == 'one-low' and i == canon[d['seed'] % ncol]:
                s, kind = bottoms[-1] + 0.3 * (bottoms[-2] - bottoms[-1]), 'deep'
            elif mode == 'all-mid-top':
                s, kind = bottoms[1] + rnd.uniform(0.05, 0.95) * (bottoms[0] - bottoms[1]), 'mid'
            else: continue
            surf[i] = s
            kinds.add(kind)
        for i, s in surf.items():
            col = geo.columnlist[i]
            col.surface = s
            geo.set_column_num_layers(col)
        geo.setup_block_name_index()
        geo.setup_block_connection_name_index()
        notes['surfaces'] = dict((geo.columnlist[i].name, s) for i, s in list(surf.items())[:40])
    notes['surface_kinds'] = sorted(kinds)
    if d['rotate'] is not None: geo.rotate(d['rotate'])
    if d['translate'] is not None: geo.translate(d['translate'])
    # block map
    bm = {}
    names = list(geo.block_name_list)
    natm = geo.num_atmosphere_blocks
    if d['blockmap'] in ('rename', 'rename+atm'):
        pool = names if d['blockmap'] == 'rename+atm' else names[natm:]
        pick = [n for n in pool if rnd.random() < 0.3][:2000]
        for j, n in enumerate(pick):
            bm[n] = 'Z%04d' % j if j < 10000 else None
    elif d['blockmap'] == 'swap':
        pool = names[natm:]
        if len(pool) >= 3:
            pick = rnd.sample(pool, min(len(pool), rnd.choice([2, 3, 5])))
            for j, n in enumerate(pick): bm[n] = pick[(j + 1) % len(pick)]
    notes['blockmap_size'] = len(bm)
    return geo, bm, notes


# ----------------------------------------------------------------------------------------------
# contracts

def close(a, b, absfloor):
    return abs(a - b) <= RTOL * max(abs(a), abs(b)) + absfloor


class Result(object):
    def __init__(self, tag, desc):
        self.tag, self.desc = tag, desc
        self.evals = dict((c, 0) for c in CONTRACTS)
        self.failures = []
        self.percat = {}
        self.nfail = 0
        self.distinct = set()

    def fail(self, cat, item, what, extra):
        self.nfail += 1
        n = self.percat.get(cat, 0)
        self.percat[cat] = n + 1
        if n < 2:
            inp = {'case': self.desc, 'item': item}
            inp.update(extra)
            self.failures.append({'key': '%s %s %s' % (cat, self.tag, item), 'what': what, 'input': inp})


def run_contracts(geo, bm, R):
    G = extract(geo)
    grid = t2grid().fromgeo(geo, bm)
    O = oracle(G)
    mp_ = lambda n: bm.get(n, n)
    habs = O['heps']          # absolute round-off floor of a horizontal length
    zabs = O['zeps']          # ... of an elevation difference
    # ---- names and order
    gnames = [b.name for b in grid.blocklist]
    R.evals['block_names_vs_geo'] += 1
    want = [mp_(n) for n in geo.block_name_list]
    names_ok = True
    if gnames != want:
        names_ok = False
        j = next((i for i, (x, y) in enumerate(zip(gnames, want)) if x != y), min(len(gnames), len(want)))
        R.fail('block-names-vs-geo', 'index %d' % j, 'grid has %d blocks, geometry announces %d; first difference at %d: %r vs %r' %
               (len(gnames), len(want), j, gnames[j:j + 1], want[j:j + 1]), {})
    R.evals['block_names_vs_oracle'] += 1
    want = [mp_(b['name']) for b in O['blocks']]
    if gnames != want:
        names_ok = False
        j = next((i for i, (x, y) in enumerate(zip(gnames, want)) if x != y), min(len(gnames), len(want)))
        R.fail('block-names-vs-oracle', 'index %d' % j, 'grid has %d blocks, oracle %d; first difference at %d: %r vs %r' %
               (len(gnames), len(want), j, gnames[j:j + 1], want[j:j + 1]), {})
    cnames = [tuple(b.name for b in c.block) for c in grid.connectionlist]
    R.evals['connection_names_vs_geo'] += 1
    want = [tuple(mp_(n) for n in cn) for cn in geo.block_connection_name_list]
    cnames_ok = True
    if cnames != want:
        cnames_ok = False
        j = next((i for i, (x, y) in enumerate(zip(cnames, want)) if x != y), min(len(cnames), len(want)))
        R.fail('connection-names-vs-geo', 'index %d' % j, 'grid has %d connections, geometry announces %d; first difference at %d: %r vs %r' %
               (len(cnames), len(want), j, cnames[j:j + 1], want[j:j + 1]), {})
    R.evals['connection_names_vs_oracle'] += 1
    want = [tuple(mp_(n) for n in c['names']) for c in O['conns']]
    if cnames != want:
        cnames_ok = False
        j = next((i for i, (x, y) in enumerate(zip(cnames, want)) if x != y), min(len(cnames), len(want)))
        R.fail('connection-names-vs-oracle', 'index %d' % j, 'grid has %d connections, oracle %d; first difference at %d: %r vs %r' %
               (len(cnames), len(want), j, cnames[j:j + 1], want[j:j + 1]), {})
    R.evals['lookup_tables'] += 1
    if len(grid.block) != len(grid.blocklist) or len(grid.connection) != len(grid.connectionlist) or \
       any(grid.block.get(b.name) is not b for b in grid.blocklist):
        R.fail('lookup-tables', 'grid', 'block / connection dictionaries disagree with the lists (%d/%d blocks, %d/%d connections)' %
               (len(grid.block), len(grid.blocklist), len(grid.connection), len(grid.connectionlist)), {})
    # ---- blocks
    if names_ok:
        tot = 0.0
        for blk, ob in zip(grid.blocklist, O['blocks']):
            item = 'block %r' % blk.name
            R.evals['block_volume'] += 1
            v = blk.volume
            if v is None or not close(float(v), ob['vol'], ob.get('vol_tol', 0.0)):
                R.fail('block-volume', item, 'volume %r, expected %r (layer %d, top block: %s)' %
                       (v, ob['vol'], ob['k'], ob.get('first')), {'observed': repr(v), 'expected': ob['vol']})
            if not ob['atmos'] and v is not None: tot += float(v)
            R.evals['block_centre'] += 1
            c = blk.centre
            if ob['centre'] is None:
                if c is not None:
                    R.fail('block-centre', item, 'centre %r, expected None (single atmosphere block)' % (c,), {})
            elif c is None or len(c) != 3 or not (close(float(c[0]), ob['centre'][0], habs) and close(float(c[1]), ob['centre'][1], habs)
                                                  and close(float(c[2]), ob['centre'][2], zabs)):
                R.fail('block-centre', item, 'centre %r, expected %r' % (None if c is None else [float(x) for x in c], ob['centre']),
                       {'expected': ob['centre']})
            R.evals['block_atmosphere_flag'] += 1
            if bool(blk.atmosphere) != ob['atmos']:
                R.fail('block-atmosphere-flag', item, 'atmosphere flag %r, expected %r' % (blk.atmosphere, ob['atmos']), {})
        R.evals['total_volume'] += 1
        if not close(tot, O['total'], O['total_tol']):
            R.fail('total-volume', 'grid', 'sum of rock volumes %r, sum over columns of area x depth to surface %r' % (tot, O['total']),
                   {'observed': tot, 'expected': O['total']})
    # ---- connections
    if cnames_ok:
        for con, oc in zip(grid.connectionlist, O['conns']):
            item = 'connection %r' % (tuple(b.name for b in con.block),)
            dist = [float(x) for x in con.distance]
            if oc['kind'] in ('v', 'v-atm'):
                R.evals['vconn_area'] += 1
                if not close(float(con.area), oc['area'], oc['area_tol']):
                    R.fail('vconn-area', item, 'area %r, expected column area %r' % (con.area, oc['area']), {})
                R.evals['vconn_direction'] += 1
                if con.direction != 3:
                    R.fail('vconn-direction', item, 'permeability direction %r, expected 3' % (con.direction,), {})
                if oc['dircos'] is not None:
                    R.evals['vconn_dircos'] += 1
                    if not close(float(con.dircos), oc['dircos'], 1e-12):
                        R.fail('vconn-dircos' + ('-tilted' if R.desc.get('tilt') and any(R.desc['tilt']) else ''), item,
                               'gravity cosine %r, expected %r' % (con.dircos, oc['dircos']), {})
                if oc['kind'] == 'v':
                    R.evals['vconn_dist_sum'] += 1
                    if not close(dist[0] + dist[1], oc['sep'], zabs) or min(dist) < 0:
                        R.fail('vconn-dist-sum', item, 'distances %r add up to %r, centre-to-centre separation is %r' %
                               (dist, dist[0] + dist[1], oc['sep']), {})
                    R.evals['vconn_dist_split'] += 1
                    if not (close(dist[0], oc['dist'][0], zabs) and close(dist[1], oc['dist'][1], zabs)):
                        R.fail('vconn-dist-split', item, 'distances %r, expected centre-to-interface distances %r' %
                               (dist, oc['dist']), {})
                else:
                    R.evals['vconn_atm_dist'] += 1
                    if not (close(dist[0], oc['dist'][0], zabs) and close(dist[1], oc['dist'][1], 0.0)):
                        R.fail('vconn-atm-dist', item, 'distances %r, expected [centre to ground surface, atmosphere connection] = %r' %
                               (dist, oc['dist']), {})
            else:
                if oc['area'] is not None:
                    R.evals['hconn_area'] += 1
                    if not close(float(con.area), oc['area'], oc['area_tol']):
                        R.fail('hconn-area', item, 'area %r, expected edge length x lower block height = %r' % (con.area, oc['area']),
                               {'observed': float(con.area), 'expected': oc['area']})
                    R.evals['hconn_dist'] += 1
                    if not (close(dist[0], oc['dist'][0], habs) and close(dist[1], oc['dist'][1], habs)):
                        R.fail('hconn-dist', item, 'distances %r, expected perpendicular centre-to-edge distances %r' % (dist, oc['dist']),
                               {'observed': dist, 'expected': oc['dist']})
                if oc['dircos'] is not None:
                    R.evals['hconn_dircos'] += 1
                    ok = close(float(con.dircos), oc['dircos'], 1e-12)
                    if not R.desc.get('tilt') or R.desc.get('tilt') == [0., 0.]:
                        # untilted: 0 between equal elevations, non-zero beside a truncated surface block
                        ok = ok and ((float(con.dircos) == 0.0) == (oc['dz'] == 0.0))
                    if not ok:
                        R.fail('hconn-dircos' + ('-tilted' if R.desc.get('tilt') and any(R.desc['tilt']) else ''), item,
                               'gravity cosine %r, expected %r (centre elevation difference %r)' % (con.dircos, oc['dircos'], oc['dz']), {})
                if oc['direction'] is not None:
                    R.evals['hconn_direction'] += 1
                    if con.direction != oc['direction']:
                        R.fail('hconn-direction', item, 'permeability direction %r, expected %r (angle %r)' %
                               (con.direction, oc['direction'], geo.permeability_angle), {})
    return grid, O


def describe(d):
    if d['kind'] == 'rect':
        return 'rect#%d[%dx%dx%d c%d a%d %s]' % (d['idx'], len(d['dx']), len(d['dy']), len(d['dz']), d['convention'], d['atmos_type'], d['surface_mode'])
    return '%s#%d[a%s %s%s]' % (d['file'], d['idx'], d['atmos_type'], d['surface_mode'], ' refined' if d['refine'] else '')


class CaseTimeout(Exception): pass


def _alarm(signum, frame): raise CaseTimeout()


def run_case(d):
    tag = describe(d)
    R = Result(tag, d)
    t0 = time.time()
    signal.signal(signal.SIGALRM, _alarm)
    signal.alarm(CASE_TIMEOUT)
    sample = None
    try:
        geo, bm, notes = build(d)
        grid, O = run_contracts(geo, bm, R)
        nb, nc = len(O['blocks']), len(O['conns'])
        nsurf = sum(1 for b in O['blocks'] if b.get('first') and b['btop'] != b['ltop'])
        R.distinct.add((d['kind'], d.get('file'), d.get('convention', geo.convention), geo.atmosphere_type, geo.block_order,
                        d['surface_mode'], d['blockmap'], bool(d['rotate']), bool(d['translate']), bool(d['tilt']),
                        bool(d['refine']), tuple(notes['surface_kinds'])))
        sample = {'case': tag, 'blocks': nb, 'connections': nc, 'truncated_or_raised_top_blocks': nsurf,
                  'blockmap_size': notes['blockmap_size'], 'unoracled_edges': O['skipped_edges'],
                  'seconds': round(time.time() - t0, 2)}
    except CaseTimeout:
        R.fail('timeout', 'case', 'no result within %d s' % CASE_TIMEOUT, {})
    except Exception as e:
        import traceback
        tb = traceback.extract_tb(sys.exc_info()[2])
        where = '%s:%d' % (os.path.basename(tb[-1][0]), tb[-1][1]) if tb else '?'
        R.fail('exception-%s' % type(e).__name__, 'at %s' % where, 'building the geometry / fromgeo raised %s: %s' % (type(e).__name__, e), {})
    finally:
        signal.alarm(0)
    return {'evals': R.evals, 'failures': R.failures, 'nfail': R.nfail, 'distinct': sorted(map(repr, R.distinct)), 'sample': sample}


def main():
    tier = sys.argv[1] if len(sys.argv) > 1 else 'quick'
    seed = int(sys.argv[2]) if len(sys.argv) > 2 else 0
    rnd = random.Random(seed)
    t0 = time.time()
    cases = []
    idx = 0
    big, small = (2, 4), (1, 3, 5, 6, 7)
    for gi in range(1, 8):                       # shipped geometries unchanged
        cases.append(file_case(rnd, idx, gi, False)); idx += 1
    nvar_small, nvar_big, nrect = (4, 1, 1200) if tier == "quick" else (60, 20, 25000)
    for gi in big:
        for _ in range(nvar_big):
            cases.append(file_case(rnd, idx, gi, True, tier != 'quick')); idx += 1
    for gi in small:
        for _ in range(nvar_small):
            cases.append(file_case(rnd, idx, gi, True)); idx += 1
    nfile = len(cases)
    for _ in range(nrect):
        cases.append(rect_case(rnd, idx)); idx += 1
    # big cases first so that the pool drains evenly
    order = sorted(range(len(cases)), key=lambda i: (0 if (cases[i]['kind'] == 'file' and cases[i]['file'] in ('g2.dat', 'g4.dat')) else
                                                       1 if cases[i]['kind'] == 'file' else 2, i))
    nproc = min(16, os.cpu_count() or 1)
    results = [None] * len(cases)
    with mp.Pool(nproc, maxtasksperchild=200) as pool:
        for i, res in zip(order, pool.imap(run_case, [cases[i] for i in order], chunksize=1)):
            results[i] = res
    evals = dict((c, 0) for c in CONTRACTS)
    failures, nfail, distinct, samples = [], 0, set(), []
    for res in results:
        for c, n in res['evals'].items(): evals[c] += n
        failures += res['failures']
        nfail += res['nfail']
        distinct.update(res['distinct'])
    for i in list(range(0, 7)) + list(range(nfile, nfile + 3)) + [7]:
        if i < len(results) and results[i]['sample']: samples.append(results[i]['sample'])
    # keep at most 60 failure records, spread over the categories
    bycat = {}
    for f in failures: bycat.setdefault(f['key'].split()[0], []).append(f)
    out = []
    while len(out) < 60 and any(bycat.values()):
        for cat in sorted(bycat):
            if bycat[cat] and len(out) < 60: out.append(bycat[cat].pop(0))
    samples.append({'evaluations_per_contract': evals, 'cases': len(cases),
                    'failure_counts_per_category': dict((c, sum(1 for f in failures if f['key'].split()[0] == c))
                                                        for c in set(f['key'].split()[0] for f in failures))})
    print('@@JSON@@' + json.dumps({'evaluations': sum(evals.values()), 'distinct': len(distinct), 'failures': out,
                                   'nfailures': len(failures), 'item_failures': nfail, 'samples': samples,
                                   'seconds': time.time() - t0}))


if __name__ == '__main__':
    main()
