"""C07 bounded stand-in: navigation independence of t2listing evaluated on the real code.

After EVERY action of a navigation sequence (first, last, next, prev, index=i, time=t, step=s,
history(...)) played on a newly opened reader of a shipped listing (tests/listing/*/*/, no *.npy, no *~),
of a truncated copy with 1..N-1 result sets, or of the listing opened with one table in skip_tables:

  index     the reported index is the one the property statement prescribes: first -> 0, last -> n-1,
            next/prev -> one further unless already at the end, index=i -> i (n+i for negative i;
            outside -n..n-1: IndexError and nothing moves), time=t / step=s -> a result set nearest
            to t / s (brute force over the times / steps of the fresh readers, ties: either),
            history -> unchanged
  moved     next()/prev() return whether they moved
  state     (index, time, step) and every table array equal those of a FRESH t2listing of the same
            file positioned with index = i  (one fresh reader per i, opened only for that)
  raises    no action raises (except the prescribed IndexError); none runs into the time limit
            (CPU seconds of the worker plus a wall-clock limit; expiry = 'timeout <file> <sequence>')
  monotone  times and steps of the result sets are non-decreasing (precondition of "nearest")

Sequences: every concrete action alone (from the first and from the last result set); every pair of the
9 action classes; every class sequence of length 3 (quick, 6 merged classes; files > 250 kB: half of them) /
4 (thorough, 9 classes; files > 90 kB: a seeded sample), the concrete parameters of a class (which index, exact / between /
before-first / after-last time and step, which history selection) rotating through their variants;
the out-of-range index in context; random sequences of 30 actions.  Failing sequences are shrunk.

usage: c07_navigation.py <tier> <seed>
"""
import sys, os, json, time, random, re, glob, itertools, signal, tempfile, shutil, traceback
import multiprocessing as mp
from multiprocessing.connection import wait as mpwait
from fractions import Fraction
import warnings
warnings.filterwarnings('ignore')
REPO = os.environ.get('PYTOUGH_REPO', '/repo')
sys.path.insert(0, REPO)
import numpy as np
from t2listing import t2listing

tier = sys.argv[1] if len(sys.argv) > 1 else 'quick'
seed = int(sys.argv[2]) if len(sys.argv) > 2 else 0
QUICK = tier != 'thorough'
NPROC = 16
CALL_LIMIT = 2.0 if QUICK else 5.0         # CPU seconds for one action / one open (normal: < 0.5)
WALL_FACTOR = 8                             # ... and CALL_LIMIT * WALL_FACTOR seconds of wall clock (blocking hang)
T_START = time.time()
DEADLINE = T_START + (36.0 if QUICK else 700.0)   # no new sequence is started after this (left-overs are counted)
HARD_END = T_START + (57.0 if QUICK else 850.0)   # the parent kills whatever still runs
MAXLEN = 3 if QUICK else 4
LISTDIR = os.path.join(REPO, 'tests', 'listing')
TSPEC = {'element': 'e', 'connection': 'c', 'generation': 'g', 'primary': 'p', 'element1': 'e1', 'element2': 'e2'}
CONTRACTS = ('index', 'moved', 'state', 'raises', 'monotone')


def listing_files():
    fs = [f for f in glob.glob(os.path.join(LISTDIR, '*', '*', '*'))
          if os.path.isfile(f) and not f.endswith('.npy') and not f.endswith('~')]
    return sorted(os.path.relpath(f, LISTDIR) for f in fs)


class CallTimeout(BaseException):
    pass


def _on_alarm(signum, frame):
    raise CallTimeout()


def limited(fn, seconds):
    """Run fn() under interval timers (CPU time of this process, and wall clock); CallTimeout on expiry."""
    signal.signal(signal.SIGALRM, _on_alarm)
    signal.signal(signal.SIGPROF, _on_alarm)
    signal.setitimer(signal.ITIMER_PROF, seconds)
    signal.setitimer(signal.ITIMER_REAL, seconds * WALL_FACTOR)
    try:
        return fn()
    finally:
        signal.setitimer(signal.ITIMER_PROF, 0)
        signal.setitimer(signal.ITIMER_REAL, 0)


# ---------------------------------------------------------------- truncated copies (own scan of the file)
_FULLMARK = re.compile(rb'^.E{40,}\s*$')


def block_starts(path):
    """Byte offsets at which the 2nd, 3rd, ... full result set of the listing starts."""
    with open(path, 'rb') as f:
        lines = f.readlines()
    offs, o = [], 0
    for ln in lines:
        offs.append(o); o += len(ln)
    autough2 = sum(1 for ln in lines if _FULLMARK.match(ln)) >= 3
    starts = []
    if autough2:
        marks = [i for i, ln in enumerate(lines) if _FULLMARK.match(ln)]
        starts = [marks[k] for k in range(0, len(marks) - 2, 3)]
    else:
        for i, ln in enumerate(lines):
            if ln.lstrip().lower().startswith(b'output data after'):
                j = i
                while j > 0 and not lines[j - 1].strip(): j -= 1          # blank lines
                if j > 0 and j - 1 > 0 and not lines[j - 2].strip(): j -= 1   # the title line between blanks
                while j > 0 and not lines[j - 1].strip(): j -= 1
                starts.append(j)
    return [offs[i] for i in starts[1:]]


def file_tables(path):
    """Names of the tables of a listing (read once in the parent, under the time limit)."""
    try:
        l = limited(lambda: t2listing(path), 6 * CALL_LIMIT)
        names = list(l._tablenames)
        l.close()
        return names
    except BaseException:
        return []


def make_truncated(rel, tmp, ks):
    src = os.path.join(LISTDIR, rel)
    cuts = block_starts(src)
    out = {}
    with open(src, 'rb') as f:
        data = f.read()
    for k in ks:
        if 1 <= k <= len(cuts):
            d = os.path.join(tmp, rel.replace('/', '_') + '.first%d' % k)
            os.makedirs(d, exist_ok=True)
            p = os.path.join(d, os.path.basename(rel))        # same file name (TOUGH2_MP is detected by name)
            with open(p, 'wb') as g:
                g.write(data[:cuts[k - 1]])
            out[k] = p
    return out


# ---------------------------------------------------------------- fresh readers = the oracle
def snapshot(lst):
    return (int(lst.index), lst.time, lst.step, {t: lst._table[t]._data.copy() for t in lst._table})


def same_array(a, b):
    a, b = np.asarray(a), np.asarray(b)
    return a.shape == b.shape and bool(np.array_equal(a, b, equal_nan=True))


def diff_snapshot(want, got):
    if want[0] != got[0]:
        return 'index %r, fresh reader %r' % (got[0], want[0])
    if not (want[1] == got[1]):
        return 'time %r, fresh reader at index %d has %r' % (got[1], want[0], want[1])
    if not (want[2] == got[2]):
        return 'step %r, fresh reader at index %d has %r' % (got[2], want[0], want[2])
    if sorted(want[3]) != sorted(got[3]):
        return 'tables %s, fresh reader %s' % (sorted(got[3]), sorted(want[3]))
    for t in sorted(want[3]):
        a, b = want[3][t], got[3][t]
        if not same_array(a, b):
            if a.shape != b.shape:
                return 'table %s has shape %s, fresh reader %s' % (t, b.shape, a.shape)
            bad = np.argwhere(~((a == b) | (np.isnan(a) & np.isnan(b))))
            r, c = map(int, bad[0])
            return 'table %s differs from the fresh reader at index %d in %d cells, first [%d,%d]: %r vs %r' % (t, want[0], len(bad), r, c, float(b[r, c]), float(a[r, c]))
    return None


def opened(path, skip=()):
    return t2listing(path, skip_tables=list(skip)) if skip else t2listing(path)


class FreshError(Exception):
    pass


def fresh_snapshots(path, skip=()):
    """One fresh reader per index i, positioned with index = i and then discarded."""
    l0 = opened(path, skip)
    n = l0.num_fulltimes
    info = {'n': n, 'tables': list(l0._tablenames), 'sim': l0.simulator,
            'rows': {t: list(l0._table[t].row_name) for t in l0._tablenames},
            'cols': {t: list(l0._table[t].column_name) for t in l0._tablenames}}
    l0.close()
    snaps = []
    for i in range(n):
        l = opened(path, skip)
        try:
            l.index = i
        except Exception as e:
            tb = traceback.extract_tb(sys.exc_info()[2])[-1]
            raise FreshError('index=%d' % i, 'a newly opened reader raises %s: %s (%s:%d) on index = %d' %
                             (type(e).__name__, e, os.path.basename(tb.filename), tb.lineno, i))
        snaps.append(snapshot(l))
        l.close()
    return info, snaps


# ---------------------------------------------------------------- the model of the statement
def nearest(values, x):
    d = [abs(Fraction(v) - Fraction(x)) for v in values]
    m = min(d)
    tol = m * Fraction(1, 10 ** 12)
    return set(j for j, dj in enumerate(d) if dj <= m + tol)


def model(act, cur, n, T, S):
    """(set of acceptable indices, expected return value or None, exception expected)"""
    k = act[0]
    if k == 'first': return {0}, None, False
    if k == 'last': return {n - 1}, None, False
    if k == 'next': return {min(cur + 1, n - 1)}, cur < n - 1, False
    if k == 'prev': return {max(cur - 1, 0)}, cur > 0, False
    if k == 'index':
        i = act[1]
        if -n <= i < n: return {i % n}, None, False
        return {cur}, None, True
    if k == 'time': return nearest(T, act[1]), None, False
    if k == 'step': return nearest(S, act[1]), None, False
    if k == 'history': return {cur}, None, False
    raise ValueError(act)


def show(act):
    k = act[0]
    if k in ('first', 'last', 'next', 'prev'): return k
    if k == 'history': return 'history(%s)' % json.dumps(act[1], separators=(',', ':'))
    return '%s=%s' % (k, repr(act[1]))


def unjs(sel):
    return [(t, tuple(k) if isinstance(k, list) else k, c) for (t, k, c) in sel]


def apply(lst, act):
    k = act[0]
    if k == 'first': return lst.first()
    if k == 'last': return lst.last()
    if k == 'next': return lst.next()
    if k == 'prev': return lst.prev()
    if k == 'index': lst.index = act[1]; return None
    if k == 'time': lst.time = act[1]; return None
    if k == 'step': lst.step = act[1]; return None
    if k == 'history':
        sel = unjs(act[1])
        lst.history(sel if len(sel) > 1 else sel[0]); return None


class Nav(object):
    def __init__(self, path, rel, snaps, info, progress, skip=()):
        self.path, self.rel, self.snaps, self.info, self.progress, self.skip = path, rel, snaps, info, progress, skip
        self.n = info['n']
        self.T = [s[1] for s in snaps]
        self.S = [s[2] for s in snaps]
        self.counts = dict((c, 0) for c in CONTRACTS)

    def run(self, seq, count=True):
        """Plays seq on a newly opened reader; returns None or (position, category, what)."""
        def bump(c):
            if count: self.counts[c] += 1
        self.progress(', '.join(show(a) for a in seq))
        try:
            lst = limited(lambda: opened(self.path, self.skip), CALL_LIMIT)
        except CallTimeout:
            return 0, 'timeout', 'opening the listing still running after %g s of CPU time' % CALL_LIMIT
        try:
            cur = 0
            bump('state')
            d = diff_snapshot(self.snaps[0], snapshot(lst))
            if d:
                return -1, 'state', 'newly opened reader: ' + d
            for p, act in enumerate(seq):
                allowed, ret, exc = model(act, cur, self.n, self.T, self.S)
                bump('raises')
                try:
                    got = limited(lambda: apply(lst, act), CALL_LIMIT)
                    raised = None
                except CallTimeout:
                    return p, 'timeout', '%s still running after %g s of CPU time' % (show(act), CALL_LIMIT)
                except Exception as e:
                    raised = e
                    tb = traceback.extract_tb(sys.exc_info()[2])[-1]
                    where = '%s:%d' % (os.path.basename(tb.filename), tb.lineno)
                if raised is not None and not (exc and isinstance(raised, IndexError)):
                    return p, 'exception', '%s raises %s: %s (%s)' % (show(act), type(raised).__name__, raised, where)
                if raised is None and exc:
                    try: now = int(lst.index)
                    except Exception: now = None
                    return p, 'index-range', '%s with %d result sets raises nothing (index now %r); IndexError expected' % (show(act), self.n, now)
                if ret is not None:
                    bump('moved')
                    if not (isinstance(got, (bool, np.bool_)) and bool(got) == ret):
                        return p, 'moved', '%s at index %d of %d returns %r, expected %r' % (show(act), cur, self.n, got, ret)
                bump('index')
                try:
                    now = lst.index
                    ok = int(now) == now and int(now) in allowed
                except Exception:
                    ok = False
                if not ok:
                    return p, 'index', 'after %s (from index %d of %d) the index is %r, expected %s' % (show(act), cur, self.n, now, sorted(allowed))
                cur = int(now)
                bump('state')
                d = diff_snapshot(self.snaps[cur], snapshot(lst))
                if d:
                    return p, 'state', 'after %s: %s' % (show(act), d)
            return None
        finally:
            try: lst.close()
            except Exception: pass


# ---------------------------------------------------------------- actions and sequences
def action_pool(info, T, S, rnd):
    """Concrete actions by class; every class lists its variants (the enumeration rotates through them)."""
    n = info['n']
    mid = n // 2
    idx = sorted(set([0, n - 1, mid, min(1, n - 1)]))
    neg = sorted(set([-1, -n, -max(1, n // 2)]))
    out_of_range = [n, -n - 1]
    times, steps = [], []
    for j in sorted(set([0, mid, n - 1])):
        times.append(T[j]); steps.append(S[j])                       # exact
    for j in sorted(set([0, max(0, mid - 1), max(0, n - 2)])):
        if j + 1 < n:
            a, b = T[j], T[j + 1]
            times += [a + (b - a) / 2, a + (b - a) / 3, a + (b - a) * 0.75]       # between (incl. the tie)
            sa, sb = S[j], S[j + 1]
            steps += [(sa + sb) // 2, sa + 1, sb - 1, (sa + sb) / 2.0]
    times += [T[0] - abs(T[0]) - 1.0, T[0] * 0.5, T[-1] * 2 + 1.0, T[-1] + 1e-6 * abs(T[-1])]     # before first, after last
    steps += [S[0] - 1, -5, S[-1] + 1, S[-1] + 1000]
    tabs = info['tables']
    def item(t, frac, ci):
        rows, cols = info['rows'][t], info['cols'][t]
        r = rows[min(len(rows) - 1, int(frac * len(rows)))]
        return [TSPEC[t], list(r) if isinstance(r, tuple) else r, cols[ci % len(cols)]]
    hist = [[item(tabs[0], 0.5, -1)], [item(t, 0.9, 1) for t in reversed(tabs)], [item(tabs[-1], 0.0, 0), item(tabs[0], 0.99, 2)]] if tabs else []
    if len(tabs) > 2:
        hist.append([item(tabs[-1], 0.3, 0), item(tabs[1], 0.6, 1)])     # skips the tables in between
    pool = {'first': [('first',)], 'last': [('last',)], 'next': [('next',)], 'prev': [('prev',)],
            'index+': [('index', i) for i in idx], 'index-': [('index', i) for i in neg],
            'index!': [('index', i) for i in out_of_range],
            'time': [('time', float(t)) for t in times], 'step': [('step', s) for s in steps],
            'history': [('history', h) for h in hist]}
    return pool


MERGED = [('first', 'last'), ('next',), ('prev',), ('index+', 'index-'), ('time', 'step'), ('history',)]


def sequences(pool, n, rnd, mode, size):
    """Sequences of one reader.  mode: 'full' (shipped file, several result sets), 'trunc' (truncated copy),
    'skip' (opened with skip_tables), 'single' (shipped file with one result set - outside the quantifier).
    Per mode and tier: every concrete action alone (from the first and from the last result set), every pair
    of action classes, every class sequence of the maximal length (the concrete variants of a class rotate;
    large files get a seeded sample), the out-of-range index in context, random sequences of 30 actions."""
    classes = [c for c in ['first', 'last', 'next', 'prev', 'index+', 'index-', 'time', 'step', 'history'] if pool[c]]
    merged = [tuple(c for c in m if pool[c]) for m in MERGED]
    merged = [m for m in merged if m]
    rot = dict((c, 0) for c in pool)
    def pick(c):
        if isinstance(c, tuple):
            rot[c] = rot.get(c, 0) + 1
            c = c[rot[c] % len(c)]
        v = pool[c][rot[c] % len(pool[c])]
        rot[c] += 1
        return v
    # (all variants alone?, pairs?, (alphabet, length) of the long product or None, cap on it, random sequences)
    plan = {('full', True): (False, True, (merged, 3), 216 if size < 250000 else 108, 4), ('full', False): (True, True, (classes, 4), 600000000 // max(size, 1), 60),
            ('trunc', True): (False, True, None, 0, 2), ('trunc', False): (True, True, (classes, 3), 150000000 // max(size, 1), 20),
            ('skip', True): (False, False, None, 0, 2), ('skip', False): (True, True, (merged, 3), 216, 20),
            ('single', True): (False, False, None, 0, 1), ('single', False): (True, True, None, 0, 10)}[(mode, QUICK)]
    allv, pairs, longp, cap, nrandom = plan
    seqs = []
    for c in sorted(pool):
        for i, a in enumerate(pool[c] if (allv or mode == 'full') else pool[c][:1]):
            seqs.append([a])
            if allv or i == 0: seqs.append([('last',), a])
    if pairs:
        for cs in itertools.product(merged if (QUICK and mode == 'trunc') else classes, repeat=2):
            seqs.append([pick(c) for c in cs])
    if longp:
        prod = list(itertools.product(longp[0], repeat=longp[1]))
        cap = max(81, cap)
        if len(prod) > cap:
            prod = [prod[i] for i in sorted(rnd.sample(range(len(prod)), cap))]
        for cs in prod:
            seqs.append([pick(c) for c in cs])
    if mode == 'full' or not QUICK:
        for a in pool['index!']:                          # the out-of-range index in the middle of things
            for b in [('next',), ('prev',), ('last',)] + pool['history'][:1]:
                seqs.append([b, a, ('next',)]); seqs.append([a, b])
    allacts = [a for c in sorted(pool) for a in pool[c]]
    weights = [1.0 / len(pool[c]) for c in sorted(pool) for a in pool[c]]
    for k in range(nrandom):
        seqs.append(rnd.choices(allacts, weights=weights, k=30))
    return seqs


# ---------------------------------------------------------------- one job
def run_job(job, conn, progfile):
    rel, path, label, chunk, nchunks, mode, skip = job
    t0 = time.time()
    out = {'rel': label, 'counts': dict((c, 0) for c in CONTRACTS), 'distinct': 0, 'failures': [], 'nfailures': 0,
           'samples': [], 'skipped': 0, 'cases': 0}
    pf = open(progfile, 'w')

    def progress(s):
        pf.seek(0); pf.write(s + '\n'); pf.truncate(); pf.flush()

    def fail(cat, desc, what, inp):
        out['nfailures'] += 1
        if len(out['failures']) < 40:
            out['failures'].append({'key': ('%s %s %s' % (cat, label, desc)).strip(), 'what': what, 'input': inp})

    try:
        progress('open')
        want_n = job_n.get(label)
        try:
            info, snaps = limited(lambda: fresh_snapshots(path, skip), 6 * CALL_LIMIT)
        except FreshError as e:
            if chunk == 0:
                fail('fresh-exception', e.args[0], e.args[1], {'file': rel, 'skip_tables': list(skip),
                     'python': 'l = t2listing(%r%s); l.%s' % ('tests/listing/' + rel, ', skip_tables=%r' % (list(skip),) if skip else '', e.args[0])})
            conn.send(out); return
        except CallTimeout:
            fail('timeout', 'open', 'opening fresh readers at every index still running after %g s' % (6 * CALL_LIMIT), {'file': label})
            conn.send(out); return
        except Exception as e:
            fail('open-exception', 'open', '%s: %s' % (type(e).__name__, e), {'file': label, 'traceback': traceback.format_exc()[-700:]})
            conn.send(out); return
        n = info['n']
        T = [s[1] for s in snaps]; S = [s[2] for s in snaps]
        if chunk == 0:
            out['counts']['monotone'] += 2
            if any(T[i] > T[i + 1] for i in range(n - 1)):
                fail('monotone', 'times', 'result times are not non-decreasing: %s' % T, {'file': label})
            if any(S[i] > S[i + 1] for i in range(n - 1)):
                fail('monotone', 'steps', 'time step numbers are not non-decreasing: %s' % S, {'file': label})
            if want_n is not None and n != want_n:
                fail('truncated-count', '', 'copy cut before result set %d shows %d result sets' % (want_n + 1, n), {'file': label})
        rnd = random.Random('%d %s' % (seed, label))
        pool = action_pool(info, T, S, rnd)
        seqs = sequences(pool, n, rnd, mode, os.path.getsize(path))[chunk::nchunks]
        nav = Nav(path, label, snaps, info, progress, skip)
        seen = set()
        nshrunk = 0
        ntimeouts = 0
        for seq in seqs:
            if time.time() > DEADLINE or ntimeouts >= ((2 if QUICK else 3) if mode == 'skip' else (5 if QUICK else 12)):
                out['skipped'] += 1          # out of time, or this reader has hung often enough
                continue
            desc = ', '.join(show(a) for a in seq)
            if desc in seen: continue
            seen.add(desc)
            out['cases'] += 1
            r = nav.run(seq)
            if r is None:
                if len(out['samples']) < 1 and len(seq) == MAXLEN and chunk == 0 and mode == 'full':
                    out['samples'].append({'file': label, 'result_sets': n, 'sequence': desc})
                continue
            p, cat, what = r
            seq = seq[:p + 1]
            if cat == 'timeout':
                ntimeouts += 1
                if len(seq) > 1:                          # a hang: only try the last action on its own
                    r2 = nav.run(seq[-1:], count=False)
                    if r2 is not None and r2[1] == cat:
                        seq, what = seq[-1:], r2[2]
            elif len(seq) > 1 and nshrunk < 15:           # shrink: drop earlier actions while it still fails alike
                nshrunk += 1
                changed = True
                while changed and len(seq) > 1 and time.time() < DEADLINE:
                    changed = False
                    for i in range(len(seq) - 1):
                        cand = seq[:i] + seq[i + 1:]
                        r2 = nav.run(cand, count=False)
                        if r2 is not None and r2[1] == cat and r2[0] == len(cand) - 1:
                            seq, what, changed = cand, r2[2], True
                            break
            desc = ', '.join(show(a) for a in seq)
            py = "l = t2listing(%r%s); " % (('tests/listing/' + rel) if path.startswith(LISTDIR) else '<copy of tests/listing/%s cut before result set %d>' % (rel, n + 1),
                                            ', skip_tables=%r' % (list(skip),) if skip else '')
            for a in seq:
                py += {'first': 'l.first(); ', 'last': 'l.last(); ', 'next': 'l.next(); ', 'prev': 'l.prev(); '}.get(a[0]) or \
                      ('l.history(%r); ' % (unjs(a[1]),) if a[0] == 'history' else 'l.%s = %r; ' % (a[0], a[1]))
            fail(cat, desc, what, {'file': rel, 'result_sets_kept': n, 'skip_tables': list(skip), 'sequence': [show(a) for a in seq], 'python': py + 'l.index, l.time, l.step'})
        for c in nav.counts: out['counts'][c] += nav.counts[c]
        out['distinct'] = len(seen)
        out['seconds'] = time.time() - t0
        conn.send(out)
    except BaseException as e:
        out['failures'].append({'key': 'harness-error %s' % label, 'what': '%s: %s' % (type(e).__name__, e), 'input': {'traceback': traceback.format_exc()[-1500:]}})
        out['nfailures'] += 1
        try: conn.send(out)
        except Exception: pass
    finally:
        pf.close()


job_n = {}      # label of a truncated copy -> number of result sets it should show


def run_jobs(jobs, tmp):
    ctx = mp.get_context('fork')
    pending = list(enumerate(jobs))
    running, results = {}, {}
    while pending or running:
        while pending and len(running) < NPROC:
            idx, job = pending.pop(0)
            a, b = ctx.Pipe(duplex=False)
            pfile = os.path.join(tmp, 'progress-%d' % idx)
            p = ctx.Process(target=run_job, args=(job, b, pfile))
            p.start(); b.close()
            running[idx] = (p, a, time.time(), job, pfile)
        mpwait([r[1] for r in running.values()], timeout=0.2)
        for idx in list(running):
            p, a, t0, job, pfile = running[idx]
            done = None
            if a.poll():
                try: done = a.recv()
                except EOFError: done = 'crash'
            elif not p.is_alive():
                done = 'crash'
            elif time.time() > HARD_END:
                done = 'killed'
            if done is None:
                continue
            if isinstance(done, str):
                try: cur = open(pfile).read().strip()
                except Exception: cur = '?'
                p.kill()
                cat = 'timeout' if done == 'killed' else 'worker-crash'
                done = {'rel': job[2], 'counts': {}, 'distinct': 0, 'nfailures': 1, 'samples': [], 'skipped': 0, 'cases': 0,
                        'failures': [{'key': '%s %s %s' % (cat, job[2], cur), 'what': 'worker process %s while playing: %s' %
                                      ('had to be killed %.0f s after it started' % (time.time() - t0) if cat == 'timeout' else 'died', cur),
                                      'input': {'file': job[0], 'label': job[2], 'sequence': cur}}]}
            p.join(5); a.close()
            results[idx] = done
            del running[idx]
    return [results[i] for i in range(len(jobs))]


def main():
    t0 = time.time()
    tmp = tempfile.mkdtemp(prefix='pytough-', dir=os.environ.get('PYTOUGH_SCRATCH', '/var/tmp'))
    try:
        files = listing_files()
        jobs = []
        pre = []
        for rel in files:
            path = os.path.join(LISTDIR, rel)
            size = os.path.getsize(path)
            try:
                ncut = len(block_starts(path))
            except Exception as e:
                ncut = 0
                pre.append({'key': 'harness-error %s' % rel, 'what': 'own scan of the file failed: %s' % e, 'input': {'file': rel}})
            n = ncut + 1
            k = (max(1, size // 150000) if QUICK else max(4, size // 30000)) if n > 1 else max(1, size // (1000000 if QUICK else 400000))
            jobs += [(rel, path, rel, c, k, 'single' if n == 1 else 'full', ()) for c in range(k)]      # a single result set: outside the quantifier, shorter sequences
            ks = list(range(1, n)) if not QUICK else sorted(set([1, n - 1]) & set(range(1, n)))
            if not QUICK and len(ks) > 8:
                ks = sorted(set(ks[:4] + ks[-2:] + [ks[len(ks) // 2]]))
            for kk, p in sorted(make_truncated(rel, tmp, ks).items()):
                label = '%s[:%d]' % (rel, kk)
                job_n[label] = kk
                k2 = max(1, (size * kk // n) // (300000 if QUICK else 60000))
                jobs += [(rel, p, label, c, k2, 'trunc', ()) for c in range(k2)]
            if n > 1:                                         # readers opened with skip_tables (one table left out)
                for t in file_tables(path):
                    k3 = max(1, size // (800000 if QUICK else 100000))
                    jobs += [(rel, path, '%s{skip=%s}' % (rel, t), c, k3, 'skip', (t,)) for c in range(k3)]
        # shipped files with several result sets first; round robin over the files so that each gets its share
        jobs.sort(key=lambda j: (j[5] == 'single', j[3], {'skip': 0, 'full': 1, 'trunc': 2, 'single': 3}[j[5]], -os.path.getsize(j[1]), j[2]))
        res = run_jobs(jobs, tmp)
    finally:
        shutil.rmtree(tmp, ignore_errors=True)
    res.sort(key=lambda r: r['rel'])
    counts = dict((c, 0) for c in CONTRACTS)
    failures, nfail, distinct, samples, skipped, ncases = list(pre), len(pre), 0, [], 0, 0
    for r in res:
        for c, v in r['counts'].items(): counts[c] += v
        nfail += r['nfailures']; distinct += r['distinct']; skipped += r['skipped']; ncases += r['cases']
        failures += r['failures']; samples += r['samples']
    failures.sort(key=lambda f: (len(f['key']), f['key']))       # shortest reproductions first
    failures = [f for i, f in enumerate(failures) if i == 0 or f['key'] != failures[i - 1]['key']]
    per, first, rest = {}, [], []
    for f in failures:
        k = tuple(f['key'].split(' ')[:2])
        per[k] = per.get(k, 0) + 1
        (first if per[k] <= 2 else rest).append(f)
    shown = (first + rest)[:60]
    slow = sorted(((round(r.get('seconds', -1), 1), r['rel'], r['cases']) for r in res), reverse=True)[:3]
    samples = samples[:5]
    samples.append({'contract_evaluations': counts, 'sequences_played': ncases, 'files': len(files),
                    'truncated_copies': len(job_n), 'jobs': len(jobs), 'sequences_not_run_out_of_time_or_after_repeated_hangs': skipped, 'slowest_jobs': slow})
    print('@@JSON@@' + json.dumps({'evaluations': sum(counts.values()), 'distinct': distinct, 'failures': shown,
                                   'nfailures': nfail, 'samples': samples, 'seconds': time.time() - t0}))


if __name__ == '__main__':
    main()
