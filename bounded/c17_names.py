"""C17 bounded stand-in (run under the pinned interpreter): contracts of the naming functions
evaluated at run time on constructed geometries crossing every capacity limit.

usage: c17_names.py <tier> <seed>
"""
import sys, os, json, time, itertools, random
import warnings
warnings.filterwarnings('ignore')
sys.path.insert(0, os.environ.get('PYTOUGH_REPO', '/repo'))
from mulgrids import *
from string import ascii_lowercase, ascii_uppercase

tier = sys.argv[1] if len(sys.argv) > 1 else 'quick'
seed = int(sys.argv[2]) if len(sys.argv) > 2 else 0
rnd = random.Random(seed)
failures, evaluations, distinct, samples = [], 0, set(), []


def fail(key, what, inp):
    failures.append({'key': key, 'what': what, 'input': inp})


def check_geometry(geo, nlayers_requested, ncols_requested, tag, inp):
    """Contract of every constructed geometry (C17 statement, first two sentences)."""
    global evaluations
    evaluations += 1
    names = geo.block_name_list
    if len(set(names)) != len(names):
        fail('dup-block-names ' + tag, 'duplicate block names', inp)
    if any((not isinstance(n, str)) or len(n) != 5 for n in names):
        fail('block-name-length ' + tag, 'block name not 5 characters', inp)
    if geo.num_columns != ncols_requested:
        fail('column-count ' + tag, 'geometry has %d columns, %d requested' % (geo.num_columns, ncols_requested), inp)
    if geo.num_layers != nlayers_requested + 1:
        fail('layer-count ' + tag, 'geometry has %d layers (incl. atmosphere), %d requested' %
             (geo.num_layers - 1, nlayers_requested), inp)
    colnames = [c.name for c in geo.columnlist]
    laynames = [l.name for l in geo.layerlist]
    nodenames = [n.name for n in geo.nodelist]
    for what, lst, ln in (('column', colnames, geo.colname_length), ('layer', laynames, geo.layername_length),
                          ('node', nodenames, geo.colname_length)):
        if len(set(lst)) != len(lst):
            fail('dup-%s-names %s' % (what, tag), 'duplicate %s names' % what, inp)
        bad = [n for n in lst if len(n) != ln]
        if bad:
            fail('%s-name-length %s' % (what, tag), '%s names of wrong length: %r' % (what, bad[:3]), inp)
    # inversion, block by block
    istart = {0: 1, 1: geo.num_columns, 2: 0}[geo.atmosphere_type]
    k = istart
    bad = 0
    for lay in geo.layerlist[1:]:
        for col in [c for c in geo.columnlist if c.surface > lay.bottom]:
            bn = geo.block_name(lay.name, col.name)
            if geo.column_name(bn) != col.name or geo.layer_name(bn) != lay.name:
                bad += 1
                if bad <= 2:
                    fail('inversion ' + tag, 'block %r of layer %r column %r splits into %r / %r' %
                         (bn, lay.name, col.name, geo.layer_name(bn), geo.column_name(bn)), inp)
    distinct.add(tag)


def build(nx, ny, nz, **kw):
    return mulgrid().rectangular([10.] * nx, [10.] * ny, [1.] * nz, **kw)


def constructor_cases():
    # (nx, ny, nz) crossing each capacity limit, per convention
    cases = []
    small = [(3, 2, 4)]
    for conv in range(4):
        sizes = list(small)
        if conv == 0:
            sizes += [(2, 2, 98), (2, 2, 99)]          # 99 numeric layers
            sizes += [(27, 27, 2)]                      # beyond 26 + 26^2 letters -> 3-letter columns
        if conv == 1:
            sizes += [(9, 11, 3), (7, 14, 3)]           # 99 / 98 columns
            sizes += [(2, 2, 50), (2, 2, 120)]
        if conv == 2:
            sizes += [(27, 37, 2), (2, 2, 50), (2, 2, 120)]   # 999 columns; 'at' is the 46th layer name
        if conv == 3:
            sizes += [(2, 2, 50), (2, 2, 120), (27, 27, 2)]
        for s in sizes:
            cases.append((conv, s))
    return cases


def expect_error(nx, ny, nz, conv):
    ncol, nnode = nx * ny, (nx + 1) * (ny + 1)
    colcap = {0: 18278, 3: 18278, 1: 99, 2: 999}[conv]
    laycap = {0: 99, 1: 18278, 2: 702, 3: 702}[conv]
    # the surface-layer name uses up one layer name in conventions 1, 2 (and ' 0' is never generated)
    used = nz + (1 if conv in (1, 2) and nz >= {1: 1209, 2: 46}[conv] else 0)
    return max(ncol, nnode) > colcap or used > laycap


t0 = time.time()
opts = []
for atm in (0, 1, 2):
    for justify in ('r', 'l'):
        for case, chars in (('l', ascii_lowercase), ('u', ascii_lowercase), (None, 'qwertyuiopasdfghjklzxcvbnm'),
                            (None, 'abcabcdefgh')):
            for spaces in (True, False):
                opts.append((atm, justify, case, chars, spaces))
if tier == 'quick':
    opts = [o for i, o in enumerate(opts) if i % 5 == seed % 5 or i < 2]

for conv, (nx, ny, nz) in constructor_cases():
    for (atm, justify, case, chars, spaces) in (opts if nx * ny * nz < 400 else opts[:3]):
        inp = dict(nx=nx, ny=ny, nz=nz, convention=conv, atmos_type=atm, justify=justify, case=case,
                   chars=chars, spaces=spaces)
        tag = 'conv%d %dx%dx%d' % (conv, nx, ny, nz)
        try:
            geo = build(nx, ny, nz, convention=conv, atmos_type=atm, justify=justify, case=case,
                        chars=chars, spaces=spaces)
        except NamingConventionError:
            evaluations += 1
            nchars = len(set(chars))
            if nchars == 26 and not expect_error(nx, ny, nz, conv):
                fail('unexpected-naming-error ' + tag, 'NamingConventionError although the name space is not exhausted', inp)
            continue
        except Exception as e:
            fail('constructor-exception ' + tag, 'rectangular() raised %s: %s' % (type(e).__name__, e), inp)
            continue
        if len(set(chars)) == 26 and expect_error(nx, ny, nz, conv):
            fail('missing-naming-error ' + tag, 'name space exhausted but no NamingConventionError', inp)
        check_geometry(geo, nz, nx * ny, tag, inp)
        if len(samples) < 4:
            samples.append({'input': inp, 'first_blocks': geo.block_name_list[:3], 'last_block': geo.block_name_list[-1]})

# beyond capacity: explicit error, never a truncated or duplicate name
for conv, (nx, ny, nz) in [(1, (10, 10, 2)), (1, (9, 12, 2)), (2, (32, 32, 2)), (0, (2, 2, 100)), (0, (2, 2, 120))]:
    evaluations += 1
    inp = dict(nx=nx, ny=ny, nz=nz, convention=conv)
    try:
        geo = build(nx, ny, nz, convention=conv)
        fail('missing-naming-error conv%d %dx%dx%d' % (conv, nx, ny, nz),
             'name space exhausted but no NamingConventionError (got %d columns, %d layers)' % (geo.num_columns, geo.num_layers), inp)
    except NamingConventionError:
        distinct.add('error conv%d' % conv)
    except Exception as e:
        fail('constructor-exception conv%d' % conv, '%s: %s' % (type(e).__name__, e), inp)

# generator integers 0..N natively: exhaustive for the quantifier's 0..20000 in the thorough tier
N = 20000 if tier == 'thorough' else 2500
for conv in range(4):
    g = mulgrid(convention=conv)
    for fn, cap, ln in ((g.column_name_from_number, {0: 18278, 3: 18278, 1: 99, 2: 999}[conv], g.colname_length),
                        (g.node_name_from_number, {0: 18278, 3: 18278, 1: 99, 2: 999}[conv], g.colname_length),
                        (g.layer_name_from_number, {0: 99, 1: 18278, 2: 702, 3: 702}[conv], g.layername_length)):
        for justfn in (str.rjust, str.ljust):
            seen = {}
            for num in range(1, N + 1):
                evaluations += 1
                try:
                    nm = fn(num, justfn)
                except NamingConventionError:
                    if num <= cap:
                        fail('gen-error-early conv%d %s' % (conv, fn.__name__), 'NamingConventionError at %d <= capacity %d' % (num, cap), {'num': num})
                        break
                    continue
                if num > cap:
                    fail('gen-no-error conv%d %s' % (conv, fn.__name__), 'no NamingConventionError at %d > capacity %d: %r' % (num, cap, nm), {'num': num})
                    break
                if len(nm) != ln or nm in seen:
                    fail('gen-bad-name conv%d %s' % (conv, fn.__name__), 'name %r for %d (length %d, duplicate of %s)' % (nm, num, len(nm), seen.get(nm)), {'num': num})
                    break
                seen[nm] = num
            distinct.add('gen conv%d %s %s' % (conv, fn.__name__, justfn.__name__))

# fix / unfix on random 5-character names over letters, digits and blanks + the simulator form
alpha = 'abcXYZ0123456789   '
for _ in range(20000 if tier == 'quick' else 400000):
    evaluations += 1
    n = ''.join(rnd.choice(alpha) for _ in range(5))
    f, u = fix_blockname, unfix_blockname
    c = lambda x: f(u(x))
    if not (f(f(n)) == f(n) and c(c(n)) == c(n) and len(c(n)) == 5):
        fail('fix-unfix ' + n, 'idempotence / cycle stability fails for %r' % n, {'name': n})
for a3 in ('abc', ' a1', 'AB9', '  1', '123'):
    for i in range(100):
        evaluations += 1
        n = '%3s%2d' % (a3, i)
        if unfix_blockname(fix_blockname(n)) != n:
            fail('unfix-simulator-form ' + n, 'unfix(fix(%r)) = %r' % (n, unfix_blockname(fix_blockname(n))), {'name': n})
distinct.add('fix/unfix random'); distinct.add('fix/unfix simulator form')

print('@@JSON@@' + json.dumps({'evaluations': evaluations, 'distinct': len(distinct), 'failures': failures[:50],
                               'nfailures': len(failures), 'samples': samples, 'seconds': time.time() - t0}))
