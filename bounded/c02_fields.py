"""C02 bounded stand-in: every field of every record kind of the four real format tables,
written through the real fixed_format_file code with lattice values and parsed back.
usage: c02_fields.py <tier> <seed>"""
import sys, os, json, time, random, math
sys.path.insert(0, os.environ.get('PYTOUGH_REPO', '/repo'))
import warnings; warnings.filterwarnings('ignore')
from fixed_format_file import fixed_format_file, default_read_function, fortran_read_function
import t2data, t2incons, mulgrids

tier = sys.argv[1] if len(sys.argv) > 1 else 'quick'
seed = int(sys.argv[2]) if len(sys.argv) > 2 else 0
rnd = random.Random(seed)
t0 = time.time()
failures, evaluations, distinct, samples = [], 0, set(), []
TABLES = [('t2data_format_specification', t2data.t2data_format_specification, default_read_function),
          ('t2data_extra_precision_format_specification', t2data.t2data_extra_precision_format_specification, default_read_function),
          ('t2incon_format_specification', t2incons.t2incon_format_specification, fortran_read_function),
          ('mulgrid_format_specification', mulgrids.mulgrid_format_specification, default_read_function)]

def fail(key, what, inp):
    if len(failures) < 60: failures.append({'key': key, 'what': what, 'input': inp})

def width(f): return abs(int(f[:-1].split('.')[0]))

def sentinel(f):
    t, w = f[-1], width(f)
    if t == 's': return 'Q' * w
    if t == 'd': return 7 if w > 0 else 0
    if t == 'x': return None
    return 1.5

def real_lattice():
    exps = list(range(-120, 121, 1 if tier == 'thorough' else 9)) + [-120, -100, -99, -10, -9, -1, 0, 1, 9, 10, 99, 100, 120]
    mants = [1.0, 9.9996, 9.99999999996, 1.5, 1.23456789012345, 5.0, 9.5, 9.95, 9.9999999999999]
    for e in sorted(set(exps)):
        for m in mants:
            for s in (1, -1):
                yield s * m * 10.0 ** e
    yield 0.0

def values_for(f):
    t, w = f[-1], width(f)
    if t == 's':
        base = ['', 'a', 'ab cd'[:w], 'Z' * w, (' x' * w)[:w], 'A' * (w + 1), 'B' * (w + 2)]
        return base
    if t == 'd':
        vs = [0, 1, -1, 9, 10 ** (w - 1) - 1, 10 ** (w - 1), 10 ** w - 1, 10 ** w, -(10 ** (w - 1)) + 1, -(10 ** (w - 1)), 10 ** (w + 1) - 1]
        return sorted(set(vs))
    if t == 'x':
        return [None, 5]
    vals = list(real_lattice())
    if tier == 'quick':
        vals = [v for i, v in enumerate(vals) if i % 5 == seed % 5] + [-1.5, 1.5e-100, -9.9996e+99, 99999999.96, 999.9999996, -0.0]
    return vals

def acceptable_reals(f, v):
    """Values an honest write of v into this field may read back as: v printed with the
    field's precision or any lower one (precision lost in this one value only)."""
    t = f[-1]
    w = width(f); p = int(f[:-1].split('.')[1])
    out = set()
    for q in range(p, -1, -1):
        s = ('%%%d.%d%s' % (w, q, t)) % v
        if len(s) <= w:
            out.add(float(s))
    return out

for tname, table, reader in TABLES:
    fff = fixed_format_file.__new__(fixed_format_file)
    fff.specification = table
    fff.read_function = reader
    fff.preprocess_specification()
    for kind, (names, fmts) in table.items():
        total = sum(width(f) for f in fmts)
        base = [sentinel(f) for f in fmts]
        # absent value in any position
        for k in range(len(fmts)):
            vals = list(base); vals[k] = None
            evaluations += 1
            try:
                line = fff.write_values_to_string(vals, kind)
                back = fff.parse_string(line.ljust(max(80, total)), kind)
            except Exception as e:
                fail('absent %s.%s[%d]' % (tname, kind, k), 'raises %s: %s' % (type(e).__name__, e), {'kind': kind, 'k': k}); continue
            for j, f in enumerate(fmts):
                want = base[j] if j != k else None
                got = back[j]
                if f[-1] == 's' and j == k: ok = got.strip() == ''
                elif f[-1] == 'x': ok = got is None
                else: ok = got == want
                if not ok:
                    fail('absent %s.%s[%d]' % (tname, kind, k), 'field %d reads %r, expected %r (line %r)' % (j, got, want, line), {'kind': kind, 'k': k})
        for k, f in enumerate(fmts):
            for v in values_for(f):
                vals = list(base); vals[k] = v
                evaluations += 1
                distinct.add((f, type(v).__name__, (v is not None and not isinstance(v, str)) and (abs(v) >= 1e100 or (0 < abs(v) < 1e-99)), isinstance(v, (int, float)) and v < 0))
                try:
                    line = fff.write_values_to_string(vals, kind)
                except ValueError as e:
                    # fails loudly: allowed only when the value cannot be represented
                    t, w = f[-1], width(f)
                    if t == 'd' and -10 ** (w - 1) < v < 10 ** w:
                        fail('fits-but-raises %s.%s[%d] %r' % (tname, kind, k, v), 'ValueError for a value that fits: %s' % e, {'kind': kind, 'k': k, 'v': v})
                    if t in 'efg' and acceptable_reals(f, v):
                        fail('fits-but-raises %s.%s[%d] %r' % (tname, kind, k, v), 'ValueError for a real that fits at some precision: %s' % e, {'kind': kind, 'k': k, 'v': v})
                    if t == 's' and len(v) <= w:
                        fail('fits-but-raises %s.%s[%d] %r' % (tname, kind, k, v), 'ValueError for a name that fits', {'kind': kind, 'k': k, 'v': v})
                    continue
                except Exception as e:
                    fail('write-exception %s.%s[%d] %r' % (tname, kind, k, v), 'raises %s: %s' % (type(e).__name__, e), {'kind': kind, 'k': k, 'v': repr(v)}); continue
                if len(line) != total:
                    fail('spill %s.%s[%d] %r' % (tname, kind, k, v), 'record has %d columns instead of %d: %r' % (len(line), total, line), {'kind': kind, 'k': k, 'v': repr(v)}); continue
                back = fff.parse_string(line.ljust(max(80, total)), kind)
                for j, g in enumerate(fmts):
                    got = back[j]
                    if j != k:
                        ok = (got is None) if g[-1] == 'x' else got == base[j]
                        if not ok:
                            fail('neighbour %s.%s[%d] %r' % (tname, kind, k, v), 'writing %r in field %d changes field %d to %r (line %r)' % (v, k, j, got, line), {'kind': kind, 'k': k, 'v': repr(v)})
                    else:
                        t, w = g[-1], width(g)
                        if t == 'x': ok = got is None
                        elif t == 'd': ok = got == v
                        elif t == 's':
                            ok = got == (v.ljust(w) if g.startswith('-') else v.rjust(w))[:w]
                        else:
                            ok = got in acceptable_reals(g, v) or (got is not None and math.isnan(got) and math.isnan(v))
                        if not ok:
                            fail('value %s.%s[%d] %r' % (tname, kind, k, v), 'field %d written as %r reads back %r (line %r)' % (k, v, got, line), {'kind': kind, 'k': k, 'v': repr(v)})
                if len(samples) < 4 and rnd.random() < 0.0005: samples.append({'table': tname, 'kind': kind, 'field': k, 'value': repr(v), 'line': line})
if not samples: samples.append({'note': 'no sample drawn'})
print('@@JSON@@' + json.dumps({'evaluations': evaluations, 'distinct': len(distinct), 'failures': failures,
                               'nfailures': len(failures), 'samples': samples, 'seconds': time.time() - t0}))
