"""C05 bounded stand-in: listing tables hold exactly the numbers printed in the listing file.

The real t2listing reader is run on the 37 shipped listing files (and on value-perturbed scratch
copies of them) and every table at every result time is compared, cell by cell, with an
INDEPENDENT tokenizer of the printed text (this file, `parse_listing`): the tokenizer knows the
page layout of a listing (result-block markers, table header lines, separator lines) and the
Fortran number grammar, but nothing about the reader's row_format / row_line / skiplines; key
columns, index column and cell columns are inferred table-wide from the printed rows themselves
(right edges of the right-justified fields).

Contracts evaluated (one plain function each, see contract_*):
  rows        one row per printed row, in printed-index order, keyed by the printed names
  colnames    the column names, joined, reproduce the printed header words after INDEX
  cells       every cell == correctly rounded value of the printed token in that row and column
              (exact integer arithmetic on the decimal digits, no tolerance); blank trailing cells 0
  addressing  table[i], table[row_name[i]] and table[col][i] agree for every row and column
  times       one result index per printed result block
  skip        for every non-empty subset S of the table names, t2listing(f, skip_tables=S) has the
              same result times and exposes the tables outside S with the same rows, columns and
              cells as the reader gives without skipping
  perturb-*   rows / cells contracts on scratch copies in which the printed numbers of the tables
              are replaced by other numbers occupying the same field (right edge and decimal
              point in the same columns): other digits, negative, zero, 3-digit exponent (E+ddd),
              exponent without its letter (+ddd); on every cell or on a random share of the cells
  stale-table (by-product of the above) a table that at some result index still holds, cell for
              cell, what it held at the previously read index although other numbers are printed

usage: c05_tables.py <tier> <seed>          (tier: quick | thorough)
The sub-jobs of a listing file (base / skip subsets / one per variant) run in subprocesses of this
same script (`--worker`), each with a limit of 60 s CPU time (300 s wall as a backstop); a
subprocess that exceeds it is a failure `timeout ...`.
Failure keys: `<category> <file> [skip=<subset>] [table=<name>] [col=<column>]`, categories:
cell, base-rows, base-colnames, base-ncols, base-times, base-table-missing, base-table-unprinted,
base-exception, addr-*, dup-row-names, dup-col-names, skip-exception, skip-times,
skip-table-missing, skip-rows, skip-cell, stale-table, perturb-<kind>[-exception|-rows|...],
timeout, worker-died.
"""
import sys, os, json, time, re, random, subprocess, tempfile, shutil, glob, itertools, math
from collections import Counter, OrderedDict

REPO = os.environ.get('PYTOUGH_REPO', '/repo')
JOB_LIMIT = 60          # CPU seconds per subprocess (a hang in a parsing loop burns CPU; load-independent)
JOB_WALL = 300          # wall-clock backstop per subprocess (a hang that does not burn CPU)
MAXFAIL = 60

# ---------------------------------------------------------------------------------------------
# Independent oracle: tokenizer of the printed text
# ---------------------------------------------------------------------------------------------
NUM = re.compile(r'[-+]?(?:\d+\.\d*|\.\d+)(?:[EeDd][-+]?\d+|[-+]\d+)?')
NUMFULL = re.compile(r'^([-+]?)(\d*)\.(\d*)(?:[EeDd]([-+]?\d+)|([-+]\d+))?$')
INTFULL = re.compile(r'^[-+]?\d+$')
_value_cache = {}


def printed_value(tok):
    """Correctly rounded double of a printed Fortran numeral (exact integer arithmetic on its
    decimal digits); None if the token is not a numeral (e.g. a field of asterisks)."""
    if tok in _value_cache:
        return _value_cache[tok]
    v = None
    m = NUMFULL.match(tok)
    if m:
        sign, ip, fp, e1, e2 = m.groups()
        if ip or fp:
            digits = int((ip + fp))
            exp = int(e1 if e1 is not None else (e2 if e2 is not None else '0')) - len(fp)
            if digits == 0:
                v = 0.0
            elif exp > 400:
                v = math.inf
            elif exp < -1500:
                v = 0.0
            elif exp >= 0:
                try:
                    v = float(digits * 10 ** exp)         # int -> float is correctly rounded
                except OverflowError:
                    v = math.inf
            else:
                v = digits / 10 ** (-exp)                 # int / int is correctly rounded
            if sign == '-':
                v = -v
    elif INTFULL.match(tok):
        v = float(int(tok))
    _value_cache[tok] = v
    return v


def norm_name(s):
    """Printed (a3,i2) name: a blank tens digit between two digits is a zero ('AB1 5' = 'AB105')."""
    if len(s) == 5 and s[2].isdigit() and s[3] == ' ' and s[4].isdigit():
        return s[:3] + '0' + s[4]
    return s


_TAIL_LAST = re.compile(r'^\d*(?:[EeDd][-+]?\d+|[-+]\d+)?$')
_TAIL_MID = re.compile(r'^(\d*)(?:([EeDd])([-+]?)(\d+)|([-+])(\d+))?([-+]?)(\d*)$')


def split_run(t):
    """Splits a blank-free run of characters into Fortran numerals; list of (start, end) or None
    if the run is not made of numerals.  A single numeral is the usual case.  When numerals abut
    (fields filled to their width) the run is cut between consecutive decimal points by the
    grammar of Fortran edit descriptors: a sign starts a numeral; an E/D exponent has two digits
    (three only when it is delimited by a following sign or blank), an exponent written without
    its letter has three; what is left before the next point is the integer part of the next
    numeral."""
    if t.count('.') == 1 and NUM.fullmatch(t):
        return [(0, len(t))]
    if INTFULL.match(t):
        return [(0, len(t))]
    pts = [i for i, ch in enumerate(t) if ch == '.']
    if not pts:
        return None
    # start of the first numeral
    head = t[:pts[0]]
    if not re.match(r'^[-+]?\d*$', head):
        return None
    out = []
    start = 0
    for n, p in enumerate(pts):
        last = n == len(pts) - 1
        S = t[p + 1:] if last else t[p + 1:pts[n + 1]]
        if last:
            if not _TAIL_LAST.match(S):
                return None
            out.append((start, len(t)))
            break
        m = _TAIL_MID.match(S)
        if not m:
            return None
        frac, emark, esign, edig, nsign, ndig, s2, rest = m.groups()
        if emark:
            if s2:                       # exponent delimited by the sign of the next numeral
                end = p + 1 + m.start(7)
            else:                        # exponent digits and the next integer part run together
                X = edig
                keep = 2 if len(X) >= 2 else len(X)
                end = p + 1 + m.start(4) + keep
        elif nsign:
            X = ndig
            if s2:                       # 0.12345-107-.5...: the first sign is an exponent
                end = p + 1 + m.start(7)
            elif len(X) >= 3 and len(t[start:p].lstrip('+-')) <= 1:
                end = p + 1 + m.start(6) + 3          # exponent without its letter: three digits
            else:                        # the sign starts the next (fixed-point) numeral
                end = p + 1 + m.start(5)
        else:
            if s2:
                end = p + 1 + m.start(7)
            else:
                return None              # two points with nothing to separate the numerals
        if not NUM.fullmatch(t[start:end]) and not INTFULL.match(t[start:end]):
            return None
        out.append((start, end))
        start = end
    for a, b in out:
        if not NUM.fullmatch(t[a:b]):
            return None
    return out


def first_value_start(line, m):
    """Start of the first real number of a row, given the first grammar match: an E-format
    numeral has at most one digit before its point, so further digits in front of it (an index
    field filled to its width) are not part of it."""
    tok = m.group()
    mm = NUMFULL.match(tok)
    if mm and (mm.group(4) is not None or mm.group(5) is not None) and len(mm.group(2)) > 1 and not mm.group(1):
        return m.start() + len(mm.group(2)) - 1
    return m.start()


class OTable(object):
    """One table of one result block as printed."""
    def __init__(self, name, nkeys, header_line, header_lineno):
        self.name, self.nkeys = name, nkeys
        self.header_line, self.header_lineno = header_line, header_lineno
        w = header_line.split()
        ix = [i for i, s in enumerate(w) if s in ('INDEX', 'IND.')][0]
        self.header_words = w[ix + 1:]
        self.cand = []          # (lineno, line) candidate rows
        self.rows = []          # groups of dicts: lineno, keys, index, cells [(start, end, text)]
        self.rows_all, self.rows_merged = [], []
        self.kintcols = 0
        self.ncells = 0
        self.clean = True
        self.notes = []

    # -- table-wide inference of the layout from the printed rows --
    def finish(self):
        cands = []
        for lineno, line in self.cand:
            ms = NUM.search(line)
            if not ms:
                continue
            first = first_value_start(line, ms)
            pre = line[:first].rstrip()
            if not pre or not (pre[-1].isdigit() or pre[-1] == '*'):
                continue
            cands.append((lineno, line, first))
        if not cands:
            return
        P = min(c[2] for c in cands)
        # integer-valued columns printed between INDEX and the first real column: header words
        # after INDEX that end left of the first real number of every row
        k = 0
        words = [(mm.group(), mm.start(), mm.end()) for mm in re.finditer(r'\S+', self.header_line)]
        ixw = [i for i, wd in enumerate(words) if wd[0] in ('INDEX', 'IND.')][0]
        for wd in words[ixw + 1:]:
            if wd[2] <= P:
                k += 1
            else:
                break
        pre_re = re.compile(r'^(.*?)(\d+|\*+)' + r'(\s+\d+)' * k + r'\s*$')
        prelim = []
        pre_re1 = re.compile(r'^(.*\S)\s+(\d+|\*+)' + r'\s+(\d+)' * k + r'\s*$')
        for lineno, line, first in cands:
            pre = line[:first]
            m = pre_re1.match(pre)
            if not m:
                # index abutting the key: digits run directly after the name
                m2 = pre_re.match(pre)
                if not m2:
                    continue
                m = m2
            karea_end = m.end(1) - 1
            while karea_end >= 0 and not line[karea_end].isalnum():
                karea_end -= 1
            if karea_end < 0:
                continue
            prelim.append((lineno, line, first, m, karea_end))
        if not prelim:
            return
        # right end of the (last) key column: the candidate with which most rows read as
        # <5-character name><blank-padded integer>; ties to the right
        def index_field(line, e, idx_end):
            s_ = line[e + 1:idx_end].strip()
            if s_ and set(s_) == {'*'}:
                return s_
            # a one-character flag (boundary element marker '*', '+' ...) may follow the name
            if len(s_) > 1 and not s_[0].isalnum() and s_[1] == ' ':
                s_ = s_[1:].strip()
            return s_

        def fits(e):
            n = 0
            for lineno, line, first, m, ke in prelim:
                if e - 4 >= 0 and e < m.end(2) and line[e].isalnum():
                    f_ = index_field(line, e, m.end(2))
                    if f_.isdigit() or (f_ and set(f_) == {'*'}):
                        n += 1
            return n
        e2 = max(sorted(set(p[4] for p in prelim)), key=lambda e: (fits(e), e))
        e1 = None
        if self.nkeys == 2:
            ends = []
            for lineno, line, first, m, ke in prelim:
                j = e2 - 5
                while j >= 0 and not line[j].isalnum():
                    j -= 1
                ends.append(j)
            e1 = Counter(ends).most_common(1)[0][0]
        rows = []
        for lineno, line, first, m, ke in prelim:
            if e2 - 4 < 0 or (e1 is not None and e1 - 4 < 0):
                continue
            idx_end = m.end(2)
            if e2 >= idx_end:
                continue
            istr = index_field(line, e2, idx_end)
            if istr.isdigit():
                index = int(istr)
            elif istr and set(istr) == {'*'}:
                index = None
            else:
                continue
            keys = [line[e2 - 4:e2 + 1]]
            if e1 is not None:
                keys.insert(0, line[e1 - 4:e1 + 1])
            if any(not kk.strip() for kk in keys):
                continue
            cells = []
            for g in range(k):
                cells.append((m.start(3 + g) + len(m.group(3 + g)) - len(m.group(3 + g).strip()),
                              m.end(3 + g), m.group(3 + g).strip()))
            rows.append({'lineno': lineno, 'line': line, 'keys': tuple(norm_name(kk) for kk in keys),
                         'rawkeys': tuple(keys), 'index': index, 'cells': cells, 'vstart': first})
        # value area: blank-delimited runs, each split into numerals by the Fortran grammar
        for r in rows:
            line = r['line']
            for mm in re.finditer(r'\S+', line[r['vstart']:]):
                a, t = mm.start() + r['vstart'], mm.group()
                toks = split_run(t)
                if toks is None:
                    r['cells'].append((a, a + len(t), t))      # not a numeral (overflow field, NaN ...)
                    self.notes.append('non-numeric field %r on line %d' % (t, r['lineno'] + 1))
                else:
                    if len(toks) > 1:
                        self.abutting = True
                    r['cells'].extend((a + x, a + y, t[x:y]) for x, y in toks)
        if not rows:
            return
        # column of a cell = rank of its right edge among the right edges of the table
        alledges = sorted(set(c[1] for r in rows for c in r['cells']))
        M = max(len(r['cells']) for r in rows)
        self.ncells = M
        if len(alledges) == M:
            rank = dict((e, i) for i, e in enumerate(alledges))
            for r in rows:
                r['cols'] = [rank[c[1]] for c in r['cells']]
        else:
            self.clean = False
            for r in rows:
                r['cols'] = list(range(len(r['cells'])))
        # printed-index order; rows printed more than once with the same index (TOUGH2-MP border
        # elements) are one row
        last = 0
        for r in rows:
            if r['index'] is None:
                r['index'] = last + 1
            last = r['index']
        groups = OrderedDict()
        for r in rows:
            groups.setdefault((r['index'], r['keys']), []).append(r)
        self.rows = [groups[i] for i in sorted(groups, key=lambda ik: ik[0])]      # stable
        self.rows_all = [[r] for r in sorted(rows, key=lambda r: r['index'])]     # stable
        self.rows_merged = self.rows
        self.kintcols = k

    def names(self):
        out = []
        for g in self.rows:
            kk = g[-1]['keys']
            out.append(kk[0] if self.nkeys == 1 else kk)
        return out

    def expected(self, ncols):
        """(primary matrix, alternatives {row: [vectors]}, tokens) -- values None for non-numerals."""
        import numpy as np
        n = len(self.rows)
        E = np.zeros((n, ncols))
        isnum = np.ones((n, ncols), bool)
        alts = {}
        for i, g in enumerate(self.rows):
            vecs = []
            for r in g:
                v = [0.0] * ncols
                for c, j in zip(r['cells'], r['cols']):
                    if j < ncols:
                        pv = printed_value(c[2])
                        v[j] = pv
                vecs.append(v)
            prim = vecs[-1]
            for j in range(ncols):
                if prim[j] is None:
                    isnum[i, j] = False
                    E[i, j] = float('nan')
                else:
                    E[i, j] = prim[j]
            if len(vecs) > 1:
                alts[i] = vecs[:-1]
        return E, isnum, alts


class OBlock(object):
    def __init__(self, lineno):
        self.lineno = lineno
        self.tables = OrderedDict()


class OListing(object):
    def __init__(self):
        self.family = None
        self.blocks = []
        self.notes = []
        self.lines = []


def _is_sep(line):
    s = line.strip()
    if s[:1] in ('0', '1') and len(s) > 1 and s[1] in '@=_':
        s = s[1:]
    return len(s) >= 30 and s[0] in '@=_' and s == s[0] * len(s)


def _header_kind(line):
    w = line.split()
    if len(w) < 3 or not w[0].upper().startswith('ELEM'):
        return None
    ix = [i for i, s in enumerate(w[:4]) if s in ('INDEX', 'IND.')]
    if not ix or ix[0] not in (1, 2):
        return None
    nk = ix[0]
    if nk == 1:
        return ('primary' if w[2] == 'X1' else 'element'), 1
    if w[1].upper() == 'SOURCE':
        return 'generation', 2
    if w[1].upper().startswith('ELEM'):
        return 'connection', 2
    return None


def parse_listing(text):
    """Independent segmentation of a listing into result blocks / tables / rows / cells."""
    o = OListing()
    lines = text.split('\n')
    o.lines = lines
    low_starts = [i for i, l in enumerate(lines) if l.lstrip().lower().startswith('output data after')]
    if low_starts:
        o.family = 'TOUGH2'
        bounds = low_starts + [len(lines)]
        for b in range(len(low_starts)):
            blk = OBlock(low_starts[b])
            cur, seen_rows, nelt = None, False, 0
            for i in range(bounds[b] + 1, bounds[b + 1]):
                line = lines[i]
                if _is_sep(line):
                    ch = line.strip().lstrip('01')[:1]
                    if cur is not None and (ch == '@' or seen_rows):
                        cur = None
                    continue
                hk = _header_kind(line)
                if hk:
                    kind, nk = hk
                    if cur is not None and cur.kind == kind:
                        continue                      # repeated header inside a table (page break)
                    name = kind
                    if kind == 'element':
                        if nelt:
                            name = 'element%d' % nelt
                        nelt += 1
                    if name in blk.tables:
                        o.notes.append('table %s printed twice in the block at line %d' % (name, i + 1))
                        cur = None
                        continue
                    cur = OTable(name, nk, line.rstrip('\r'), i)
                    cur.kind = kind
                    blk.tables[name] = cur
                    seen_rows = False
                    continue
                if cur is not None and line.strip():
                    cur.cand.append((i, line.rstrip('\r')))
                    if NUM.search(line):
                        seen_rows = True
            for t in blk.tables.values():
                t.finish()
            o.blocks.append(blk)
    else:
        o.family = 'AUTOUGH2'
        kw = [(i, m.group(1)) for i, m in ((i, re.match(r'^.([ECG])\1{19,}', l)) for i, l in enumerate(lines)) if m]
        j = 0
        names = {'E': 'element', 'C': 'connection', 'G': 'generation'}
        blk = None
        while j + 2 < len(kw) + 0:
            (i0, c0), (i1, c1), (i2, c2) = kw[j], kw[j + 1], kw[j + 2]
            if not (c0 == c1 == c2 and any('OUTPUT AFTER' in lines[x] for x in range(i0 + 1, i1))):
                o.notes.append('unmatched keyword line %d' % (i0 + 1))
                j += 1
                continue
            if c0 == 'E':
                blk = OBlock(i0)
                o.blocks.append(blk)
            if blk is not None:
                hl = [x for x in range(i1 + 1, i2) if 'INDEX' in lines[x].split()]
                if hl:
                    h = hl[0]
                    nk = lines[h].split().index('INDEX')
                    t = OTable(names[c0], nk, lines[h].rstrip('\r'), h)
                    t.kind = names[c0]
                    for x in range(h + 1, i2):
                        if lines[x].strip():
                            t.cand.append((x, lines[x].rstrip('\r')))
                    t.finish()
                    if names[c0] in blk.tables:
                        o.notes.append('table %s printed twice at line %d' % (names[c0], i0 + 1))
                    else:
                        blk.tables[names[c0]] = t
            j += 3
    return o


# ---------------------------------------------------------------------------------------------
# value perturbation (same-width replacement of printed numbers)
# ---------------------------------------------------------------------------------------------
EXPFORM = re.compile(r'^([-+]?)(\d*)\.(\d*)([EeDd])([-+])(\d+)$')
EXPFORM_NOE = re.compile(r'^([-+]?)(\d*)\.(\d*)([-+])(\d+)$')
FIXFORM = re.compile(r'^([-+]?)(\d*)\.(\d*)$')
KINDS = ('neg', 'zero', 'exp3', 'noE')


def _digits(rnd, n, first_nonzero=True):
    if n <= 0:
        return ''
    s = ''.join(rnd.choice('0123456789') for _ in range(n))
    if first_nonzero and s[0] == '0':
        s = rnd.choice('123456789') + s[1:]
    return s


def perturb_token(tok, kind, rnd, left_blanks=0):
    """A numeral of the given kind that occupies the field of tok the way a Fortran edit
    descriptor would: same right edge, decimal point in the same column, same form family
    (0.dddE+ee / d.dddE+ee / fixed point).  The result has the width of tok, or one more
    character (a minus sign put in the blank padding on the left, only when at least two blanks
    are there so that a separator remains).  Returns tok itself when the kind does not apply."""
    w = len(tok)
    m = EXPFORM.match(tok)
    mn = None if m else EXPFORM_NOE.match(tok)
    new = None
    if m or mn:
        if m:
            sign, ip, fp, echar, esign, edig = m.groups()
        else:
            sign, ip, fp, esign, edig = mn.groups()
            echar = ''
        if not fp:
            return tok
        lead_zero = (ip in ('0', ''))            # 0.ddddE+ee style, else d.ddddE+ee style
        mant = lambda n: _digits(rnd, n, lead_zero)
        ipn = ip if lead_zero else _digits(rnd, len(ip))
        tail = echar + esign + edig
        if kind == 'neg':
            if sign:
                new = '-' + ipn + '.' + mant(len(fp)) + tail
            elif ip == '0':
                new = '-.' + mant(len(fp)) + tail                  # -.ddddE+ee, as TOUGH2 prints it
            elif left_blanks >= 2:
                new = '-' + ipn + '.' + mant(len(fp)) + tail       # sign in the blank padding
        elif kind == 'zero':
            new = ((('0' * len(ip)) or ('0' if sign else '')) + '.' + '0' * len(fp) + echar + '+' + '0' * len(edig)).rjust(w)
        elif kind in ('exp3', 'noE', 'noEneg'):
            ntail = ('' if kind in ('noE', 'noEneg') else (echar or 'E')) + ('-' if kind == 'noEneg' else rnd.choice('+-')) + str(rnd.randint(100, 290))
            room = len(fp) - (len(ntail) - len(tail))
            if room >= 1:
                new = sign + ipn + '.' + mant(room) + ntail
        elif kind == 'digits':
            new = sign + ipn + '.' + mant(len(fp)) + tail
    else:
        m = FIXFORM.match(tok)
        if m and (m.group(2) or m.group(3)):
            sign, ip, fp = m.groups()
            rd = lambda n: _digits(rnd, n, False)
            if kind == 'neg':
                if sign:
                    new = '-' + rd(len(ip)) + '.' + rd(len(fp))
                elif len(ip) >= 2:
                    new = '-' + rd(len(ip) - 1) + '.' + rd(len(fp))       # -98.723 in the field of 998.723
                elif ip == '0' and fp:
                    new = '-.' + rd(len(fp))
                elif left_blanks >= 2:
                    new = '-' + rd(len(ip)) + '.' + rd(len(fp))
            elif kind == 'zero':
                new = (('0' if ip else '') + '.' + '0' * len(fp)).rjust(w)
            elif kind == 'digits':
                new = sign + rd(len(ip)) + '.' + rd(len(fp))
            # (exponent kinds do not apply to a fixed-point field)
    if new is None or new == tok or len(new) not in (w, w + 1) or not NUM.fullmatch(new.strip()):
        return tok
    if len(new) == w + 1 and left_blanks < 2:
        return tok
    return new


def make_variant(olist, kind, vseed):
    """Rewrites the table cells of the parsed listing in place (olist.lines and the cell tokens)
    and returns the new text.  kind: one of KINDS (every cell) or '<kind>@<percent>' (that kind
    on about that share of the cells, the others unchanged)."""
    rnd = random.Random(vseed)
    lines = olist.lines
    changed = 0
    base, share = kind, 1.0
    if '@' in kind:
        base, pc = kind.split('@')
        share = float(pc) / 100.0
    done = set()
    for blk in olist.blocks:
        for t in blk.tables.values():
            for r in (r for g in t.rows_all for r in g):
                ln = r['lineno']
                if ln in done:
                    continue
                done.add(ln)
                line = lines[ln]
                newcells, kinds = [], []
                first_row = bool(t.rows_all) and bool(t.rows_all[0]) and r is t.rows_all[0][0]
                for ci, (a, b, tok) in enumerate(r['cells']):
                    if ci < t.kintcols:
                        newcells.append((a, b, tok)); kinds.append('same'); continue
                    if base == 'noEfirst':
                        # only the first value of the first row of a table: a letter-less 3-digit negative exponent there
                        # (the row the reader detects the column layout from), every other cell as printed
                        k = 'noEneg' if (first_row and ci == t.kintcols) else 'same'
                    else:
                        k = base if (share >= 1.0 or rnd.random() < share) else 'same'
                    lb = 0
                    while a - 1 - lb >= 0 and line[a - 1 - lb] == ' ':
                        lb += 1
                    new = tok if k == 'same' else perturb_token(tok, k, rnd, lb)
                    if new == tok:
                        k = 'same'
                    else:
                        changed += 1
                    a0 = b - len(new)
                    line = line[:a0] + new + line[b:]
                    a2 = a0 + (len(new) - len(new.lstrip()))
                    newcells.append((a2, b, new.strip())); kinds.append(k)
                lines[ln] = line
                r['line'] = line.rstrip('\r')
                r['cells'] = newcells
                r['kinds'] = kinds
    olist.changed = changed
    return '\n'.join(lines)


# ---------------------------------------------------------------------------------------------
# contracts on the real reader
# ---------------------------------------------------------------------------------------------
def corpus(repo):
    fs = []
    for f in sorted(glob.glob(os.path.join(repo, 'tests', 'listing', '*', '*', '*'))):
        if f.endswith('.npy') or f.endswith('~') or not os.path.isfile(f):
            continue
        fs.append(f)
    return fs


def rel(f):
    parts = f.replace('\\', '/').split('/')
    return '/'.join(parts[-3:])


class Collector(object):
    def __init__(self):
        self.fail = OrderedDict()
        self.evals = Counter()
        self.distinct = set()
        self.samples = []

    def add(self, key, what, inp):
        if key in self.fail:
            self.fail[key]['count'] += 1
        else:
            self.fail[key] = {'key': key, 'what': what, 'input': inp, 'count': 1}


def _same(a, b):
    return a == b or (a != a and b != b)


def contract_rows(table, otab):
    """One row per printed row, printed-index order, keyed by the printed names."""
    got = list(table.row_name)
    # a row printed twice with the same index (TOUGH2-MP border elements) may be kept once or twice
    otab.rows = otab.rows_all if (len(got) == len(otab.rows_all) != len(otab.rows_merged)) else otab.rows_merged
    want = otab.names()
    if got == want:
        return True, ''
    if len(got) != len(want):
        d = 'reader has %d rows, %d rows are printed' % (len(got), len(want))
    else:
        d = 'same count (%d)' % len(got)
    for i, (g, w) in enumerate(zip(got, want)):
        if g != w:
            d += '; first difference at row %d: reader %r, printed %r (line %d)' % (i, g, w, otab.rows[i][-1]['lineno'] + 1)
            break
    return False, d


def contract_colnames(table, otab):
    got = ' '.join(table.column_name).split()
    return got == otab.header_words, 'column names %r do not reproduce the header words %r' % (table.column_name, otab.header_words)


def reader_matrix(table):
    """The table contents through COLUMN-NAME addressing."""
    import numpy as np
    if not table.column_name:
        return np.zeros((table.num_rows, 0))
    return np.column_stack([np.asarray(table[c], float) for c in table.column_name])


def contract_cells(table, otab, M=None):
    """Every cell equals the printed number; returns list of (row, col, got, want_token, want_value)."""
    import numpy as np
    ncols = len(table.column_name)
    bad = []
    if otab.ncells > ncols:
        bad.append((-1, -1, ncols, 'ncols', otab.ncells))
    if M is None:
        M = reader_matrix(table)
    E, isnum, alts = otab.expected(ncols)
    n = min(M.shape[0], E.shape[0])
    if n == 0:
        return bad, M
    A, B = M[:n], E[:n]
    ok = (A == B) | (~isnum[:n] & np.isnan(A))
    if not ok.all():
        for i, j in zip(*np.where(~ok)):
            i, j = int(i), int(j)
            if i in alts and any(v[j] is not None and v[j] == A[i, j] for v in alts[i]):
                continue
            r = otab.rows[i][-1]
            tok = None
            for c, cj in zip(r['cells'], r['cols']):
                if cj == j:
                    tok = c[2]
            bad.append((i, j, float(A[i, j]), tok, None if tok is None else printed_value(tok)))
    return bad, M


def contract_addressing(table, M):
    """table[i], table[row_name[i]] and table[col][i] agree (row names pairwise distinct)."""
    probs = []
    names = table.row_name
    cols = table.column_name
    dup = len(set(names)) != len(names)
    if dup:
        c = Counter(names)
        probs.append(('dup-row-names', 'row names printed more than once: %r' % ([k for k, v in c.items() if v > 1][:3],), None))
    if len(set(cols)) != len(cols):
        c = Counter(cols)
        probs.append(('dup-col-names', 'column names occurring more than once: %r' % ([k for k, v in c.items() if v > 1][:3],), None))
    last = {}
    for i, nm in enumerate(names):
        last[nm] = i
    for i, nm in enumerate(names):
        byi = table[i]
        if byi.get('key') != nm:
            probs.append(('addr-key', 'table[%d]["key"] = %r, row_name[%d] = %r' % (i, byi.get('key'), i, nm), i))
            break
        bad = [c for j, c in enumerate(cols) if not _same(float(byi[c]), float(M[i, j]))]
        if bad and len(set(cols)) == len(cols):
            probs.append(('addr-index-vs-column', 'table[%d][%r] = %r but table[%r][%d] = %r' %
                          (i, bad[0], byi[bad[0]], bad[0], i, M[i, cols.index(bad[0])]), i))
            break
        if last[nm] == i:
            byn = table[nm]
            if byn is None or byn.get('key') != nm or any(not _same(float(byn[c]), float(byi[c])) for c in cols):
                probs.append(('addr-name-vs-index', 'table[%r] = %r but table[%d] = %r' % (nm, byn, i, byi), i))
                break
    return probs


def check_times(n, tier):
    if n <= 0:
        return []
    if tier == 'quick':
        out = []
        for i in (0, n - 1, n // 2):
            if i not in out:
                out.append(i)
        return out
    return list(range(n)) + ([0] if n > 1 else [])


def run_reader(path, skip, otext_listing, col, ctx, tier, do_addressing, cat):
    """Opens `path` with the real reader and evaluates the contracts against the parsed oracle."""
    from t2listing import t2listing
    o = otext_listing
    f = ctx['file']
    skipset = list(skip)
    sk = '+'.join(sorted(skipset)) if skipset else ''
    tag = f + ((' skip=' + sk) if skipset else '')        # keys do not depend on the variant seed / share
    dtag = tag + ((' variant=%s/%d' % (ctx['variant'], ctx['vseed'])) if ctx.get('variant') else '')
    base_inp = {'file': f, 'skip_tables': sorted(skipset)}
    if ctx.get('variant'):
        base_inp.update({'variant': ctx['variant'], 'vseed': ctx['vseed'],
                         'how': 'c05_tables.make_variant(parse_listing(text), variant, vseed)'})
    try:
        lst = t2listing(path, skip_tables=list(skipset))
    except BaseException as e:
        col.evals['open'] += 1
        col.add('%s-exception %s' % (cat, tag), 't2listing(%r, skip_tables=%r) raises %s: %s' %
                (f, sorted(skipset), type(e).__name__, str(e)[:200]), base_inp)
        return None
    col.evals['open'] += 1
    try:
        nt = lst.num_fulltimes
        col.evals['times'] += 1
        if nt != len(o.blocks):
            col.add('%s-times %s' % (cat, tag), 'reader has %d result times, %d result blocks are printed' % (nt, len(o.blocks)), base_inp)
        exposed = list(lst._table.keys())
        prevM = {}
        if o.blocks:
            for name in o.blocks[0].tables:
                col.evals['table-set'] += 1
                if o.blocks[0].tables[name].rows and name not in exposed and name not in skipset:
                    col.add('%s-table-missing %s table=%s' % (cat, tag, name),
                            'table %r is printed at the first result time (%d rows) but the reader does not expose it (exposes %r)' %
                            (name, len(o.blocks[0].tables[name].rows), exposed), dict(base_inp, table=name))
        for ti in check_times(min(nt, len(o.blocks)), tier):
            try:
                lst.index = ti
            except BaseException as e:
                col.add('%s-exception %s index' % (cat, tag), 'set index %d raises %s: %s' % (ti, type(e).__name__, str(e)[:200]),
                        dict(base_inp, index=ti))
                continue
            blk = o.blocks[ti]
            for name in exposed:
                if name in skipset:
                    continue
                table = lst._table[name]
                col.distinct.add((dtag, name, ti))
                if name not in blk.tables or not blk.tables[name].rows:
                    col.evals['rows'] += 1
                    col.add('%s-table-unprinted %s table=%s' % (cat, tag, name),
                            'reader exposes table %r with %d rows at result index %d but no such table is printed in that block (line %d)' %
                            (name, table.num_rows, ti, blk.lineno + 1), dict(base_inp, table=name, index=ti))
                    continue
                ot = blk.tables[name]
                okr, d = contract_rows(table, ot)
                col.evals['rows'] += 1
                if not okr:
                    col.add('%s-rows %s table=%s' % (cat, tag, name), 'result index %d: %s' % (ti, d), dict(base_inp, table=name, index=ti))
                okc, d = contract_colnames(table, ot)
                col.evals['colnames'] += 1
                if not okc:
                    col.add('%s-colnames %s table=%s' % (cat, tag, name), d, dict(base_inp, table=name, header=ot.header_line))
                try:
                    bad, M = contract_cells(table, ot)
                except BaseException as e:
                    col.add('%s-exception %s table=%s cells' % (cat, tag, name), 'reading the cells raises %s: %s' % (type(e).__name__, str(e)[:200]),
                            dict(base_inp, table=name, index=ti))
                    continue
                col.evals['cells-rows'] += len(ot.rows)
                import numpy as np
                if [b_ for b_ in bad if b_[0] >= 0] and name in prevM and prevM[name][1] != ti and \
                        prevM[name][0].shape == M.shape and np.array_equal(prevM[name][0], M, equal_nan=True):
                    b0 = [b_ for b_ in bad if b_[0] >= 0][0]
                    col.add('stale-table %s table=%s' % (tag, name),
                            'at result index %d table %r still holds, cell for cell, what it held at the previously read index %d '
                            '(%d cells differ from what is printed, e.g. row %d column %r: reader %r, printed %r on line %d)' %
                            (ti, name, prevM[name][1], len(bad), b0[0], table.column_name[b0[1]], b0[2], b0[3], ot.rows[b0[0]][-1]['lineno'] + 1),
                            dict(base_inp, table=name, index=ti, previous_index=prevM[name][1]))
                    bad = []
                prevM[name] = (M.copy(), ti)
                col.cells = getattr(col, 'cells', 0) + len(ot.rows) * len(table.column_name)
                for (i, j, got, tok, want) in bad:
                    if i < 0:
                        col.add('%s-ncols %s table=%s' % (cat, tag, name), 'reader has %d columns, a printed row has %d numbers' % (got, want),
                                dict(base_inp, table=name, index=ti))
                        continue
                    r = ot.rows[i][-1]
                    cname = table.column_name[j]
                    c2 = cat
                    own = ''
                    if ctx.get('variant'):
                        kd = 'same'
                        for (cc, cj, kk) in zip(r['cells'], r['cols'], r.get('kinds', [])):
                            if cj == j:
                                kd = kk
                        own = ' (this cell: %s)' % ('rewritten' if kd != 'same' else 'not rewritten')
                        c2 = cat
                    if cat == 'skip':
                        key = 'skip-cell %s table=%s' % (tag, name)
                    elif ctx.get('variant'):
                        key = '%s %s table=%s' % (c2, f, name)
                    else:
                        key = 'cell %s table=%s col=%s' % (f, name, cname)
                    col.add(key, 'result index %d, row %d %r, column %r: reader gives %r, printed %s on line %d%s' %
                            (ti, i, table.row_name[i] if i < table.num_rows else None, cname, got,
                             ('%r (= %r)' % (tok, want)) if tok is not None else 'nothing (blank, = 0.0)', r['lineno'] + 1, own),
                            dict(base_inp, table=name, index=ti, row=i, column=cname, line_number=r['lineno'] + 1, line=r['line']))
                if do_addressing:
                    col.evals['addressing-rows'] += table.num_rows
                    try:
                        probs = contract_addressing(table, M)
                    except BaseException as e:
                        probs = [('addr-exception', '%s: %s' % (type(e).__name__, str(e)[:200]), None)]
                    for (k, d, i) in probs:
                        col.add('%s %s table=%s' % (k, tag, name), 'result index %d: %s' % (ti, d), dict(base_inp, table=name, index=ti, row=i))
                if len(col.samples) < 2 and ot.rows:
                    r = ot.rows[len(ot.rows) // 2][-1]
                    col.samples.append({'case': dtag, 'table': name, 'index': ti, 'line': r['line'][:100],
                                        'tokens': [c[2] for c in r['cells']][:4], 'reader': [float(x) for x in M[len(ot.rows) // 2][:4]] if len(M) > len(ot.rows) // 2 else None})
        return lst
    except Exception as e:
        import traceback
        tb = traceback.extract_tb(sys.exc_info()[2])
        where = ', '.join('%s:%d' % (os.path.basename(fr.filename), fr.lineno) for fr in tb[-3:])
        col.add('%s-exception %s contracts' % (cat, tag), 'evaluating the contracts raises %s: %s (%s)' % (type(e).__name__, str(e)[:200], where), base_inp)
        return None
    finally:
        try:
            lst.close()
        except Exception:
            pass


def baseline_content(path, tier):
    """What the reader exposes without skipping: {(index, table): (row names, matrix)}."""
    from t2listing import t2listing
    try:
        l0 = t2listing(path)
    except BaseException:
        return None
    out = {'nt': l0.num_fulltimes, 'tables': list(l0._table.keys()), 'content': {}}
    try:
        for ti in check_times(l0.num_fulltimes, tier):
            l0.index = ti
            for name, t in l0._table.items():
                out['content'][(ti, name)] = (list(t.row_name), reader_matrix(t).copy(), list(t.column_name))
    except BaseException:
        return None
    finally:
        l0.close()
    return out


def contract_skip(path, skip, base, col, ctx, tier):
    """Skipping the tables in `skip` does not change the contents of the others: same result
    times, the other tables still exposed, same rows, same columns, same cells (as the reader
    itself gives them without skipping)."""
    import numpy as np
    from t2listing import t2listing
    f = ctx['file']
    sk = '+'.join(sorted(skip))
    tag = '%s skip=%s' % (f, sk)
    inp = {'file': f, 'skip_tables': sorted(skip)}
    col.evals['open'] += 1
    try:
        lst = t2listing(path, skip_tables=list(skip))
    except BaseException as e:
        col.add('skip-exception %s' % tag, 't2listing(%r, skip_tables=%r) raises %s: %s' % (f, sorted(skip), type(e).__name__, str(e)[:200]), inp)
        return
    try:
        col.evals['times'] += 1
        if lst.num_fulltimes != base['nt']:
            col.add('skip-times %s' % tag, '%d result times with skipping, %d without' % (lst.num_fulltimes, base['nt']), inp)
        for name in base['tables']:
            col.evals['table-set'] += 1
            if name not in skip and name not in lst._table:
                col.add('skip-table-missing %s table=%s' % (tag, name), 'table %r is exposed without skipping but not with skip_tables=%r (exposed: %r)' %
                        (name, sorted(skip), list(lst._table.keys())), dict(inp, table=name))
        for ti in check_times(min(lst.num_fulltimes, base['nt']), tier):
            try:
                lst.index = ti
            except BaseException as e:
                col.add('skip-exception %s index' % tag, 'set index %d raises %s: %s' % (ti, type(e).__name__, str(e)[:200]), dict(inp, index=ti))
                continue
            for name in base['tables']:
                if name in skip or name not in lst._table or (ti, name) not in base['content']:
                    continue
                rn, M0, cn = base['content'][(ti, name)]
                t = lst._table[name]
                col.distinct.add((tag, name, ti))
                col.evals['skip-rows'] += len(rn)
                if list(t.row_name) != rn or list(t.column_name) != cn:
                    col.add('skip-rows %s table=%s' % (tag, name), 'result index %d: %d rows / %d columns with skipping, %d / %d without (or other names)' %
                            (ti, t.num_rows, t.num_columns, len(rn), len(cn)), dict(inp, table=name, index=ti))
                    continue
                try:
                    M = reader_matrix(t)
                except BaseException as e:
                    col.add('skip-exception %s table=%s cells' % (tag, name), 'reading the cells raises %s: %s' % (type(e).__name__, str(e)[:200]),
                            dict(inp, table=name, index=ti))
                    continue
                col.cells = getattr(col, 'cells', 0) + M.size
                if M.shape != M0.shape or not np.array_equal(M, M0, equal_nan=True):
                    d = ''
                    if M.shape == M0.shape:
                        bad = np.argwhere(~((M == M0) | (np.isnan(M) & np.isnan(M0))))
                        i, j = int(bad[0][0]), int(bad[0][1])
                        d = '%d cells differ, e.g. row %d %r column %r: %r with skipping, %r without' % (len(bad), i, rn[i], cn[j], float(M[i, j]), float(M0[i, j]))
                    col.add('skip-cell %s table=%s' % (tag, name), 'result index %d: %s' % (ti, d), dict(inp, table=name, index=ti))
    except Exception as e:
        col.add('skip-exception %s contracts' % tag, 'evaluating the contract raises %s: %s' % (type(e).__name__, str(e)[:200]), inp)
    finally:
        try:
            lst.close()
        except Exception:
            pass


def worker(job):
    """Runs the sub-jobs of one listing file in this process and prints the collected result."""
    import warnings
    warnings.filterwarnings('ignore')
    sys.path.insert(0, job['repo'])
    col = Collector()
    col.changed, col.notes, col.unclean = 0, [], []
    for sub in job['subjobs']:
        do_job(dict(job, **sub), col)
    out = {'fail': list(col.fail.values()), 'evals': dict(col.evals), 'distinct': [list(map(str, d)) for d in col.distinct],
           'samples': col.samples, 'cells': getattr(col, 'cells', 0), 'notes': col.notes[:5], 'changed': col.changed,
           'unclean': col.unclean[:5]}
    print('@@WORKER@@' + json.dumps(out))


def do_job(job, col):
    path = job['path']
    f = rel(path)
    text = open(path, 'rb').read().decode('latin-1')
    o = parse_listing(text)
    ctx = {'file': f}
    tier = job['tier']
    if job['kind'] == 'base':
        run_reader(path, [], o, col, ctx, tier, True, 'base')
        # rename the generic categories of the base job
    elif job['kind'] == 'skip':
        from t2listing import t2listing
        try:
            l0 = t2listing(path)
            names = list(l0._tablenames)
            l0.close()
        except BaseException as e:
            names = list(o.blocks[0].tables.keys()) if o.blocks else []
        for b in o.blocks:                      # tables that are printed only at later result times
            for nm in b.tables:
                if nm not in names and len(names) < 6:
                    names.append(nm)
        subsets = []
        for k in range(1, len(names) + 1):
            for s in itertools.combinations(names, k):
                subsets.append(s)
        base = baseline_content(path, tier)
        for s in subsets[:64]:
            if base is None:        # the reader cannot open the file unskipped: fall back on the printed text
                run_reader(path, s, o, col, ctx, tier, False, 'skip')
            else:
                contract_skip(path, s, base, col, ctx, tier)
    elif job['kind'] == 'variant':
        ctx.update({'variant': job['variant'], 'vseed': job['vseed']})
        newtext = make_variant(o, job['variant'], job['vseed'])
        # scratch copy keeps the file name (the reader looks at it to detect TOUGH2-MP)
        d = tempfile.mkdtemp(prefix='pytough-c05-', dir=job['scratch'])
        try:
            p2 = os.path.join(d, os.path.basename(path))
            with open(p2, 'wb') as fh:
                fh.write(newtext.encode('latin-1'))
            if os.environ.get('C05_DEBUG'):
                o2 = parse_listing(newtext)
                for b1, b2 in zip(o.blocks, o2.blocks):
                    for nm in b1.tables:
                        t1, t2 = b1.tables[nm], b2.tables.get(nm)
                        a = [[(c[0], c[1], c[2]) for c in r['cells']] for g in t1.rows for r in g]
                        b = [[(c[0], c[1], c[2]) for c in r['cells']] for g in t2.rows for r in g] if t2 else None
                        if a != b:
                            col.samples.append({'selfcheck': 'tokenizer differs from intended tokens', 'file': f, 'table': nm,
                                                'first': next(((x, y) for x, y in zip(a, b or []) if x != y), None)})
            col.changed += o.changed
            run_reader(p2, [], o, col, ctx, tier, False, 'perturb-' + job['variant'].split('@')[0])
        finally:
            shutil.rmtree(d, ignore_errors=True)
    if job['kind'] == 'base':
        col.notes += o.notes[:5] + [n for b in o.blocks[:1] for t in b.tables.values() for n in t.notes[:2]]
        col.unclean += [(bi, n) for bi, b in enumerate(o.blocks) for n, t in b.tables.items() if not t.clean][:5]


def variants_for(tier, seed, fileno):
    """(variant, seed) list: 'digits' = other digits in every cell (same form, same sign, same
    exponent), then the four kinds of the property statement on all / on a share of the cells."""
    K = KINDS
    if tier == 'quick':
        r = (seed + fileno) % 4
        return [('digits', seed * 1000 + 1), (K[r], seed * 1000 + 2), (K[(r + 1 + (seed // 4) % 3) % 4] + '@20', seed * 1000 + 3), ('noEfirst', seed * 1000 + 4)]
    out = [('digits', seed * 1000 + 1), ('digits', seed * 1000 + 2), ('digits@30', seed * 1000 + 3), ('digits@5', seed * 1000 + 4)]
    out += [(k, seed * 1000 + 10 + i) for i, k in enumerate(K)] + [('noEfirst', seed * 1000 + 20), ('noEfirst', seed * 1000 + 21)]
    for j, pc in enumerate((40, 15, 4)):
        out += [('%s@%d' % (k, pc), seed * 1000 + 100 * (j + 1) + i) for i, k in enumerate(K)]
    return out


def main():
    tier = sys.argv[1] if len(sys.argv) > 1 else 'quick'
    seed = int(sys.argv[2]) if len(sys.argv) > 2 else 0
    t0 = time.time()
    from concurrent.futures import ThreadPoolExecutor
    scratch = tempfile.mkdtemp(prefix='pytough-', dir=os.environ.get('PYTOUGH_SCRATCH', '/var/tmp'))
    failures, nfail = OrderedDict(), 0
    evals, distinct, samples, cells, changed = Counter(), set(), [], 0, 0
    notes = []
    try:
        files = corpus(REPO)
        jobs = []
        nsub = 0
        for n, f in enumerate(files):
            subs = [{'kind': 'base'}, {'kind': 'skip'}]
            for (v, vs) in variants_for(tier, seed, n):
                subs.append({'kind': 'variant', 'variant': v, 'vseed': vs + 7919 * n})
            nsub += len(subs)
            # one process per listing file and group of sub-jobs; big files get a process per sub-job
            size = os.path.getsize(f)
            per = 1 if size > 600000 else (2 if size > 250000 else (5 if tier == 'quick' else 6))
            for i in range(0, len(subs), per):
                jobs.append({'path': f, 'subjobs': subs[i:i + per]})
        for j in jobs:
            j.update({'tier': tier, 'repo': REPO, 'scratch': scratch})
        # big files first
        jobs.sort(key=lambda j: -os.path.getsize(j['path']) * sum(4 if sj['kind'] == 'skip' else 1 for sj in j['subjobs']))

        def run(job):
            tag = '%s %s' % (rel(job['path']), '+'.join(sj['kind'] + ((':' + sj['variant']) if sj['kind'] == 'variant' else '') for sj in job['subjobs']))
            env = dict(os.environ, PYTOUGH_REPO=REPO)
            def limit():
                import resource
                resource.setrlimit(resource.RLIMIT_CPU, (JOB_LIMIT, JOB_LIMIT + 5))
            try:
                p = subprocess.run([sys.executable, '-W', 'ignore', os.path.abspath(__file__), '--worker', json.dumps(job)],
                                   stdout=subprocess.PIPE, stderr=subprocess.PIPE, timeout=JOB_WALL, env=env, cwd='/var/tmp',
                                   preexec_fn=limit)
            except subprocess.TimeoutExpired:
                return tag, job, 'timeout', None
            if p.returncode < 0 and -p.returncode in (24, 9):      # SIGXCPU / SIGKILL from the CPU limit
                return tag, job, 'timeout', None
            outl = [l for l in p.stdout.decode('utf-8', 'replace').split('\n') if l.startswith('@@WORKER@@')]
            if not outl:
                return tag, job, 'crash', p.stderr.decode('utf-8', 'replace')[-600:]
            return tag, job, 'ok', json.loads(outl[-1][len('@@WORKER@@'):])

        nworkers = max(2, min(16, (os.cpu_count() or 4)))
        with ThreadPoolExecutor(nworkers) as ex:
            results = list(ex.map(run, jobs))
        harness_errors = []
        for tag, job, status, res in results:
            inp = {'file': rel(job['path']), 'subjobs': job['subjobs']}
            if status == 'timeout':
                failures['timeout ' + tag] = {'key': 'timeout ' + tag, 'what': 'no result within %d s of CPU time (or %d s wall)' % (JOB_LIMIT, JOB_WALL),
                                              'input': inp, 'count': 1}
                continue
            if status == 'crash':
                harness_errors.append((tag, res))
                continue
            for fl in res['fail']:
                if fl['key'] in failures:
                    failures[fl['key']]['count'] += fl['count']
                else:
                    failures[fl['key']] = fl
            evals.update(res['evals'])
            for d in res['distinct']:
                distinct.add(tuple(d))
            cells += res['cells']
            changed += res.get('changed', 0)
            if len(samples) < 6 and res['samples']:
                samples.extend(res['samples'][:1])
            for nte in res['notes']:
                if len(notes) < 10:
                    notes.append(rel(job['path']) + ': ' + nte)
            for u in res.get('unclean', []):
                if len(notes) < 10:
                    notes.append(rel(job['path']) + ': columns not separable by right edges in block %s table %s (sequential cell numbering used)' % tuple(u))
        for tag, err in harness_errors:
            # a worker that dies (segfault, recursion, out of memory in the code under test ...) is a failure, not a harness crash
            sys.stderr.write('worker died: %s\n%s\n' % (tag, err))
            failures['worker-died ' + tag] = {'key': 'worker-died ' + tag, 'what': 'the subprocess died without a result: ' + (err or '')[-300:],
                                              'input': {'jobs': tag}, 'count': 1}
    finally:
        shutil.rmtree(scratch, ignore_errors=True)
    flist = []
    order = sorted(failures, key=lambda k: (k.startswith('perturb-'), k.startswith('timeout')))      # stable
    for k in order:
        fl = failures[k]
        w = ' / '.join(x.strip() for x in fl['what'].splitlines() if x.strip())[:400] + \
            (' [%d occurrences under this key]' % fl['count'] if fl['count'] > 1 else '')
        flist.append({'key': k, 'what': w, 'input': fl['input']})
    samples.append({'files': len(files), 'processes': len(jobs), 'jobs': nsub, 'cells_compared': cells, 'cells_rewritten_in_variants': changed,
                    'evaluations_by_contract': dict(evals), 'oracle_notes': notes})
    print('@@JSON@@' + json.dumps({'evaluations': int(sum(evals.values())), 'distinct': len(distinct), 'failures': flist[:MAXFAIL],
                                   'nfailures': len(flist), 'samples': samples, 'seconds': time.time() - t0}))


if __name__ == '__main__':
    if len(sys.argv) > 2 and sys.argv[1] == '--worker':
        worker(json.loads(sys.argv[2]))
    else:
        main()
