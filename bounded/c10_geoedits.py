"""C10 bounded stand-in: the geometry invariant wf(geo) of DESIGN.md section C10, evaluated at run time
on the REAL mulgrid code after every edit of (a) exhaustively enumerated short edit histories on small
geometries and (b) random long histories on geometries of up to ~300 columns (incl. the shipped g1..g7).

Contracts (plain functions, counted separately):
  contract_completes   the edit returns (no exception other than the documented NamingConventionError, no hang)
  contract_wf          wf(before) ==> wf(after)                     (the invariant, step form)
  contract_valid_mesh  ops that promise a valid mesh leave no (new) missing / extra connections, orphan
                       nodes, non-manifold edges                    (own edge bookkeeping)
  contract_check       mulgrid.check(fix=False) stays True for those ops
  contract_specific    per-op result clauses (split / rename / reduce / delete / no-op cases)
  contract_roundtrip   write + read of the final state is wf and has the same topology / names

usage: c10_geoedits.py <tier> <seed>
Columns are addressed by their rank in a canonical geometric order (vertex mean x, y), because the names
the library hands out after a refinement depend on set iteration order (object addresses).
"""
import sys, os, json, time, random, itertools, signal, tempfile, shutil, io, contextlib, copy, traceback, zlib
sys.path.insert(0, os.environ.get('PYTOUGH_REPO', '/repo'))
import warnings
warnings.filterwarnings('ignore')
import numpy as np
import mulgrids
from mulgrids import mulgrid, node, column, connection, layer, well

REPO = os.environ.get('PYTOUGH_REPO', '/repo')
DEVNULL = open(os.devnull, 'w')
OP_TIMEOUT = 40

# ---------------------------------------------------------------------------------------------
# own geometry / bookkeeping (independent of the library)

def shoelace(pts):
    """Signed area of a polygon given as a list of (x, y); > 0 iff counter-clockwise."""
    x0, y0 = float(pts[0][0]), float(pts[0][1])
    a = 0.0
    n = len(pts)
    for i in range(n):
        x1, y1 = float(pts[i][0]) - x0, float(pts[i][1]) - y0
        x2, y2 = float(pts[(i + 1) % n][0]) - x0, float(pts[(i + 1) % n][1]) - y0
        a += x1 * y2 - x2 * y1
    return 0.5 * a


def ckey(c):
    """Canonical geometric sort key of a column."""
    n = max(len(c.node), 1)
    return (round(sum(float(p.pos[0]) for p in c.node) / n, 6), round(sum(float(p.pos[1]) for p in c.node) / n, 6), len(c.node),
            tuple(sorted((round(float(p.pos[0]), 6), round(float(p.pos[1]), 6)) for p in c.node)))


def canon(geo):
    return sorted(geo.columnlist, key=ckey)


def nkey(n):
    return (round(float(n.pos[0]), 6), round(float(n.pos[1]), 6))


def col_edges(c):
    n = len(c.node)
    return [(c.node[i], c.node[(i + 1) % n]) for i in range(n)] if n > 1 else []


def edge_table(geo):
    """undirected edge (pair of node ids) -> list of columns having it as a side"""
    edges = {}
    for c in geo.columnlist:
        for a, b in col_edges(c):
            edges.setdefault(frozenset((id(a), id(b))), []).append(c)
    return edges


def adjacency(geo):
    """column id -> set of column ids sharing a side (own bookkeeping)."""
    adj = dict((id(c), set()) for c in geo.columnlist)
    for cs in edge_table(geo).values():
        for a, b in itertools.combinations(cs, 2):
            adj[id(a)].add(id(b)); adj[id(b)].add(id(a))
    return adj


def is_connected(geo, cols=None):
    cols = geo.columnlist if cols is None else cols
    if not cols: return False
    adj = adjacency(geo)
    ids = set(id(c) for c in cols)
    seen, todo = set(), [id(cols[0])]
    while todo:
        i = todo.pop()
        if i in seen: continue
        seen.add(i)
        todo.extend(j for j in adj[i] if j in ids and j not in seen)
    return seen == ids


def mesh_defects(geo):
    """Own computation of: missing connections (columns sharing a side without a connection), extra
    connections (connection between columns sharing no side), orphan nodes, non-manifold edges."""
    edges = edge_table(geo)
    conpairs = {}
    for k in geo.connectionlist:
        conpairs[frozenset(id(c) for c in k.column)] = k
    shared = {}
    nonmanifold = []
    for e, cs in edges.items():
        if len(cs) > 2: nonmanifold.append(tuple(sorted(c.name for c in cs)))
        for a, b in itertools.combinations(cs, 2):
            shared[frozenset((id(a), id(b)))] = (a, b)
    missing = sorted(tuple(sorted((a.name, b.name))) for p, (a, b) in shared.items() if p not in conpairs)
    extra = sorted(tuple(c.name for c in k.column) for p, k in conpairs.items() if p not in shared)
    used = set(id(n) for c in geo.columnlist for n in c.node)
    orphans = sorted(n.name for n in geo.nodelist if id(n) not in used)
    return {'missing': missing, 'extra': extra, 'orphans': orphans, 'nonmanifold': sorted(nonmanifold)}


# ---------------------------------------------------------------------------------------------
# the invariant

def fresh_name_lists(geo):
    """What a fresh recomputation of the block / connection name lists gives (geo is left untouched)."""
    keep = (geo.block_name_list, geo.block_name_index, geo.block_connection_name_list, geo.block_connection_name_index)
    try:
        geo.setup_block_name_index()
        geo.setup_block_connection_name_index()
        return (geo.block_name_list, geo.block_name_index, geo.block_connection_name_list, geo.block_connection_name_index)
    finally:
        (geo.block_name_list, geo.block_name_index, geo.block_connection_name_list, geo.block_connection_name_index) = keep


def semantic_names(geo):
    """Independent statement of which blocks / block connections the geometry represents (as sets)."""
    if not geo.layerlist: return set(), set()
    atm = geo.layerlist[0]
    blocks = set()
    cons = set()
    if geo.atmosphere_type == 0: blocks.add(geo.block_name(atm.name, geo.atmosphere_column_name))
    for c in geo.columnlist:
        if geo.atmosphere_type == 1: blocks.add(geo.block_name(atm.name, c.name))
        mine = [l for l in geo.layerlist[1:] if c.surface > l.bottom]
        for i, l in enumerate(mine):
            b = geo.block_name(l.name, c.name)
            blocks.add(b)
            if i == 0:
                if geo.atmosphere_type == 0: cons.add(frozenset((b, geo.block_name(atm.name, geo.atmosphere_column_name))))
                elif geo.atmosphere_type == 1: cons.add(frozenset((b, geo.block_name(atm.name, c.name))))
            else:
                cons.add(frozenset((b, geo.block_name(mine[i - 1].name, c.name))))
    for k in geo.connectionlist:
        a, b = k.column
        for l in geo.layerlist[1:]:
            if a.surface > l.bottom and b.surface > l.bottom:
                cons.add(frozenset((geo.block_name(l.name, a.name), geo.block_name(l.name, b.name))))
    return blocks, cons


def wf(geo):
    """The invariant wf(geo) of DESIGN.md section C10. Returns a list of (category, detail); [] = well formed."""
    v = []
    def bad(cat, detail):
        if sum(1 for c, _ in v if c == cat) < 3: v.append((cat, detail))
    # 1. by-name lookups and ordered lists agree
    for kind, lst, dct in (('node', geo.nodelist, geo.node), ('column', geo.columnlist, geo.column),
                           ('layer', geo.layerlist, geo.layer), ('well', geo.welllist, geo.well)):
        if len(lst) != len(dct): bad('lookup-' + kind, '%s list has %d entries, lookup has %d' % (kind, len(lst), len(dct)))
        seen = set()
        for o in lst:
            if o.name in seen: bad('lookup-' + kind, 'name %r twice in %s list' % (o.name, kind))
            seen.add(o.name)
            if dct.get(o.name) is not o: bad('lookup-' + kind, '%s[%r] is not the %s of that name in the list' % (kind, o.name, kind))
        ids = set(id(o) for o in lst)
        for key, o in dct.items():
            if id(o) not in ids: bad('lookup-' + kind, '%s[%r] is not in the list' % (kind, key))
            elif o.name != key: bad('lookup-' + kind, '%s[%r] has name %r' % (kind, key, o.name))
    if len(geo.connectionlist) != len(geo.connection):
        bad('lookup-connection', 'connection list has %d entries, lookup has %d' % (len(geo.connectionlist), len(geo.connection)))
    kids = set(id(k) for k in geo.connectionlist)
    for k in geo.connectionlist:
        key = tuple(c.name for c in k.column)
        if geo.connection.get(key) is not k: bad('lookup-connection', 'connection[%r] is not the listed connection %r' % (key, k))
    for key, k in geo.connection.items():
        if id(k) not in kids: bad('lookup-connection', 'connection[%r] is not in the list' % (key,))
        elif tuple(c.name for c in k.column) != tuple(key): bad('lookup-connection', 'connection[%r] joins %r' % (key, tuple(c.name for c in k.column)))
    # 2. each node knows exactly the columns that use it
    nids = set(id(n) for n in geo.nodelist)
    cids = set(id(c) for c in geo.columnlist)
    uses = dict((id(n), set()) for n in geo.nodelist)
    for c in geo.columnlist:
        for n in c.node:
            if id(n) not in nids: bad('dangling-node', 'column %r uses node %r which is not in the node list' % (c.name, n.name))
            else: uses[id(n)].add(id(c))
    for n in geo.nodelist:
        have = set(id(c) for c in n.column)
        if have != uses[id(n)]:
            names = dict((id(c), c.name) for c in list(geo.columnlist) + list(n.column))
            bad('node-column', 'node %r: column = %r, columns using it = %r' % (n.name, sorted(names[i] for i in have), sorted(names[i] for i in uses[id(n)])))
    # 3. each column knows exactly its connections and neighbours
    cons = dict((id(c), set()) for c in geo.columnlist)
    nbrs = dict((id(c), set()) for c in geo.columnlist)
    pairs = set()
    for k in geo.connectionlist:
        if len(k.column) != 2 or k.column[0] is k.column[1]:
            bad('con-columns', 'connection %r does not join two distinct columns' % (k,)); continue
        p = frozenset(id(c) for c in k.column)
        if p in pairs: bad('dup-connection', 'two connections join %r' % (k,))
        pairs.add(p)
        for i, c in enumerate(k.column):
            if id(c) not in cids: bad('dangling-column', 'connection %r refers to column %r which is not in the column list' % (k, c.name))
            else:
                cons[id(c)].add(id(k))
                if id(k.column[1 - i]) in cids: nbrs[id(c)].add(id(k.column[1 - i]))
    cname = dict((id(c), c.name) for c in geo.columnlist)
    for c in geo.columnlist:
        have = set(id(k) for k in c.connection)
        if have != cons[id(c)]:
            bad('col-connection', 'column %r: connection = %r, connections naming it = %r' %
                (c.name, sorted(repr(k) for k in c.connection), sorted(repr(k) for k in geo.connectionlist if id(k) in cons[id(c)])))
        nb = set(id(x) for x in c.neighbour)
        if nb != nbrs[id(c)]:
            bad('col-neighbour', 'column %r: neighbour = %r, other ends of its connections = %r' %
                (c.name, sorted(x.name for x in c.neighbour), sorted(cname[i] for i in nbrs[id(c)])))
        for x in c.neighbour:
            if not any(y is c for y in x.neighbour): bad('col-neighbour', 'column %r has neighbour %r but not the reverse' % (c.name, x.name))
    # 4. each connection's two nodes are the edge its two columns share (first column's orientation)
    for k in geo.connectionlist:
        if len(k.column) != 2: continue
        d0 = [(id(a), id(b)) for a, b in col_edges(k.column[0])]
        u1 = set(frozenset((id(a), id(b))) for a, b in col_edges(k.column[1]))
        sharededges = [e for e in d0 if frozenset(e) in u1]
        if not sharededges:
            bad('con-noedge', 'connection %r joins columns that share no side' % (k,)); continue
        if k.node is None or len(k.node) != 2:
            bad('con-node', 'connection %r has node = %r' % (k, k.node)); continue
        e = (id(k.node[0]), id(k.node[1]))
        if e not in sharededges:
            what = 'reversed' if (e[1], e[0]) in sharededges else 'not the shared side'
            bad('con-node', 'connection %r: node = %r is %s of its columns' % (k, [n.name for n in k.node], what))
    # 5. every column counter-clockwise with positive area (and the stored area is that area)
    for c in geo.columnlist:
        if len(c.node) < 3: bad('col-orientation', 'column %r has %d nodes' % (c.name, len(c.node))); continue
        a = shoelace([n.pos for n in c.node])
        per = sum(float(np.hypot(*(q.pos - p.pos))) for p, q in col_edges(c))
        if not a > 1e-10 * per * per: bad('col-orientation', 'column %r has signed area %g (perimeter %g)' % (c.name, a, per))
        elif abs(c.area - a) > 1e-9 * max(1.0, abs(a)): bad('col-area-stale', 'column %r: stored area %.12g, polygon area %.12g' % (c.name, c.area, a))
    # 6. layer count matching the surface
    for c in geo.columnlist:
        want = len(geo.layerlist) - 1 if c.surface is None else sum(1 for l in geo.layerlist[1:] if l.bottom < c.surface)
        if c.num_layers != want: bad('num-layers', 'column %r: num_layers = %r but %d layers have bottom < surface %r' % (c.name, c.num_layers, want, c.surface))
    # 7. name lists are what a fresh recomputation gives
    try:
        bl, bi, cl, ci = fresh_name_lists(geo)
        if list(geo.block_name_list) != list(bl):
            bad('wf-blocknames', 'block_name_list has %d names, fresh recomputation %d; first difference: %r' %
                (len(geo.block_name_list), len(bl), sorted(set(geo.block_name_list) ^ set(bl))[:4] or 'order'))
        elif geo.block_name_index != bi: bad('wf-blocknames', 'block_name_index differs from a fresh recomputation')
        if list(geo.block_connection_name_list) != list(cl):
            bad('wf-connames', 'block_connection_name_list has %d names, fresh recomputation %d; first difference: %r' %
                (len(geo.block_connection_name_list), len(cl), sorted(set(geo.block_connection_name_list) ^ set(cl))[:3] or 'order'))
        elif geo.block_connection_name_index != ci: bad('wf-connames', 'block_connection_name_index differs from a fresh recomputation')
        sb, sc = semantic_names(geo)
        if set(bl) != sb or len(bl) != len(sb): bad('sem-blocknames', 'fresh block names differ from the blocks the geometry has: %r' % (sorted(set(bl) ^ sb)[:4],))
        if set(frozenset(x) for x in cl) != sc or len(cl) != len(sc):
            bad('sem-connames', 'fresh block connection names differ from the connections the geometry has: %r' %
                (sorted(tuple(sorted(x)) for x in (set(frozenset(x) for x in cl) ^ sc))[:3],))
    except Exception as e:
        bad('names-exception', 'recomputing the name lists raises %s: %s' % (type(e).__name__, e))
    return v


NONBLOCKING = ('wf-blocknames', 'wf-connames')


def signature(geo):
    return (tuple((n.name, round(float(n.pos[0]), 9), round(float(n.pos[1]), 9)) for n in geo.nodelist),
            tuple((c.name, tuple(n.name for n in c.node), c.surface, c.num_layers) for c in geo.columnlist),
            tuple(sorted(tuple(sorted(c.name for c in k.column)) for k in geo.connectionlist)),
            tuple((l.name, l.bottom, l.centre, l.top) for l in geo.layerlist),
            tuple((w.name, tuple(tuple(float(x) for x in p) for p in w.pos)) for w in geo.welllist),
            tuple(geo.block_name_list), tuple(geo.block_connection_name_list))


def clone(geo):
    """Faithful copy of the whole object graph (incl. any inconsistency), without recursion."""
    nmap, cmap, kmap = {}, {}, {}
    def N(n):
        if id(n) not in nmap:
            m = node.__new__(node); m.__dict__ = dict(n.__dict__); m.pos = np.array(n.pos, dtype=float); nmap[id(n)] = (m, n)
        return nmap[id(n)][0]
    def C(c):
        if id(c) not in cmap:
            m = column.__new__(column); m.__dict__ = dict(c.__dict__)
            if c.centre is not None: m.centre = np.array(c.centre, dtype=float)
            cmap[id(c)] = (m, c)
        return cmap[id(c)][0]
    def K(k):
        if id(k) not in kmap:
            m = connection.__new__(connection); m.__dict__ = dict(k.__dict__); kmap[id(k)] = (m, k)
        return kmap[id(k)][0]
    g = mulgrid.__new__(mulgrid)
    g.__dict__ = dict(geo.__dict__)
    g.nodelist = [N(n) for n in geo.nodelist]
    g.node = dict((key, N(n)) for key, n in geo.node.items())
    g.columnlist = [C(c) for c in geo.columnlist]
    g.column = dict((key, C(c)) for key, c in geo.column.items())
    g.connectionlist = [K(k) for k in geo.connectionlist]
    g.connection = dict((key, K(k)) for key, k in geo.connection.items())
    done = set()
    while True:   # close the graph
        todo = [x for x in list(nmap.values()) + list(cmap.values()) + list(kmap.values()) if id(x[1]) not in done]
        if not todo: break
        for m, o in todo:
            done.add(id(o))
            if isinstance(o, node): m.column = set(C(c) for c in o.column)
            elif isinstance(o, column):
                m.node = [N(n) for n in o.node]
                m.neighbour = set(C(c) for c in o.neighbour)
                m.connection = set(K(k) for k in o.connection)
            else:
                m.column = [C(c) for c in o.column]
                m.node = None if o.node is None else [N(n) for n in o.node]
    lmap = dict((id(l), copy.copy(l)) for l in list(geo.layerlist) + list(geo.layer.values()))
    g.layerlist = [lmap[id(l)] for l in geo.layerlist]
    g.layer = dict((key, lmap[id(l)]) for key, l in geo.layer.items())
    wmap = {}
    for w in list(geo.welllist) + list(geo.well.values()):
        if id(w) not in wmap:
            m = copy.copy(w); m.pos = [np.array(p, dtype=float) for p in w.pos]; wmap[id(w)] = m
    g.welllist = [wmap[id(w)] for w in geo.welllist]
    g.well = dict((key, wmap[id(w)]) for key, w in geo.well.items())
    g.block_name_list = list(geo.block_name_list); g.block_name_index = dict(geo.block_name_index)
    g.block_connection_name_list = list(geo.block_connection_name_list)
    g.block_connection_name_index = dict(geo.block_connection_name_index)
    return g


# ---------------------------------------------------------------------------------------------
# base geometries

def finish(g, surfaces):
    for c, s in zip(canon(g), itertools.cycle(surfaces)):
        c.surface = s
        g.set_column_num_layers(c)
    g.setup_block_name_index(); g.setup_block_connection_name_index()
    return g


def build_base(spec):
    """spec: ['rect', dx, dy, dz, atmos, convention, surfaces] | ['mixed5'] | ['file', name, maxcols, seed]
    | ['refined', spec, [ops]]"""
    kind = spec[0]
    with contextlib.redirect_stdout(DEVNULL):
        if kind == 'rect':
            _, dx, dy, dz, atm, conv, surfaces = spec
            g = mulgrid().rectangular(dx, dy, dz, atmos_type=atm, convention=conv)
            g.add_well(well('w   1', [np.array([0.3 * sum(dx), 0.4 * sum(dy), 0.0]), np.array([0.35 * sum(dx), 0.45 * sum(dy), -sum(dz)])]))
            return finish(g, surfaces)
        if kind == 'mixed5':
            P = {'  a': (0, 0), '  b': (2, 0), '  c': (4, 0), '  d': (0, 2), '  e': (2, 2), '  f': (4, 2), '  g': (1, 3.5),
                 '  h': (4.5, 3.5), '  i': (2.5, 4.5), '  j': (5.5, 1)}
            g = mulgrid(convention=0, atmos_type=2)
            for nm in sorted(P): g.add_node(node(nm, np.array(P[nm], dtype=float)))
            cols = [('  a', 'abed'), ('  b', 'bcfe'), ('  c', 'deg'), ('  d', 'efhig'), ('  e', 'cjf')]
            for nm, ns in cols: g.add_column(column(nm, [g.node['  ' + x] for x in ns]))
            g.add_layers([1., 1., 2.], 0.0)
            g.set_default_surface()
            # connections from own edge bookkeeping
            for cs in edge_table(g).values():
                if len(cs) == 2: g.add_connection(connection(sorted(cs, key=lambda c: c.name)))
            g.identify_neighbours()
            g.add_well(well('w   1', [np.array([1., 1., 0.]), np.array([1.2, 1.1, -4.])]))
            return finish(g, [0.0, -0.5, -1.0, -1.25, 0.0])
        if kind == 'file':
            _, name, maxcols, fseed = spec
            g = mulgrid(os.path.join(REPO, 'tests', 'mulgrid', name))
            g.check(fix=True, silent=True)
            g.identify_neighbours()     # check(fix=True) does not do this itself: see the 'fileraw' + check-fix case
            g.setup_block_name_index(); g.setup_block_connection_name_index()
            if g.num_columns > maxcols:
                r = random.Random(fseed)
                adj = adjacency(g)
                byid = dict((id(c), c) for c in g.columnlist)
                start = canon(g)[r.randrange(g.num_columns)]
                region, frontier = [id(start)], [id(start)]
                inreg = set(region)
                while frontier and len(region) < maxcols:
                    i = frontier.pop(0)
                    for j in sorted(adj[i], key=lambda j: ckey(byid[j])):
                        if j not in inreg and len(region) < maxcols:
                            inreg.add(j); region.append(j); frontier.append(j)
                g.reduce([byid[i] for i in region])
            return g
        if kind == 'fileraw':
            return mulgrid(os.path.join(REPO, 'tests', 'mulgrid', spec[1]))
        if kind == 'refined':
            g = build_base(spec[1])
            for op in spec[2]: apply_op(g, op)
            return g
    raise ValueError(spec)


COPY_LAYER_VARIANTS = [([0.5, 0.5, 1., 1., 1.], 0.0), ([2., 2.], 0.0), ([1., 1., 1.], -0.5), ([0.25, 0.75, 3.], 0.5)]


# ---------------------------------------------------------------------------------------------
# operations (descriptors are JSON-able lists; columns by canonical rank)

def fresh_colnames(geo, k):
    out = []
    if geo.convention in (0, 3):
        for a in 'zyxwvu':
            for b in 'zyxwvutsrqponmlkjihgfedcba':
                for c in 'abcdefghijklmnopqrstuvwxyz':
                    nm = a + b + c
                    if nm not in geo.column:
                        out.append(nm)
                        if len(out) == k: return out
    else:
        ln = geo.colname_length
        for i in range(10 ** ln - 1, 0, -1):
            nm = str(i).rjust(ln)
            if nm not in geo.column:
                out.append(nm)
                if len(out) == k: return out
    return out


def boundary_edges(geo):
    out = []
    for e, cs in edge_table(geo).items():
        if len(cs) == 1:
            c = cs[0]
            for a, b in col_edges(c):
                if frozenset((id(a), id(b))) == e: out.append((c, a, b))
    out.sort(key=lambda t: (nkey(t[1]), nkey(t[2])))
    return out


def apply_op(geo, op):
    """Applies the described edit through the library's public methods. Returns (result, python call text)."""
    k = op[0]
    cols = canon(geo)
    def names(idx): return [cols[i].name for i in idx]
    if k == 'split':
        c = cols[op[1]]
        n = sorted(c.node, key=nkey)[op[2] % len(c.node)]
        return geo.split_column(c.name, n.name), 'g.split_column(%r, %r)' % (c.name, n.name)
    if k == 'rename':
        old = names(op[1]); new = fresh_colnames(geo, len(old))
        return geo.rename_column(old, new), 'g.rename_column(%r, %r)' % (old, new)
    if k == 'rename1':
        old = names(op[1])[0]; new = fresh_colnames(geo, 1)[0]
        return geo.rename_column(old, new), 'g.rename_column(%r, %r)' % (old, new)
    if k == 'rename-perm':
        old = names(op[1]); new = old[1:] + old[:1]
        return geo.rename_column(old, new), 'g.rename_column(%r, %r)' % (old, new)
    if k == 'refine':
        sel, edge = names(op[2]), names(op[3])
        return geo.refine(sel, bisect=op[1], bisect_edge_columns=edge), 'g.refine(%r, bisect=%r, bisect_edge_columns=%r)' % (sel, op[1], edge)
    if k == 'refine-all':
        return geo.refine(bisect=op[1]), 'g.refine(bisect=%r)' % (op[1],)
    if k == 'decompose':
        sel = names(op[1])
        return geo.decompose_columns(sel), 'g.decompose_columns(%r)' % (sel,)
    if k == 'decompose-all':
        return geo.decompose_columns(), 'g.decompose_columns()'
    if k == 'reduce':
        sel = names(op[1])
        return geo.reduce(sel), 'g.reduce(%r)' % (sel,)
    if k == 'delete':
        sel = names(op[1])
        for nm in sel: geo.delete_column(nm)
        return None, '; '.join('g.delete_column(%r)' % nm for nm in sel)
    if k == 'snap':
        sel = names(op[2])
        return geo.snap_columns_to_layers(op[1], sel), 'g.snap_columns_to_layers(%r, %r)' % (op[1], sel)
    if k == 'snap-nearest':
        sel = names(op[1])
        return geo.snap_columns_to_nearest_layers(sel), 'g.snap_columns_to_nearest_layers(%r)' % (sel,)
    if k == 'refine_layers':
        sel = [geo.layerlist[i].name for i in op[1]]
        return geo.refine_layers(sel, factor=op[2]), 'g.refine_layers(%r, factor=%r)' % (sel, op[2])
    if k == 'translate':
        return geo.translate(list(op[1]), wells=op[2]), 'g.translate(%r, wells=%r)' % (list(op[1]), op[2])
    if k == 'rotate':
        return geo.rotate(op[1], centre=op[2], wells=op[3]), 'g.rotate(%r, centre=%r, wells=%r)' % (op[1], op[2], op[3])
    if k == 'copy_layers':
        th, top = COPY_LAYER_VARIANTS[op[1]]
        other = mulgrid().rectangular([1.], [1.], th, origin=[0., 0., top], convention=geo.convention)
        return geo.copy_layers_from(other), 'g.copy_layers_from(mulgrid().rectangular([1.], [1.], %r, origin=[0., 0., %r], convention=%d))' % (th, top, geo.convention)
    if k == 'add_well':
        b = geo.bounds
        p = [float(b[0][0] + 0.37 * (b[1][0] - b[0][0])), float(b[0][1] + 0.61 * (b[1][1] - b[0][1]))]
        nm = 'w%4d' % (len(geo.welllist) + 2)
        w = well(nm, [np.array(p + [0.0]), np.array(p + [-2.0])])
        return geo.add_well(w), 'g.add_well(well(%r, [np.array(%r), np.array(%r)]))' % (nm, p + [0.0], p + [-2.0])
    if k == 'delete_well':
        nm = geo.welllist[op[1]].name
        return geo.delete_well(nm), 'g.delete_well(%r)' % nm
    if k == 'add_layer':
        bot = geo.layerlist[-1].bottom
        nm = 'zz'.rjust(geo.layername_length)
        return geo.add_layer(layer(nm, bot - 1.0, bot - 0.5, bot)), 'g.add_layer(layer(%r, %r, %r, %r))' % (nm, bot - 1.0, bot - 0.5, bot)
    if k == 'delete_layer':
        nm = geo.layerlist[op[1]].name
        return geo.delete_layer(nm), 'g.delete_layer(%r)' % nm
    if k == 'rename_layer':
        nm = geo.layerlist[op[1]].name; new = 'zy'.rjust(geo.layername_length)
        return geo.rename_layer(nm, new), 'g.rename_layer(%r, %r)' % (nm, new)
    if k == 'delete_connection':
        a, b = cols[op[1][0]], cols[op[1][1]]
        key = [tuple(c.name for c in kk.column) for kk in geo.connectionlist if set(map(id, kk.column)) == set((id(a), id(b)))][0]
        return geo.delete_connection(key), 'g.delete_connection(%r)' % (key,)
    if k == 'grow':
        c, a, b = boundary_edges(geo)[op[1]]
        mid = 0.5 * (a.pos + b.pos); d = b.pos - a.pos
        apex = mid + 0.4 * np.array([d[1], -d[0]])     # to the right of a->b, i.e. outside a ccw column
        nn = geo.new_node_name()[0]; cn = geo.new_column_name()[0]
        geo.add_node(node(nn, apex))
        newcol = column(cn, [b, a, geo.node[nn]], surface=c.surface)
        geo.add_column(newcol)
        for con in geo.missing_connections: geo.add_connection(con)
        geo.identify_neighbours()
        geo.set_column_num_layers(newcol)
        geo.setup_block_name_index(); geo.setup_block_connection_name_index()
        return None, ('g.add_node(node(%r, np.array(%r))); g.add_column(column(%r, [g.node[%r], g.node[%r], g.node[%r]], surface=%r)); '
                      '[g.add_connection(c) for c in g.missing_connections]; g.identify_neighbours(); g.set_column_num_layers(g.column[%r]); '
                      'g.setup_block_name_index(); g.setup_block_connection_name_index()') % (nn, [float(x) for x in apex], cn, b.name, a.name, nn, c.surface, cn)
    if k == 'check-fix':
        return geo.check(fix=True, silent=True), 'g.check(fix=True, silent=True)'
    if k == 'add_node':
        nn = geo.new_node_name()[0]
        b = geo.bounds
        return geo.add_node(node(nn, np.array([float(b[1][0]) + 10., float(b[1][1]) + 10.]))), 'g.add_node(node(%r, np.array([%r, %r])))' % (nn, float(b[1][0]) + 10., float(b[1][1]) + 10.)
    if k == 'delete_node':
        used = set(id(n) for c in geo.columnlist for n in c.node)
        nm = [n.name for n in geo.nodelist if id(n) not in used][0]
        return geo.delete_node(nm), 'g.delete_node(%r)' % nm
    if k == 'fit_surface':
        r = np.random.RandomState(op[1])
        b = geo.bounds
        m = 40
        data = np.column_stack([b[0][0] + r.rand(m) * (b[1][0] - b[0][0]), b[0][1] + r.rand(m) * (b[1][1] - b[0][1]),
                                geo.layerlist[-1].bottom + r.rand(m) * 1.1 * (geo.layerlist[0].bottom - geo.layerlist[-1].bottom)])
        sel = names(op[2])
        return (geo.fit_surface(data, columns=sel, layer_snap=op[3], silent=True),
                'r = np.random.RandomState(%d); b = g.bounds; data = np.column_stack([b[0][0] + r.rand(40) * (b[1][0] - b[0][0]), b[0][1] + r.rand(40) * (b[1][1] - b[0][1]), '
                'g.layerlist[-1].bottom + r.rand(40) * 1.1 * (g.layerlist[0].bottom - g.layerlist[-1].bottom)]); g.fit_surface(data, columns=%r, layer_snap=%r, silent=True)' % (op[1], sel, op[3]))
    raise ValueError('unknown op %r' % (op,))


# ops after which the mesh must be valid (no missing / extra connections, no orphan nodes) if it was before
PROMISES_VALID = set(['split', 'rename', 'rename1', 'rename-perm', 'refine', 'refine-all', 'decompose', 'decompose-all', 'reduce', 'snap',
                      'snap-nearest', 'refine_layers', 'translate', 'rotate', 'copy_layers', 'add_well', 'delete_well', 'rename_layer',
                      'grow', 'fit_surface', 'delete_node', 'check-fix'])


def subset_family(n, rnd, fam):
    """Index subsets of range(n): every non-empty subset when n <= fam['exh'], else a bounded family."""
    if n <= max(fam['exh'], 2):
        return [list(s) for k in range(1, n + 1) for s in itertools.combinations(range(n), k)]
    out = [list(range(n))]
    singles = list(range(n)); rnd.shuffle(singles)
    out += [[i] for i in sorted(singles[:fam['singles']])]
    out += [[j for j in range(n) if j != i] for i in sorted(singles[:fam['compl']])]
    for _ in range(fam['random']):
        k = rnd.randint(2, max(2, n - 1))
        out.append(sorted(rnd.sample(range(n), k)))
    seen, uniq = set(), []
    for s in out:
        if tuple(s) not in seen: seen.add(tuple(s)); uniq.append(s)
    return uniq


def edge_columns(geo, cols, sel):
    """ranks of the columns outside the selection that share a side with it (own adjacency)"""
    adj = adjacency(geo)
    ids = set(id(cols[i]) for i in sel)
    out = set()
    for i in sel: out |= adj[id(cols[i])]
    out -= ids
    return [i for i, c in enumerate(cols) if id(c) in out]


def ops_for(geo, rnd, fam):
    cols = canon(geo)
    n = len(cols)
    ops = []
    if n == 0: return ops
    subsets = subset_family(n, rnd, fam)
    order = list(range(n))
    if n > fam['maxsplit']: order = sorted(rnd.sample(order, fam['maxsplit']))
    for i in order:
        if len(cols[i].node) == 4: ops += [['split', i, j] for j in range(4)]
        else: ops.append(['split', i, 0])
    lite = fam.get('lite', False)
    for s in subsets:
        ops.append(['rename', s])
        for mode in ((False, ['x', 'y', True][(len(s) + s[0]) % 3]) if lite else (False, 'x', 'y', True)): ops.append(['refine', mode, s, []])
        e = edge_columns(geo, cols, s)
        if e:
            ops.append(['refine', [False, 'x', 'y', True][(len(s) + s[0]) % 4], s, e])
            if len(e) > 1 and not lite: ops.append(['refine', [True, 'y', False, 'x'][(len(s) + s[0]) % 4], s, e[::2]])
        ops.append(['decompose', s])
        ops.append(['reduce', s])
        if len(s) < n: ops.append(['delete', s])
        ops.append(['snap', 0.6, s])
    ops.append(['rename1', [0]])
    if n >= 2: ops.append(['rename-perm', [0, 1]])
    if n >= 3: ops.append(['rename-perm', [0, n // 2, n - 1]])
    for mode in ((False,) if lite else (False, 'x', 'y', True)): ops.append(['refine-all', mode])
    ops.append(['decompose-all'])
    ops.append(['snap', 5.0, []])
    if not lite: ops.append(['snap', 0.6, []]); ops.append(['snap', 0.0, []])
    ops.append(['snap-nearest', []])
    if not lite: ops.append(['snap-nearest', subsets[len(subsets) // 2]])
    nl = len(geo.layerlist)
    if nl > 1:
        if fam['layers'] == 'all' and nl <= 5:
            lsub = [list(s) for k in range(1, nl) for s in itertools.combinations(range(1, nl), k)]
            for s in lsub:
                for f in (2, 3): ops.append(['refine_layers', s, f])
            ops.append(['refine_layers', [], 2]); ops.append(['refine_layers', [0, 1], 4])
        else:
            ops.append(['refine_layers', [], 2])
            ops.append(['refine_layers', sorted(rnd.sample(range(1, nl), rnd.randint(1, min(3, nl - 1)))), rnd.choice([2, 3, 4])])
        ops.append(['delete_layer', nl - 1]); ops.append(['add_layer']); ops.append(['rename_layer', 1])
    ops.append(['translate', [1.5, -2.25, 0.75], False]); ops.append(['translate', [0., 0., -0.5], True])
    ops.append(['rotate', 30., None, False]); ops.append(['rotate', 90., [0., 0.], True])
    for v in ([rnd.randrange(len(COPY_LAYER_VARIANTS))] if lite else range(len(COPY_LAYER_VARIANTS))): ops.append(['copy_layers', v])
    ops.append(['add_well'])
    if geo.welllist: ops.append(['delete_well', 0])
    pairs = []
    rank = dict((id(c), i) for i, c in enumerate(cols))
    for k in geo.connectionlist:
        if all(id(c) in rank for c in k.column): pairs.append(sorted(rank[id(c)] for c in k.column))
    pairs.sort()
    if len(pairs) > fam['cons']: pairs = sorted(rnd.sample(pairs, fam['cons']))
    ops += [['delete_connection', p] for p in pairs]
    nb = len(boundary_edges(geo))
    for i in sorted(set([0, nb // 3, (2 * nb) // 3]))[:fam['grow']]:
        if i < nb: ops.append(['grow', i])
    ops.append(['add_node']); ops.append(['check-fix'])
    used = set(id(x) for c in geo.columnlist for x in c.node)
    if any(id(x) not in used for x in geo.nodelist): ops.append(['delete_node'])
    if fam['fit']:
        ops.append(['fit_surface', rnd.randrange(1000), [], 0.0])
        ops.append(['fit_surface', rnd.randrange(1000), subsets[-1], 0.3])
    return ops


# ---------------------------------------------------------------------------------------------
# contracts

class Timeout(Exception): pass


def _alarm(signum, frame): raise Timeout()


def run_limited(fn, seconds=OP_TIMEOUT):
    signal.signal(signal.SIGALRM, _alarm)
    signal.setitimer(signal.ITIMER_REAL, seconds)
    try:
        with contextlib.redirect_stdout(DEVNULL):
            return fn()
    finally:
        signal.setitimer(signal.ITIMER_REAL, 0)


def state_info(geo):
    info = {'wf': wf(geo), 'mesh': mesh_defects(geo)}
    try:
        with contextlib.redirect_stdout(DEVNULL):
            info['check'] = bool(geo.check(fix=False, silent=True))
    except Exception as e:
        info['check'] = 'raises %s: %s' % (type(e).__name__, e)
    return info


def contract_wf(before, after):
    """wf(before) ==> wf(after); name-list staleness already present before is not charged again."""
    stale = set(c for c, _ in before['wf'])
    new = [(c, d) for c, d in after['wf'] if c not in stale]
    return (not new), new


def contract_valid_mesh(before, after):
    out = []
    for what in ('missing', 'extra', 'orphans', 'nonmanifold'):
        new = [x for x in after['mesh'][what] if x not in before['mesh'][what]]
        if new: out.append((what, new[:4]))
    return (not out), out


def contract_check(before, after):
    if before['check'] is True and after['check'] is not True:
        return False, after['check']
    return True, None


def contract_specific(op, ret, sig_before, geo, ncol_before, names_before, sel_names=()):
    k = op[0]
    out = []
    names_after = set(c.name for c in geo.columnlist)
    if k == 'split':
        if ret is True:
            if len(geo.columnlist) != ncol_before + 1: out.append('split returned True but there are %d columns instead of %d' % (len(geo.columnlist), ncol_before + 1))
        elif signature(geo) != sig_before: out.append('split returned %r but the geometry changed' % (ret,))
    elif k in ('rename', 'rename1'):
        if ret is not True: out.append('rename_column returned %r for existing columns' % (ret,))
        if len(names_after) != ncol_before or len(geo.column) != ncol_before: out.append('after renaming there are %d distinct column names / %d lookup entries for %d columns' % (len(names_after), len(geo.column), ncol_before))
    elif k == 'rename-perm':
        if names_after != names_before or len(geo.column) != ncol_before:
            out.append('after permuting names: names %r, lookup keys %r, expected the same %d names' % (sorted(names_after), sorted(geo.column), ncol_before))
    elif k == 'decompose-all':
        left = [c.name for c in geo.columnlist if len(c.node) > 4]
        if left: out.append('decompose_columns() left %d columns with more than 4 sides: %r' % (len(left), left[:5]))
    elif k == 'decompose':
        left = [c.name for c in geo.columnlist if len(c.node) > 4 and c.name in sel_names]
        if left: out.append('decompose_columns(selection) left selected columns with more than 4 sides: %r' % (left[:5],))
    elif k == 'reduce':
        if len(geo.columnlist) != len(op[1]): out.append('reduce to %d columns left %d' % (len(op[1]), len(geo.columnlist)))
    elif k == 'delete':
        if len(geo.columnlist) != ncol_before - len(op[1]): out.append('deleting %d of %d columns left %d' % (len(op[1]), ncol_before, len(geo.columnlist)))
    elif k in ('translate', 'rotate', 'add_well', 'delete_well', 'snap', 'snap-nearest', 'refine_layers', 'copy_layers', 'rename_layer', 'fit_surface'):
        if names_after != names_before: out.append('%s changed the set of columns' % k)
    return (not out), out


def contract_roundtrip(geo, tmpdir):
    """write() then read(): result is wf and has the same names / topology (coordinates are stored to 0.01)."""
    fn = os.path.join(tmpdir, 'rt%d.dat' % os.getpid())
    out = []
    try:
        with contextlib.redirect_stdout(DEVNULL):
            keepname = geo.filename
            geo.write(fn)
            geo.filename = keepname
            g2 = mulgrid(fn)
    except Exception as e:
        return False, ['write/read raises %s: %s' % (type(e).__name__, e)]
    finally:
        if os.path.exists(fn): os.remove(fn)
    v = [x for x in wf(g2) if x[0] not in ('col-orientation', 'col-area-stale')]
    if v: out.append('re-read geometry not wf: %r' % (v[:2],))
    if [c.name for c in g2.columnlist] != [c.name for c in geo.columnlist]: out.append('column names differ after re-read')
    elif [[n.name for n in c.node] for c in g2.columnlist] != [[n.name for n in c.node] for c in geo.columnlist]: out.append('column nodes differ after re-read')
    if set(frozenset(c.name for c in k.column) for k in g2.connectionlist) != set(frozenset(c.name for c in k.column) for k in geo.connectionlist): out.append('connections differ after re-read')
    if [l.name for l in g2.layerlist] != [l.name for l in geo.layerlist]: out.append('layer names differ after re-read')
    exact = all(abs(round(x, 2) - x) < 1e-9 for x in [l.bottom for l in geo.layerlist] + [c.surface for c in geo.columnlist])
    if exact and not out and list(g2.block_name_list) != list(fresh_name_lists(geo)[0]): out.append('block names differ after re-read')
    return (not out), out


# ---------------------------------------------------------------------------------------------
# exploration

class Recorder(object):
    def __init__(self):
        self.counts = {}
        self.failures = []
        self.classes = {}
        self.histories = 0
        self.skipped = 0
        self.truncated = 0
        self.samples = []
    def count(self, c): self.counts[c] = self.counts.get(c, 0) + 1
    def fail(self, cat, opkind, base, hist, calls, what):
        cls = cat + ' ' + opkind
        self.classes[cls] = self.classes.get(cls, 0) + 1
        if self.classes[cls] <= 4 or len(hist) == 1:
            key = '%s %s %s: %s' % (cat, opkind, base_tag(base), ' > '.join(opstr(o) for o in hist))
            self.failures.append({'key': key, 'what': what, 'len': len(hist),
                                  'input': {'base': base, 'history': hist, 'calls': calls,
                                            'replay': "import sys; sys.path.insert(0, '/verif/bounded'); import c10_geoedits as H; g = H.replay(%s, %s); print(H.wf(g), H.mesh_defects(g))" % (json.dumps(base), json.dumps(hist))}})


def base_tag(spec):
    if spec[0] == 'rect': return 'rect%dx%d' % (len(spec[1]), len(spec[2]))
    if spec[0] == 'fileraw': return spec[1].replace('.dat', '') + '-raw'
    if spec[0] == 'file': return '%s[%d]' % (spec[1].replace('.dat', ''), spec[2])
    if spec[0] == 'refined': return base_tag(spec[1]) + '+' + '+'.join(opstr(o) for o in spec[2])
    return spec[0]


def opstr(op):
    def s(x):
        if isinstance(x, list):
            if len(x) > 10:   # long selections: head, size and a checksum keep the key short but specific
                return '[' + ','.join(s(y) for y in x[:4]) + ',..#%d:%08x]' % (len(x), zlib.crc32(json.dumps(x).encode()))
            return '[' + ','.join(s(y) for y in x) + ']'
        if isinstance(x, float): return '%g' % x
        return str(x)
    return op[0] + '(' + ','.join(s(x) for x in op[1:]) + ')'


def replay(base, hist):
    g = build_base(base)
    with contextlib.redirect_stdout(DEVNULL):
        for op in hist: apply_op(g, op)
    return g


def refine_supported(geo, op):
    """Documented precondition of refine(): the columns of the region and of the transition region are 3- or 4-sided."""
    cols = canon(geo)
    sel = list(range(len(cols))) if op[0] == 'refine-all' else list(op[2]) + list(op[3])
    adj = adjacency(geo)
    ids = set(id(cols[i]) for i in sel)
    for i in sel: ids |= adj[id(cols[i])]
    return all(len(c.node) in (3, 4) for c in cols if id(c) in ids)


def step(geo, op, before, base, hist, calls, rec):
    """Applies op to geo (in place), evaluates the contracts. Returns (after_info, continue?)."""
    k = op[0]
    supported = refine_supported(geo, op) if k in ('refine', 'refine-all') else True
    ncol = len(geo.columnlist)
    names_before = set(c.name for c in geo.columnlist)
    sig = signature(geo) if k == 'split' else None
    sel_names = set(canon(geo)[i].name for i in op[1]) if k == 'decompose' else ()
    h = hist + [op]
    rec.count('completes')
    try:
        ret, call = run_limited(lambda: apply_op(geo, op))
    except Timeout:
        rec.fail('timeout', k, base, h, calls + [opstr(op)], 'no return within %d s' % OP_TIMEOUT)
        return None, False
    except mulgrids.NamingConventionError:
        rec.count('capacity-error')      # the documented, explicit answer to an exhausted name space (property C17): not a failure
        return None, False
    except Exception as e:
        tb = traceback.extract_tb(sys.exc_info()[2])
        where = ['%s:%d %s' % (os.path.basename(f.filename), f.lineno, f.name) for f in tb if os.path.basename(f.filename) != 'c10_geoedits.py'][-2:]
        site = [w.split(' ')[0] for w in where][-1:] or ['?']
        rec.fail('exception' if supported else 'unsupported-exception', '%s[%s@%s]' % (k, type(e).__name__, site[0]), base, h, calls + [opstr(op)],
                 'raises %s: %s at %s%s' % (type(e).__name__, e, where, '' if supported else ' (selection or transition region has a column with more than 4 sides, which refine() documents as unsupported)'))
        return None, False
    calls = calls + [call]
    after = state_info(geo)
    rec.count('wf')
    ok, new = contract_wf(before, after)
    if not ok:
        for cat in sorted(set(c for c, _ in new)):
            rec.fail(cat, k, base, h, calls, '; '.join(d for c, d in new if c == cat))
    if k in PROMISES_VALID:
        rec.count('valid-mesh')
        ok2, out = contract_valid_mesh(before, after)
        if not ok2:
            for what, items in out: rec.fail('mesh-' + what, k, base, h, calls, 'new %s after the edit: %r' % (what, items))
        rec.count('check')
        ok3, why = contract_check(before, after)
        if not ok3 and ok2: rec.fail('check-false', k, base, h, calls, 'check(fix=False) was True before the edit and is %r after' % (why,))
    if k == 'check-fix':
        left = dict((w, x[:4]) for w, x in after['mesh'].items() if x and w != 'nonmanifold')
        if left: rec.fail('mesh-left', k, base, h, calls, 'check(fix=True) leaves %r' % (left,))
    rec.count('specific')
    ok4, out = contract_specific(op, ret, sig, geo, ncol, names_before, sel_names)
    if not ok4: rec.fail('result', k, base, h, calls, '; '.join(out))
    blocking = [c for c, _ in after['wf'] if c not in NONBLOCKING]
    finite = all(c.surface is None or np.isfinite(c.surface) for c in geo.columnlist)
    if not finite: rec.count('state-with-non-finite-surface(not extended)')
    return (after, calls), (not blocking and finite)


def explore(geo, before, base, hist, calls, depth, fams, rnd, rec, deadline, tmpdir):
    """depth-first over every op of ops_for at each level"""
    fam = fams[len(hist)]
    for op in ops_for(geo, rnd, fam):
        if time.time() > deadline:
            rec.truncated += 1
            return
        g = clone(geo)
        res, cont = step(g, op, before, base, hist, calls, rec)
        rec.histories += 1
        if res is None: continue
        after, calls2 = res
        if len(rec.samples) < 2 and rnd.random() < 0.002:
            rec.samples.append({'base': base_tag(base), 'history': [opstr(o) for o in hist + [op]], 'calls': calls2,
                                'columns': len(g.columnlist), 'blocks': len(g.block_name_list)})
        if not cont:
            rec.skipped += 1
            continue
        if fam['roundtrip'] and rnd.random() < fam['roundtrip']:
            rec.count('roundtrip')
            ok, out = contract_roundtrip(g, tmpdir)
            if not ok: rec.fail('roundtrip', op[0], base, hist + [op], calls2, '; '.join(out))
        if len(hist) + 1 < depth and len(g.columnlist) > 0 and is_connected(g) and rnd.random() < fams[len(hist) + 1].get('expand', 1.0):
            explore(g, after, base, hist + [op], calls2, depth, fams, rnd, rec, deadline, tmpdir)


def task_exhaustive(args):
    base, first_ops, depth, fams, tseed, deadline, tmpdir = args
    rec = Recorder()
    rnd = random.Random(tseed)
    geo0 = build_base(base)
    info0 = state_info(geo0)
    for op in first_ops:
        if time.time() > deadline:
            rec.truncated += 1
            break
        g = clone(geo0)
        res, cont = step(g, op, info0, base, [], [], rec)
        rec.histories += 1
        if res is None: continue
        after, calls = res
        if not cont:
            rec.skipped += 1
            continue
        if rnd.random() < 0.3:
            rec.count('roundtrip')
            ok, out = contract_roundtrip(g, tmpdir)
            if not ok: rec.fail('roundtrip', op[0], base, [op], calls, '; '.join(out))
        if depth > 1 and len(g.columnlist) > 0 and is_connected(g) and rnd.random() < fams[1].get('expand', 1.0):
            explore(g, after, base, [op], calls, depth, fams, rnd, rec, deadline, tmpdir)
    return rec


RANDOM_KINDS = [('refine', 14), ('refine-all', 1), ('decompose', 4), ('reduce', 4), ('delete', 6), ('split', 5), ('rename', 3), ('rename-perm', 1),
                ('snap', 4), ('snap-nearest', 2), ('refine_layers', 3), ('translate', 3), ('rotate', 3), ('copy_layers', 2), ('add_well', 1),
                ('delete_well', 1), ('grow', 4), ('fit_surface', 2), ('delete_connection', 1), ('add_node', 1), ('delete_node', 1),
                ('delete_layer', 1), ('add_layer', 1), ('rename_layer', 1)]


def random_region(geo, cols, rnd, size):
    """connected region (own adjacency) of about the given size, as sorted ranks"""
    adj = adjacency(geo)
    rank = dict((id(c), i) for i, c in enumerate(cols))
    start = rnd.randrange(len(cols))
    region = [start]
    inreg = set(region)
    while len(region) < size:
        i = rnd.choice(region)
        nb = sorted(rank[j] for j in adj[id(cols[i])] if j in rank and rank[j] not in inreg)
        if not nb:
            if all(not [j for j in adj[id(cols[q])] if j in rank and rank[j] not in inreg] for q in region): break
            continue
        j = rnd.choice(nb)
        inreg.add(j); region.append(j)
    return sorted(region)


def random_op(geo, rnd, maxcols):
    cols = canon(geo)
    n = len(cols)
    kinds = [k for k, w in RANDOM_KINDS for _ in range(w)]
    for _ in range(50):
        k = rnd.choice(kinds)
        if n > maxcols: k = 'reduce'
        if k == 'refine':
            if rnd.random() < 0.5: sel = random_region(geo, cols, rnd, rnd.randint(1, 8))
            else: sel = sorted(rnd.sample(range(n), min(n, rnd.randint(1, 6))))
            e = edge_columns(geo, cols, sel)
            e = sorted(rnd.sample(e, rnd.randint(1, len(e)))) if e and rnd.random() < 0.3 else []
            return ['refine', rnd.choice([False, False, 'x', 'y', True]), sel, e]
        if k == 'refine-all':
            if n <= 80: return ['refine-all', rnd.choice([False, 'x', 'y', True])]
        if k == 'decompose':
            big = [i for i, c in enumerate(cols) if len(c.node) > 4]
            if big and rnd.random() < 0.8: return ['decompose', sorted(rnd.sample(big, rnd.randint(1, min(len(big), 10))))]
            if rnd.random() < 0.3: return ['decompose-all']
            return ['decompose', sorted(rnd.sample(range(n), min(n, 3)))]
        if k == 'reduce' and n > 3:
            size = rnd.randint(max(2, n // 2), n - 1) if n <= maxcols else maxcols // 2
            return ['reduce', random_region(geo, cols, rnd, size)]
        if k == 'delete' and n > 3:
            sel = sorted(rnd.sample(range(n), rnd.randint(1, min(4, n - 2))))
            return ['delete', sel]
        if k == 'split': return ['split', rnd.randrange(n), rnd.randrange(4)]
        if k == 'rename': return ['rename', sorted(rnd.sample(range(n), rnd.randint(1, min(n, 12))))]
        if k == 'rename-perm' and n >= 3:
            s = rnd.sample(range(n), rnd.choice([2, 3])); return ['rename-perm', s]
        if k == 'snap': return ['snap', rnd.choice([0.0, 0.3, 1.0, 25.0, 1e3]), [] if rnd.random() < 0.4 else sorted(rnd.sample(range(n), min(n, rnd.randint(1, 10))))]
        if k == 'snap-nearest': return ['snap-nearest', [] if rnd.random() < 0.4 else sorted(rnd.sample(range(n), min(n, rnd.randint(1, 10))))]
        if k == 'refine_layers' and 1 < len(geo.layerlist) < 60:
            nl = len(geo.layerlist)
            return ['refine_layers', [] if rnd.random() < 0.2 else sorted(rnd.sample(range(1, nl), rnd.randint(1, min(4, nl - 1)))), rnd.choice([2, 3, 4])]
        if k == 'translate': return ['translate', [round(rnd.uniform(-100, 100), 2), round(rnd.uniform(-100, 100), 2), round(rnd.uniform(-5, 5), 2)], rnd.random() < 0.5]
        if k == 'rotate': return ['rotate', round(rnd.uniform(-180, 180), 1), None if rnd.random() < 0.5 else [0., 0.], rnd.random() < 0.5]
        if k == 'copy_layers' and len(geo.layerlist) <= 8: return ['copy_layers', rnd.randrange(len(COPY_LAYER_VARIANTS))]
        if k == 'add_well': return ['add_well']
        if k == 'delete_well' and geo.welllist: return ['delete_well', rnd.randrange(len(geo.welllist))]
        if k == 'grow':
            nb = len(boundary_edges(geo))
            if nb: return ['grow', rnd.randrange(nb)]
        if k == 'fit_surface' and n <= 150: return ['fit_surface', rnd.randrange(10 ** 6), [] if rnd.random() < 0.5 else sorted(rnd.sample(range(n), min(n, 8))), rnd.choice([0.0, 0.5])]
        if k == 'delete_connection' and geo.connectionlist:
            rank = dict((id(c), i) for i, c in enumerate(cols))
            kk = geo.connectionlist[rnd.randrange(len(geo.connectionlist))]
            if all(id(c) in rank for c in kk.column): return ['delete_connection', sorted(rank[id(c)] for c in kk.column)]
        if k == 'add_node': return ['add_node']
        if k == 'delete_node':
            used = set(id(x) for c in geo.columnlist for x in c.node)
            if any(id(x) not in used for x in geo.nodelist): return ['delete_node']
        if k == 'delete_layer' and len(geo.layerlist) > 3: return ['delete_layer', len(geo.layerlist) - 1]
        if k == 'add_layer' and 'zz'.rjust(geo.layername_length) not in geo.layer: return ['add_layer']
        if k == 'rename_layer' and 'zy'.rjust(geo.layername_length) not in geo.layer and len(geo.layerlist) > 1: return ['rename_layer', rnd.randrange(1, len(geo.layerlist))]
    return ['translate', [1., 1., 0.], False]


def task_random(args):
    """Random history; an edit that breaks wf is recorded and rolled back (replay of the accepted prefix) so
    that the history goes on to its full length."""
    base, length, tseed, maxcols, deadline, tmpdir = args
    rec = Recorder()
    rnd = random.Random(tseed)
    try:
        geo = run_limited(lambda: build_base(base), 120)
    except Exception as e:
        rec.fail('base-exception', 'build', base, [], [], 'building the base geometry raises %s: %s' % (type(e).__name__, e))
        return rec
    info = state_info(geo)
    if [c for c, _ in info['wf'] if c not in NONBLOCKING]:
        rec.fail('base-not-wf', 'build', base, [], [], 'base geometry is not well formed: %r' % (info['wf'][:3],))
        return rec
    hist, calls = [], []
    snapshot = clone(geo)
    attempts = 0
    while len(hist) < length and attempts < 3 * length:
        attempts += 1
        if time.time() > deadline:
            rec.truncated += 1
            break
        op = random_op(geo, rnd, maxcols)
        res, cont = step(geo, op, info, base, hist, calls, rec)
        rec.histories += 1
        if res is None or not cont or not is_connected(geo):
            rec.skipped += 1
            geo = clone(snapshot)
            continue
        info, calls = res
        hist = hist + [op]
        snapshot = clone(geo)
    rec.count('roundtrip')
    ok, out = contract_roundtrip(geo, tmpdir)
    if not ok: rec.fail('roundtrip', 'final', base, hist, calls, '; '.join(out))
    if not rec.samples:
        rec.samples.append({'base': base_tag(base), 'history': [opstr(o) for o in hist], 'columns': len(geo.columnlist), 'blocks': len(geo.block_name_list)})
    return rec


# ---------------------------------------------------------------------------------------------

RECT22 = ['rect', [1., 2.], [1., 1.5], [1., 1., 2.], 0, 0, [0.0, -0.5, -1.0, -1.25]]
RECT32 = ['rect', [1., 2., 1.5], [1., 1.5], [1., 1., 2.], 1, 0, [0.0, -0.5, -1.0, -1.25, 0.0]]
MIXED5 = ['mixed5']


def make_tasks(tier, seed, deadline, tmpdir):
    if True:
        if tier == 'quick':
            depth = 2
            fams = [dict(exh=6, singles=0, compl=0, random=0, maxsplit=6, cons=7, grow=3, fit=True, layers='all', roundtrip=0.0),
                    dict(exh=2, singles=2, compl=1, random=1, maxsplit=2, cons=2, grow=1, fit=False, layers='few', roundtrip=0.02, lite=True)]
            nrandom, rlen, maxcols = 24, 25, 320
        else:
            depth = 3
            fams = [dict(exh=6, singles=0, compl=0, random=0, maxsplit=6, cons=7, grow=3, fit=True, layers='all', roundtrip=0.0),
                    dict(exh=4, singles=5, compl=2, random=4, maxsplit=4, cons=3, grow=2, fit=True, layers='few', roundtrip=0.02),
                    dict(exh=0, singles=1, compl=0, random=1, maxsplit=1, cons=1, grow=1, fit=False, layers='few', roundtrip=0.01, lite=True, expand=0.08)]
            nrandom, rlen, maxcols = 200, 25, 320
        tasks = []
        for base in (RECT22, RECT32, MIXED5):
            g = build_base(base)
            first = ops_for(g, random.Random(seed), fams[0])
            for i, op in enumerate(first):
                tasks.append(('x', (base, [op], depth, fams, seed * 1000003 + len(tasks), deadline, tmpdir)))
        for name in ('g3.dat', 'g7.dat', 'g1.dat'):
            tasks.append(('x', (['fileraw', name], [['check-fix']], 1, fams, seed, deadline, tmpdir)))
        # the shipped geometries with 5- and 6-sided columns, decomposed as a whole and in part
        for name in ('g1.dat', 'g3.dat'):
            tasks.append(('x', (['file', name, 1000, 0], [['decompose-all'], ['decompose', list(range(0, 300, 3))]], 1, fams, seed, deadline, tmpdir)))
        files = [('g7.dat', 300), ('g1.dat', 300), ('g5.dat', 300), ('g6.dat', 300), ('g3.dat', 300), ('g2.dat', 250), ('g4.dat', 250)]
        for i in range(nrandom):
            r = random.Random(seed * 7919 + i)
            which = i % 10
            if which < 7:
                name, mc = files[which]
                base = ['file', name, mc if r.random() < 0.5 else r.choice([40, 80, 150]), r.randrange(10 ** 6)]
            elif which == 7:
                nx, ny = r.randint(3, 17), r.randint(2, 17)
                base = ['rect', [round(r.uniform(0.5, 3), 2) for _ in range(nx)], [round(r.uniform(0.5, 3), 2) for _ in range(ny)],
                        [round(r.uniform(0.5, 2), 2) for _ in range(r.randint(2, 6))], r.randrange(3), r.choice([0, 0, 2, 3]),
                        [round(r.uniform(-2.5, 0.5), 2) for _ in range(7)]]
            elif which == 8:
                base = ['refined', RECT32, [['refine', False, [1, 4], []], ['refine', 'x', [0], []]]]
            else:
                base = ['refined', MIXED5, [['decompose-all'], ['refine', False, [0], []]]]
            tasks.append(('r', (base, rlen, seed * 104729 + i, maxcols, deadline, tmpdir)))
    return tasks


def main():
    import multiprocessing as mp
    tier = sys.argv[1] if len(sys.argv) > 1 else 'quick'
    seed = int(sys.argv[2]) if len(sys.argv) > 2 else 0
    t0 = time.time()
    budget = float(os.environ.get('VERIF_BUDGET_S', 36 if tier == 'quick' else 780))   # wall-clock guard; sub-trees not reached are counted
    deadline = t0 + budget
    tmpdir = tempfile.mkdtemp(prefix='pytough-', dir=os.environ.get('PYTOUGH_SCRATCH', '/var/tmp'))
    rnd = random.Random(seed)
    try:
        tasks = make_tasks(tier, seed, deadline, tmpdir)
        # longest first: random histories on big geometries, then exhaustive sub-trees
        first = [i for i, t in enumerate(tasks) if t[0] == 'x' and t[1][0][0] in ('fileraw', 'file')]
        rest = [i for i in range(len(tasks)) if i not in first]
        random.Random(seed).shuffle(rest)      # so that a truncation by the time guard (loaded machine) hits all families evenly
        order = first + rest
        results = {}
        with mp.Pool(min(16, os.cpu_count() or 4)) as pool:
            for i, rec in pool.imap_unordered(run_task, [(i, tasks[i]) for i in order], chunksize=1):
                results[i] = rec
        counts, classes, failures, samples = {}, {}, [], []
        histories = skipped = truncated = 0
        cpu = sum(getattr(r, 'cpu', 0.0) for r in results.values())
        for i in sorted(results):
            rec = results[i]
            for k, v in rec.counts.items(): counts[k] = counts.get(k, 0) + v
            for k, v in rec.classes.items(): classes[k] = classes.get(k, 0) + v
            failures += rec.failures
            histories += rec.histories; skipped += rec.skipped; truncated += rec.truncated
            if rec.samples and len(samples) < 5 and (tasks[i][0] == 'r' or len(samples) < 2): samples.append(rec.samples[0])
        # keep the shortest reproductions, at most 3 per (category, op) class, 60 overall
        failures.sort(key=lambda f: (f['len'], f['key']))
        kept, per, seenkeys = [], {}, set()
        for limit in (1, 2, 3):
            for f in failures:
                cls = ' '.join(f['key'].split(' ')[:2])
                if f['key'] in seenkeys or per.get(cls, 0) >= limit or len(kept) >= 60: continue
                per[cls] = per.get(cls, 0) + 1; seenkeys.add(f['key']); kept.append(f)
        for f in kept: del f['len']
        kept.sort(key=lambda f: f['key'])
        samples.append({'contract_evaluations': counts, 'histories': histories,
                        'histories_ending_in_an_ill_formed_state_not_extended': skipped,
                        'subtrees_truncated_by_time_budget': truncated, 'worker_cpu_seconds': round(cpu, 1),
                        'failure_classes(category op: count)': dict(sorted(classes.items()))})
        contracts = ('completes', 'wf', 'valid-mesh', 'check', 'specific', 'roundtrip')
        out = {'evaluations': sum(counts.get(c, 0) for c in contracts), 'distinct': histories, 'failures': kept, 'nfailures': sum(classes.values()),
               'samples': samples, 'seconds': time.time() - t0}
    finally:
        shutil.rmtree(tmpdir, ignore_errors=True)
    print('@@JSON@@' + json.dumps(out))


def run_task(arg):
    i, (kind, args) = arg
    c0 = time.process_time()
    try:
        rec = task_exhaustive(args) if kind == 'x' else task_random(args)
    except Exception as e:
        rec = Recorder()
        rec.fail('harness-error', kind, args[0], [], [], 'harness task crashed: %s: %s\n%s' % (type(e).__name__, e, traceback.format_exc()[-600:]))
    rec.cpu = time.process_time() - c0
    return i, rec


if __name__ == '__main__':
    main()
