"""C20 bounded stand-in: t2data.convert_to_TOUGH2 / convert_to_AUTOUGH2 (and the `type` setter), followed by
write() + read(), and the Waiwera export t2data.json(...) / eos_json / rocks_json / generators_json, evaluated on
the real library over generated models.

Oracle (independent of the code under test): every model is described by a JSON-able specification; a
"fingerprint" of the model (plain Python data) is taken before the conversion, the expected fingerprint after the
conversion is computed here from the property statement (own tables of generator types, own option frame, own
conductivity rule), and compared with the fingerprint of the converted object and of the re-read file.  For the
export the expected cell index of a block is its position among the geometry's non-atmosphere blocks, the expected
rock of a cell is the block's rock type, the expected EOS comes from an own table.

usage: c20_convert.py <tier> <seed>
"""
import sys, os, io, json, time, random, signal, shutil, tempfile, traceback, glob, contextlib, copy
import warnings
warnings.filterwarnings('ignore')
REPO = os.environ.get('PYTOUGH_REPO', '/repo')
sys.path.insert(0, REPO)
import numpy as np
from mulgrids import *
from t2grids import *
from t2incons import *
from t2data import *
import multiprocessing as mp

tier = sys.argv[1] if len(sys.argv) > 1 else 'quick'
seed = int(sys.argv[2]) if len(sys.argv) > 2 else 0
TASK_TIMEOUT = 120

# own tables ------------------------------------------------------------------------------------------
T2_TYPES = set(['HEAT', 'MASS', 'DELV', 'WATE', 'AIR ']) | set('COM%d' % i for i in range(1, 10))
CONVERTIBLE = {'CO2 ': 'COM2'}
AUT_ONLY = ['DELG', 'DELS', 'DELT', 'DELW', 'DMAK', 'DMAT', 'FEED', 'FINJ', 'HLOS', 'IMAK', 'MAKE', 'PINJ', 'POWR',
            'RECH', 'RINJ', 'TMAK', 'TOST', 'VOL.', 'WBRE', 'WFLO', 'XINJ', 'XIN2', 'MASD', 'TRAC', 'NACL', 'XXXX']
ALL_TYPES = sorted(T2_TYPES) + sorted(CONVERTIBLE) + AUT_ONLY
WAIWERA_EOS = {'W': 'w', 'EW': 'we', 'EWC': 'wce', 'EWAV': 'wae', 'EWT': 'we', 'EWTD': 'we'}
EXPORT_TYPES = ['MASS', 'HEAT', 'COM1', 'COM2', 'DELV', 'DELG', 'DELS', 'DELT', 'DELW', 'RECH', 'XINJ']


SCRATCH = ['/var/tmp']      # main() puts its own scratch directory here (inherited by the forked workers)


class TaskTimeout(Exception):
    pass


def _alarm(signum, frame):
    raise TaskTimeout()


# --------------------------------------------------------------------------------------------------
# model specifications and their construction

def gen_spec(rnd, idx, direction):
    """JSON-able description of a source model; direction 'a2t' (AUTOUGH2 source) or 't2a' (TOUGH2 source)."""
    nx, ny, nz = rnd.choice([(2, 1, 2), (2, 2, 2), (3, 2, 2), (2, 2, 3)])
    atm = rnd.choice([0, 1, 2])
    nblk = nx * ny * nz + {0: 1, 1: nx * ny, 2: 0}[atm]
    opt = [0] * 25
    style = idx % 4
    if style == 0:      # one digit in one position, the others zero
        pos, dig = 1 + (idx // 4) % 24, (idx // 96) % 10
        opt[pos] = dig if dig else rnd.randint(1, 9)
    elif style == 1:    # every position random
        opt = [0] + [rnd.randint(0, 9) for _ in range(24)]
    elif style == 2:    # the positions conversion looks at, random; the rest random small
        opt = [0] + [rnd.choice([0, 1, 2]) for _ in range(24)]
        for p in (10, 12, 21, 22, 23, 24): opt[p] = rnd.choice([0, 1, 2, 3, 5, 7, 8, 9])
    # generators
    gens = []
    ngen = rnd.choice([0, 1, 3, 6, 10])
    types = ALL_TYPES if direction == 'a2t' else sorted(T2_TYPES)
    for k in range(ngen):
        typ = rnd.choice(types) if rnd.random() < 0.7 else rnd.choice(['MASS', 'HEAT', 'CO2 ', 'DELG', 'COM1'] if direction == 'a2t' else ['MASS', 'HEAT'])
        g = dict(block=rnd.randrange(nblk), name='gen%2d' % (k + 1), type=typ, gx=round(rnd.uniform(-9., 9.), 3),
                 ex=round(rnd.uniform(1.e4, 9.e5), 0), hg=rnd.choice([0., 0., 1.e5, -1.]), fg=rnd.choice([0., 0., 2.e5]), table=0, itab=False)
        if rnd.random() < 0.25:
            g['table'] = rnd.randint(2, 5); g['itab'] = rnd.random() < 0.4
        gens.append(g)
    # duplicated (block, name) pairs: kept + deleted, deleted + kept, deleted + deleted, kept + kept
    if gens and rnd.random() < 0.5:
        for _ in range(rnd.randint(1, 2)):
            g = dict(rnd.choice(gens))
            g['type'] = rnd.choice(types)
            gens.insert(rnd.randrange(len(gens) + 1), g)
    sim = rnd.choice(['AUTOUGH2.2EW', 'AUTOUGH2.2EWC', 'AUTOUGH2  EW', 'MULKOM    EW', 'AUTOUGH2.2', 'AUTOUGH2.2EWAV'])
    spec = dict(idx=idx, direction=direction, nx=nx, ny=ny, nz=nz, atmos_type=atm, option=opt, generators=gens,
                simulator=sim if direction == 'a2t' else '', MP=rnd.random() < 0.3,
                entry=rnd.choice(['method', 'method', 'type-setter']),
                path=rnd.choice(['mem', 'mem', 'file-first']),
                multi=rnd.choice([None, 'noeos', 'eos', 'eos']),
                lineq=rnd.choice([None, 0, 1, 2, 3]) if direction == 'a2t' else None,
                solver=rnd.choice([None, 0, 1, 3, 5, 6, 8]) if direction == 't2a' else None,
                start=rnd.random() < 0.5, rpcap=rnd.random() < 0.5, times=rnd.random() < 0.4, incon=rnd.random() < 0.4,
                indom=rnd.random() < 0.3, diffusion=rnd.random() < 0.2, momop=(direction == 't2a' and rnd.random() < 0.3),
                rocks=[dict(name='rock%d' % i, porosity=round(rnd.uniform(0.01, 0.5), 3), conductivity=round(rnd.uniform(0.5, 4.), 3))
                       for i in range(rnd.randint(1, 3))],
                to_sim=rnd.choice(['AUTOUGH2.2', 'AUTOUGH2', 'AUTOUGH2.2']), to_eos=rnd.choice(['EW', 'EWC', 'EWAV', 'W']))
    ncon = None  # decided at build time
    # short output / history: which lists are present, and what they hold
    def picks(n): return sorted(rnd.sample(range(n), min(n, rnd.randint(1, 3))))
    spec['lists'] = dict(block=picks(nblk) if rnd.random() < 0.6 else None,
                         connection=picks(4) if rnd.random() < 0.5 else None,
                         generator=picks(max(1, len(gens))) if (gens and rnd.random() < 0.5) else None,
                         frequency=rnd.choice([None, 1, 5]))
    # history lists may also hold bare names (TOUGH2 source only): absent from the grid, or present in it
    spec['bare'] = rnd.choice(['none', 'none', 'absent', 'present']) if direction == 't2a' else 'none'
    spec['goft_objects'] = rnd.choice(['t2block', 't2block', 't2generator']) if direction == 't2a' else 't2generator'
    if spec['entry'] == 'type-setter': spec['MP'] = False; spec['to_sim'] = 'AUTOUGH2.2'; spec['to_eos'] = 'EW'
    return spec


def build_model(spec):
    geo = mulgrid().rectangular([10.] * spec['nx'], [20.] * spec['ny'], [5.] * spec['nz'], atmos_type=spec['atmos_type'])
    dat = t2data()
    dat.title = 'C20 model %d' % spec['idx']
    dat.grid = t2grid().fromgeo(geo)
    rocks = []
    for r in spec['rocks']:
        rt = rocktype(name=r['name'], porosity=r['porosity'], conductivity=r['conductivity'], permeability=[1.e-15, 2.e-15, 3.e-15])
        dat.grid.add_rocktype(rt); rocks.append(rt)
    for i, blk in enumerate(dat.grid.blocklist): blk.rocktype = rocks[i % len(rocks)]
    dat.simulator = spec['simulator']
    dat.parameter['option'] = np.array(spec['option'], np.int8)
    dat.parameter.update(max_timesteps=100, print_interval=10, tstop=1.e9, const_timestep=1.e3, gravity=9.81,
                         default_incons=[1.e5, 20.], max_iterations=8, relative_error=1.e-5)
    if spec['multi']:
        dat.multi = {'num_components': 1, 'num_equations': 2, 'num_phases': 2, 'num_secondary_parameters': 6}
        if spec['direction'] == 'a2t':
            if spec['multi'] == 'eos': dat.multi['eos'] = 'EW'
        else: dat.multi['num_inc'] = None
    if spec['lineq'] is not None:
        dat.lineq = {'type': spec['lineq'], 'epsilon': 1.e-10, 'max_iterations': 100, 'gauss': 1, 'num_orthog': 20}
    if spec['solver'] is not None:
        dat.solver = {'type': spec['solver'], 'z_precond': 'Z1', 'o_precond': 'O0', 'relative_max_iterations': 0.1, 'closure': 1.e-6}
    dat.start = spec['start']
    if spec['rpcap']:
        dat.relative_permeability = {'type': 1, 'parameters': [0.3, 0.1, 0.9, 0.7]}
        dat.capillarity = {'type': 1, 'parameters': [0., 0., 1.]}
    if spec['times']:
        dat.output_times = {'num_times_specified': 2, 'time': [1.e6, 2.e6]}
    if spec['diffusion']:
        dat.diffusion = [[-1.e-6, -1.e-6], [-1.e-6, -1.e-6]]
    if spec['momop']:
        dat.more_option[1] = 2
    names = [b.name for b in dat.grid.blocklist]
    if spec['incon']:
        for n in names[-2:]: dat.incon[n] = [None, [2.e5, 30.]]
    if spec['indom']:
        dat.indom[rocks[0].name] = [3.e5, 40.]
    for g in spec['generators']:
        gen = t2generator(name=g['name'], block=names[g['block']], type=g['type'], gx=g['gx'], ex=g['ex'], hg=g['hg'], fg=g['fg'])
        if g['table'] and g['type'] != 'DELV':     # (for DELV, LTAB counts layers and no table follows)
            n = g['table']
            gen.ltab = n
            gen.time = [1.e5 * k for k in range(n)]
            gen.rate = [0.5 * (k + 1) for k in range(n)]
            if g['itab']:
                gen.itab = '1'; gen.enthalpy = [1.e5 + 1.e4 * k for k in range(n)]
        dat.add_generator(gen)
    L = spec['lists']
    blocks = [dat.grid.blocklist[i] for i in L['block']] if L['block'] is not None else None
    cons = [dat.grid.connectionlist[i % dat.grid.num_connections] for i in L['connection']] if L['connection'] is not None else None
    gens = [dat.generatorlist[i % len(dat.generatorlist)] for i in L['generator']] if (L['generator'] is not None and dat.generatorlist) else None
    if spec['direction'] == 'a2t':
        so = {}
        if L['frequency']: so['frequency'] = L['frequency']
        if blocks is not None: so['block'] = blocks
        if cons is not None: so['connection'] = cons
        if gens is not None: so['generator'] = gens
        if len(so) > (1 if 'frequency' in so else 0): dat.short_output = so
    else:
        if blocks is not None: dat.history_block = list(blocks)
        if cons is not None: dat.history_connection = list(cons)
        if gens is not None:
            if spec['goft_objects'] == 't2block':     # what reading a GOFT section gives
                dat.history_generator = [dat.grid.block[g.block] for g in gens]
            else:
                dat.history_generator = list(gens)
        if spec['bare'] == 'absent':
            if blocks is not None: dat.history_block.append('ZZZ99')
            if cons is not None: dat.history_connection.append(('ZZZ98', 'ZZZ99'))
        elif spec['bare'] == 'present':
            if blocks is not None: dat.history_block.append(names[-1])
            if cons is not None:
                c = dat.grid.connectionlist[-1]
                dat.history_connection.append((c.block[0].name, c.block[1].name))
    return geo, dat


# --------------------------------------------------------------------------------------------------
# fingerprints

def fnum(v):
    if v is None: return None
    if isinstance(v, (list, tuple, np.ndarray)): return [fnum(x) for x in v]
    if isinstance(v, (np.integer,)): return int(v)
    if isinstance(v, (np.floating, float)): return float(v)
    return v


def gen_record(g):
    return dict(block=g.block, name=g.name, type=g.type, gx=fnum(g.gx), ex=fnum(g.ex), hg=fnum(g.hg), fg=fnum(g.fg),
                ltab=g.ltab or 0, itab=(g.itab or '').strip(), time=fnum(g.time) or [], rate=fnum(g.rate) or [],
                enthalpy=fnum(g.enthalpy) or [])


def item_name(x):
    """(kind, name) of an entry of a short-output / history list"""
    if isinstance(x, str): return ['name', x]
    if isinstance(x, tuple): return ['name', list(x)]
    if isinstance(x, t2block): return ['block', x.name]
    if isinstance(x, t2connection): return ['connection', [b.name for b in x.block]]
    if isinstance(x, t2generator): return ['generator', [x.block, x.name]]
    return ['other', repr(x)]


def fingerprint(dat):
    fp = {}
    fp['type'] = dat.type
    fp['simulator'] = dat.simulator
    fp['multi'] = dict((k, fnum(v)) for k, v in dat.multi.items())
    fp['lineq'] = dict((k, fnum(v)) for k, v in dat.lineq.items())
    fp['solver'] = dict((k, fnum(v)) for k, v in dat.solver.items())
    so = dat.short_output
    fp['short'] = dict((k, ([item_name(x) for x in v] if isinstance(v, list) else fnum(v))) for k, v in so.items())
    fp['history_block'] = [item_name(x) for x in dat.history_block]
    fp['history_connection'] = [item_name(x) for x in dat.history_connection]
    fp['history_generator'] = [item_name(x) for x in dat.history_generator]
    fp['option'] = [int(x) for x in dat.parameter['option']]
    fp['parameter'] = dict((k, fnum(v)) for k, v in dat.parameter.items() if k not in ('option', '_option_str'))
    fp['more_option'] = [int(x) for x in dat.more_option]
    fp['rocks'] = [dict(name=r.name, density=fnum(r.density), porosity=fnum(r.porosity), permeability=fnum(r.permeability),
                        conductivity=fnum(r.conductivity), specific_heat=fnum(r.specific_heat), dry_conductivity=fnum(r.dry_conductivity),
                        compressibility=fnum(r.compressibility), expansivity=fnum(r.expansivity)) for r in dat.grid.rocktypelist]
    fp['blocks'] = [[b.name, fnum(b.volume), b.rocktype.name, fnum(b.centre)] for b in dat.grid.blocklist]
    fp['connections'] = [[[b.name for b in c.block], int(c.direction), fnum(c.distance), fnum(c.area), fnum(c.dircos)] for c in dat.grid.connectionlist]
    fp['generators'] = [gen_record(g) for g in dat.generatorlist]
    ids = dict((id(g), i) for i, g in enumerate(dat.generatorlist))
    fp['lookup'] = sorted([[list(k), ids.get(id(v), -1)] for k, v in dat.generator.items()])
    fp['incon'] = dict((k, fnum(v)) for k, v in dat.incon.items())
    fp['indom'] = dict((k, fnum(v)) for k, v in dat.indom.items())
    fp['start'] = bool(dat.start)
    fp['rpcap'] = [dict((k, fnum(v)) for k, v in dat.relative_permeability.items()), dict((k, fnum(v)) for k, v in dat.capillarity.items())]
    fp['times'] = dict((k, fnum(v)) for k, v in dat.output_times.items())
    fp['diffusion'] = fnum(dat.diffusion)
    fp['title'] = dat.title
    dat.update_sections()
    fp['sections'] = list(dat._sections)
    return fp


def approx(a, b, rel):
    """structural equality with relative tolerance on floats (None ~ 0 for numbers written to fixed columns)"""
    if isinstance(a, dict) and isinstance(b, dict):
        return set(a) == set(b) and all(approx(a[k], b[k], rel) for k in a)
    if isinstance(a, (list, tuple)) and isinstance(b, (list, tuple)):
        return len(a) == len(b) and all(approx(x, y, rel) for x, y in zip(a, b))
    if isinstance(a, bool) or isinstance(b, bool): return a == b
    if isinstance(a, (int, float)) and isinstance(b, (int, float)):
        return abs(a - b) <= rel * max(abs(a), abs(b)) + (1e-300 if rel else 0.)
    if rel and ((a is None and b == 0) or (b is None and a == 0)): return True
    if isinstance(a, str) and isinstance(b, str) and rel: return a.strip() == b.strip()
    return a == b


# --------------------------------------------------------------------------------------------------
# expected fingerprints (from the property statement)

def expected_a2t(fp, spec):
    """AUTOUGH2 -> TOUGH2; returns (expected, notes): fields set to the marker ANY are not compared."""
    e = copy.deepcopy(fp)
    MP = spec['MP']
    e['type'] = 'TOUGH2'; e['simulator'] = ''
    e['lineq'] = {}
    e['multi'] = dict((k, v) for k, v in fp['multi'].items() if k != 'eos')
    if 'num_inc' in e['multi'] or fp['multi']: e['multi']['num_inc'] = None
    # SHORT becomes the history lists, same items in the same order
    e['short'] = {}
    for key, hist in (('block', 'history_block'), ('connection', 'history_connection'), ('generator', 'history_generator')):
        if key in fp['short']: e[hist] = fp['short'][key]
    # options: frame + the AUTOUGH2-only settings cleared
    opt = list(fp['option'])
    sim = fp['simulator']
    triggers = 0
    if opt[10] == 2: opt[10] = 0; triggers += 1
    if opt[12] == 2: opt[12] = 0
    if opt[23] > 0:
        old = (sim.startswith('AUTOUGH2') and not sim.startswith('AUTOUGH2.2')) or sim.startswith('MULKOM')
        if old and opt[23] == 1: triggers += 1
    opt[22] = opt[23] = opt[24] = 0
    if MP:
        opt[14] = opt[17] = opt[20] = 0
        opt[21] = 0
    else:
        opt[21] = 'solver'      # some TOUGH2 solver number 0..8: checked separately
    e['option'] = opt
    # rocks: documented conductivity rescaling, at most once
    for r in e['rocks']:
        if triggers: r['conductivity'] = r['conductivity'] * (1. - r['porosity'])
    # generators
    keep = []
    for g in fp['generators']:
        g = dict(g)
        if g['type'] in CONVERTIBLE: g['type'] = CONVERTIBLE[g['type']]
        if g['type'] in T2_TYPES: keep.append(g)
    e['generators'] = keep
    e['lookup'] = 'consistent'
    e['sections'] = 'derived'
    return e, dict(triggers=triggers)


def expected_t2a(fp, spec, gridnames, gridcons):
    e = copy.deepcopy(fp)
    MP = spec['MP']
    e['type'] = 'AUTOUGH2'
    e['simulator'] = spec['to_sim'].ljust(10) + spec['to_eos']
    e['solver'] = {}
    e['lineq'] = 'present'
    if fp['multi']:
        e['multi'] = dict(fp['multi']); e['multi']['eos'] = spec['to_eos']; e['multi']['num_inc'] = None
    opt = list(fp['option'])
    if opt[12] == 2: opt[12] = 0
    opt[21] = opt[22] = opt[23] = opt[24] = 0
    if MP: opt[14] = opt[17] = opt[20] = 0
    e['option'] = opt
    # history requests move to SHORT: every request that refers to something in the grid survives
    short = {}
    def keepable(kind, item):
        k, nm = item
        if k != 'name': return True
        if kind == 'connection': return tuple(nm) in gridcons or tuple(nm[::-1]) in gridcons
        return nm in gridnames
    for key, hist in (('block', 'history_block'), ('connection', 'history_connection'), ('generator', 'history_generator')):
        items = [it for it in fp[hist] if keepable(key, it)]
        if items: short[key] = items
        e[hist] = []
    e['short'] = short
    e['lookup'] = 'consistent'
    e['sections'] = 'derived'
    return e, {}


def request_names(kind, items):
    """what a list of history / short items asks for, as comparable names (objects and bare names alike)"""
    out = []
    for k, nm in items:
        if kind == 'generator':
            # a generator request is identified by its block (GOFT lists blocks, SHORT lists (block, name))
            out.append(nm[0] if isinstance(nm, list) else nm)
        elif kind == 'connection': out.append(tuple(nm))
        else: out.append(nm)
    return out


FRAME_FIELDS = ['parameter', 'more_option', 'blocks', 'connections', 'incon', 'indom', 'start', 'rpcap', 'times', 'diffusion', 'title']


def compare(exp, got, notes, direction, stage, rel):
    """Returns a list of (category, detail)."""
    out = []
    def bad(cat, what): out.append((cat, what))
    if got['type'] != exp['type']: bad('type', 'type %r, expected %r' % (got['type'], exp['type']))
    if not approx(got['simulator'], exp['simulator'], rel) and got['simulator'].strip() != exp['simulator'].strip():
        bad('simulator', 'simulator %r, expected %r' % (got['simulator'], exp['simulator']))
    if direction == 'a2t':
        if got['lineq']: bad('lineq-left', 'linear solver section left: %r' % got['lineq'])
        if got['short']: bad('short-left', 'short output left: %r' % got['short'])
        if got['multi'].get('eos'): bad('eos-left', 'EOS name left in MULTI: %r' % got['multi'])
        for s in ('SIMUL', 'LINEQ', 'SHORT'):
            if s in got['sections']: bad('section-left', 'section %s still listed: %r' % (s, got['sections']))
        o21 = got['option'][21]
        if exp['option'][21] == 'solver':
            if not (0 <= o21 <= 8): bad('option', 'MOP(21) = %r is not a TOUGH2 solver selection' % o21)
    else:
        if got['solver']: bad('solver-left', 'TOUGH2 solver section left: %r' % got['solver'])
        if stage == 'mem' and not got['lineq']: bad('lineq-missing', 'no linear solver section after conversion')
        for s in ('SOLVR', 'FOFT', 'COFT', 'GOFT'):
            if s in got['sections']: bad('section-left', 'section %s still listed: %r' % (s, got['sections']))
        if 'SIMUL' not in got['sections']: bad('section-missing', 'no SIMUL section: %r' % got['sections'])
        for h in ('history_block', 'history_connection', 'history_generator'):
            if got[h]: bad('history-left', '%s left: %r' % (h, got[h]))
        if exp['multi'] and got['multi'].get('eos', '').strip() != exp['multi']['eos']:
            bad('multi-eos', 'MULTI eos %r, expected %r' % (got['multi'].get('eos'), exp['multi']['eos']))
    if {k: v for k, v in got['multi'].items() if k not in ('eos', 'num_inc')} != {k: v for k, v in exp['multi'].items() if k not in ('eos', 'num_inc')}:
        if not (stage != 'mem' and not exp['multi']):
            bad('multi', 'MULTI %r, expected %r' % (got['multi'], exp['multi']))
    eo, go = exp['option'], got['option']
    diff = [(i, go[i], eo[i]) for i in range(1, 25) if eo[i] != 'solver' and go[i] != eo[i]]
    if diff: bad('option', 'MOP digits (position, got, expected): %r' % diff[:6])
    # rocks
    for r, q in zip(exp['rocks'], got['rocks']):
        for k in r:
            if k == 'conductivity': continue
            if stage == 'mem' and not approx(r[k], q[k], 0.): bad('rock-changed', 'rock %r %s %r, expected %r' % (r['name'], k, q[k], r[k]))
        if not approx(r['conductivity'], q['conductivity'], max(rel, 1e-12)):
            tol = max(rel, 1e-12)
            twice = notes.get('triggers', 0) >= 2 and approx(r['conductivity'] * (1. - r['porosity']), q['conductivity'], tol)
            never = notes.get('triggers', 0) >= 1 and approx(r['conductivity'] / (1. - r['porosity']), q['conductivity'], tol)
            bad('rock-conductivity-twice' if twice else ('rock-conductivity-not-rescaled' if never else 'rock-conductivity'),
                'rock %r conductivity %r, expected %r (porosity %r, %d rescaling conditions)' % (r['name'], q['conductivity'], r['conductivity'], r['porosity'], notes.get('triggers', 0)))
            break
    if len(exp['rocks']) != len(got['rocks']): bad('rock-changed', '%d rock types, expected %d' % (len(got['rocks']), len(exp['rocks'])))
    # generators
    eg, gg = exp['generators'], got['generators']
    if len(eg) != len(gg) or any(not approx(a, b, rel) for a, b in zip(eg, gg)):
        left = [g for g in gg if g['type'] not in T2_TYPES] if direction == 'a2t' else []
        if left: bad('generator-type-left', 'generators of types TOUGH2 lacks remain: %r' % [(g['block'], g['name'], g['type']) for g in left][:4])
        else:
            first = next((i for i, (a, b) in enumerate(zip(eg, gg)) if not approx(a, b, rel)), min(len(eg), len(gg)))
            bad('generator-changed', '%d generators, expected %d; first difference at %d: got %r, expected %r' % (
                len(gg), len(eg), first, gg[first] if first < len(gg) else None, eg[first] if first < len(eg) else None))
    if stage == 'mem':
        keys = sorted(set((g['block'], g['name']) for g in gg))
        lk = [tuple(k) for k, i in got['lookup']]
        if sorted(lk) != keys:
            bad('generator-lookup', 'lookup keys %r, generators %r' % (sorted(set(lk) - set(keys))[:3], sorted(set(keys) - set(lk))[:3]))
        else:
            for k, i in got['lookup']:
                if i < 0 or (gg[i]['block'], gg[i]['name']) != tuple(k):
                    bad('generator-lookup', 'lookup entry %r refers to a generator that is not in the list under that key' % (k,)); break
    # history / short requests
    pairs = (('block', 'history_block'), ('connection', 'history_connection'), ('generator', 'history_generator'))
    for key, hist in pairs:
        if direction == 'a2t':
            want, have = request_names(key, exp[hist]), request_names(key, got[hist])
        else:
            want, have = request_names(key, exp['short'].get(key, [])), request_names(key, got['short'].get(key, []))
        if key == 'connection':
            norm = lambda L: sorted(tuple(sorted(x)) for x in L)
        else:
            norm = sorted
        if stage == 'mem':
            ok = norm(want) == norm(have)
        else:
            # a file cannot hold a request for something that is not in the grid; duplicates may collapse
            ok = set(norm(want)) == set(norm(have))
        if not ok:
            bad('history-%s' % key, '%s requests after conversion %r, before %r' % (key, have, want))
    if direction == 't2a' and stage == 'mem' and got['short'].get('frequency') not in (None, exp['short'].get('frequency')):
        pass
    for f in FRAME_FIELDS:
        if stage == 'mem':
            if not approx(exp[f], got[f], 0.): bad('frame-' + f, '%s changed: %r, expected %r' % (f, str(got[f])[:200], str(exp[f])[:200]))
    if stage != 'mem':
        # file round trip: grid and the sections that exist must come back
        if [b[0] for b in got['blocks']] != [b[0] for b in exp['blocks']]:
            bad('file-blocks', 'block names differ after write + read')
        elif not all(approx(a[1], b[1], 1e-3) and a[2] == b[2] for a, b in zip(exp['blocks'], got['blocks'])):
            bad('file-blocks', 'block volumes / rock types differ after write + read')
        if [c[0] for c in got['connections']] != [c[0] for c in exp['connections']]:
            bad('file-connections', 'connections differ after write + read')
        for f in ('start', 'indom'):
            if not approx(exp[f], got[f], 1e-3): bad('file-' + f, '%s after write + read %r, expected %r' % (f, got[f], exp[f]))
        if sorted(exp['incon']) != sorted(got['incon']): bad('file-incon', 'INCON blocks %r, expected %r' % (sorted(got['incon']), sorted(exp['incon'])))
    return out


# --------------------------------------------------------------------------------------------------
# conversion task

def convert(dat, spec):
    if spec['direction'] == 'a2t':
        if spec['entry'] == 'type-setter': dat.type = 'TOUGH2'
        else: dat.convert_to_TOUGH2(warn=False, MP=spec['MP'])
    else:
        if spec['entry'] == 'type-setter': dat.type = 'AUTOUGH2'
        else: dat.convert_to_AUTOUGH2(warn=False, MP=spec['MP'], simulator=spec['to_sim'], eos=spec['to_eos'])


def feature_tags(spec):
    types = sorted(set(g['type'] for g in spec['generators']))
    kinds = set()
    for t in types:
        kinds.add('t2' if t in T2_TYPES else ('conv' if t in CONVERTIBLE else 'unsup'))
    keys = [(g['block'], g['name']) for g in spec['generators']]
    dup = len(set(keys)) < len(keys)
    L = spec['lists']
    lists = ''.join(c for c, k in (('b', 'block'), ('c', 'connection'), ('g', 'generator')) if L[k] is not None) or '-'
    return 'dir=%s entry=%s path=%s MP=%s gens=%s dup=%s lists=%s bare=%s goft=%s multi=%s idx=%d' % (
        spec['direction'], spec['entry'], spec['path'], 'y' if spec['MP'] else 'n', '+'.join(sorted(kinds)) or '-', 'y' if dup else 'n',
        lists, spec['bare'], spec['goft_objects'], spec['multi'], spec['idx'])


def run_conversion(spec, tmpdir, fails, counts, desc):
    tags = feature_tags(spec)

    def fail(cat, stage, what):
        fails.append({'key': '%s %s %s' % (cat, stage, tags), 'what': what, 'input': spec})
    geo, dat = build_model(spec)
    if spec['path'] == 'file-first':
        # the model as the reader builds it
        fn = os.path.join(tmpdir, 'source.dat')
        dat.write(fn)
        dat = t2data(fn)
    before = fingerprint(dat)
    gridnames = set(b.name for b in dat.grid.blocklist)
    gridcons = set(dat.grid.connection.keys())
    if spec['direction'] == 'a2t': exp, notes = expected_a2t(before, spec)
    else: exp, notes = expected_t2a(before, spec, gridnames, gridcons)
    counts['convert-no-exception'] += 1
    try:
        convert(dat, spec)
    except TaskTimeout: raise
    except Exception as e:
        tb = traceback.extract_tb(sys.exc_info()[2])[-1]
        fail('convert-exception', 'mem', '%s: %s (%s:%d %s)' % (type(e).__name__, e, os.path.basename(tb.filename), tb.lineno, tb.name))
        return
    after = fingerprint(dat)
    counts['convert-post'] += 1
    seen = set()
    for cat, what in compare(exp, after, notes, spec['direction'], 'mem', 0.):
        if cat not in seen: fail(cat, 'mem', what); seen.add(cat)
    # file round trip of the converted model
    counts['file-round-trip'] += 1
    fn = os.path.join(tmpdir, 'converted.dat')
    try:
        dat.write(fn)
        back = t2data(fn)
    except TaskTimeout: raise
    except Exception as e:
        tb = traceback.extract_tb(sys.exc_info()[2])[-1]
        fail('file-exception', 'file', 'write + read of the converted model raised %s: %s (%s:%d %s)' % (type(e).__name__, e, os.path.basename(tb.filename), tb.lineno, tb.name))
        return
    text = open(fn).read()
    if spec['direction'] == 'a2t':
        for kw in ('SIMUL', 'LINEQ', 'SHORT'):
            if any(line.startswith(kw) for line in text.split('\n')):
                fail('file-section-left', 'file', 'the written TOUGH2 file has a %s section' % kw)
    rt = fingerprint(back)
    # the file is compared with what the conversion is expected to give (not with what it gave)
    for cat, what in compare(exp, rt, notes, spec['direction'], 'file', 2.e-3):
        if cat not in seen: fail(cat, 'file', what); seen.add(cat)
    desc.append(('convert', tags.rsplit(' ', 1)[0], tuple(spec['option'][p] for p in (10, 12, 21, 22, 23, 24))))


# --------------------------------------------------------------------------------------------------
# export task

def gen_export_spec(rnd, idx):
    nx, ny, nz = rnd.choice([(2, 1, 2), (2, 2, 2), (3, 2, 3), (4, 3, 3), (1, 3, 2)])
    eos = rnd.choice(sorted(WAIWERA_EOS))
    route = ['explicit', 'multi', 'simulator', 'simulator+multi-noeos', 'simulator+multi-blank'][idx % 5]
    gens = []
    ncell = nx * ny * nz
    for k in range(rnd.choice([0, 2, 5, 9])):
        typ = rnd.choice(EXPORT_TYPES)
        gens.append(dict(cell=rnd.randrange(ncell), name=rnd.choice(['wel%2d' % (k + 1), 'wel 1', '     ' if k % 4 == 3 else 'inj 1']), type=typ,
                         gx=rnd.choice([2.5, -3.5, 1.e-12]), ex=rnd.choice([1.e5, 8.e5]), hg=rnd.choice([0., 2.e5]), fg=rnd.choice([0., 1.e5, -1.]),
                         table=rnd.choice([0, 0, 3])))
    if rnd.random() < 0.3:   # a make-up group: members then the group generator
        gens.append(dict(cell=rnd.randrange(ncell), name='mk  1', type='DMAK', gx=1.e-11, ex=5.e5, hg=0., fg=0., table=0))
        gens.append(dict(cell=rnd.randrange(ncell), name='mk  2', type='DMAT', gx=1.e-11, ex=5.e5, hg=0., fg=0., table=0))
        gens.append(dict(cell=rnd.randrange(ncell), name='tot 1', type='TMAK', gx=50., ex=10., hg=rnd.choice([-1., -2.]), fg=0., table=0))
    nb = rnd.choice([0, 0, 1, 2, 3])
    return dict(idx=idx, nx=nx, ny=ny, nz=nz, atmos_type=rnd.choice([0, 1, 2]), block_order=rnd.choice([None, 'layer_column', 'dmplex']),
                convention=rnd.choice([0, 1, 2]), eos=eos, route=route, generators=gens, nrocks=rnd.randint(1, 3),
                boundary=[dict(cell=rnd.randrange(nx * ny), volume=rnd.choice([0., 1.e50, 1.e25])) for _ in range(nb)],
                atmos_volume=rnd.choice([1.e25, 1.e25, 1.e20]), sim_prefix=rnd.choice(['AUTOUGH2.2', 'AUTOUGH2  ', 'AUTOUGH2.2  ']))


def run_export(spec, tmpdir, fails, counts, desc):
    tags = 'eos=%s route=%s atm=%d order=%s conv=%d gens=%d bdy=%s idx=%d' % (
        spec['eos'], spec['route'], spec['atmos_type'], spec['block_order'], spec['convention'], len(spec['generators']),
        '+'.join(sorted(set('zero' if b['volume'] == 0 else 'huge' for b in spec['boundary']))) or '-', spec['idx'])

    tagbox = [tags]

    def fail(cat, what):
        fails.append({'key': '%s %s' % (cat, tagbox[0]), 'what': what, 'input': spec})
    geo = mulgrid().rectangular([10.] * spec['nx'], [20.] * spec['ny'], [5.] * spec['nz'], atmos_type=spec['atmos_type'],
                                convention=spec['convention'], block_order=spec['block_order'])
    dat = t2data()
    dat.title = 'C20 export %d' % spec['idx']
    dat.filename = os.path.join(tmpdir, 'export.dat')
    dat.grid = t2grid().fromgeo(geo)
    rocks = [rocktype(name='rok%2d' % i, porosity=0.1 + 0.05 * i) for i in range(spec['nrocks'])]
    for r in rocks: dat.grid.add_rocktype(r)
    natm = geo.num_atmosphere_blocks
    cells = geo.block_name_list[natm:]         # Waiwera cells: the geometry's blocks below the atmosphere, in order
    for i, n in enumerate(cells): dat.grid.block[n].rocktype = rocks[(i * 5 + i // 3) % len(rocks)]
    # boundary blocks among the top-layer blocks (first nx * ny cells of a layer-ordered geometry; any cell otherwise)
    for b in spec['boundary']: dat.grid.block[cells[b['cell'] % len(cells)]].volume = b['volume']
    # a boundary block (atmosphere included) none of whose neighbours is an ordinary block
    isb = lambda blk: not (0. < blk.volume < spec['atmos_volume'])
    isolated = any(isb(blk) and blk.connection_name and all(isb(dat.grid.block[n]) for c in blk.connection_name for n in c)
                   for blk in dat.grid.blocklist)
    tagbox[0] = tags.replace(' idx=', ' isolated-bdy=%s idx=' % ('y' if isolated else 'n'))
    eos = spec['eos']
    npv = {'w': 2, 'we': 2, 'wce': 3, 'wae': 3}[WAIWERA_EOS[eos]] + (1 if eos in ('EWT', 'EWTD') else 0)
    dat.parameter.update(gravity=9.81, default_incons=[1.e5, 20., 1.e-3, 1.e-6][:npv], max_timesteps=10, print_interval=1, tstop=1.e6,
                         const_timestep=1.e3)
    if eos == 'EWTD': dat.diffusion = [[-1.e-6, -1.e-6], [-1.e-6, -1.e-6]]
    kw = {}
    route = spec['route']
    if route == 'explicit': kw['eos'] = eos
    elif route == 'multi': dat.multi = {'num_components': 1, 'num_equations': 2, 'num_phases': 2, 'num_secondary_parameters': 6, 'eos': eos}
    else:
        dat.simulator = spec['sim_prefix'] + eos
        if route == 'simulator+multi-noeos': dat.multi = {'num_components': 1, 'num_equations': 2, 'num_phases': 2, 'num_secondary_parameters': 6}
        elif route == 'simulator+multi-blank':
            dat.multi = {'num_components': 1, 'num_equations': 2, 'num_phases': 2, 'num_secondary_parameters': 6, 'eos': ''}
    for g in spec['generators']:
        gen = t2generator(name=g['name'], block=cells[g['cell'] % len(cells)], type=g['type'], gx=g['gx'], ex=g['ex'], hg=g['hg'], fg=g['fg'])
        if g['table'] and g['type'] in ('MASS', 'HEAT', 'COM1', 'COM2'):
            n = g['table']; gen.ltab = n
            gen.time = [1.e5 * k for k in range(n)]; gen.rate = [0.5 * (k + 1) for k in range(n)]
        dat.add_generator(gen)
    want_eos = WAIWERA_EOS[eos]
    # EOS recognition on its own
    counts['eos'] += 1
    try:
        ej, tracer = dat.eos_json(kw.get('eos'))
        if ej.get('eos', {}).get('name') != want_eos:
            fail('eos-name', 'eos_json gives %r, expected name %r' % (ej.get('eos'), want_eos))
        if (tracer is not None) != (eos in ('EWT', 'EWTD')):
            fail('eos-tracer', 'tracer data %r for EOS %s' % (tracer, eos))
    except TaskTimeout: raise
    except Exception as e:
        fail('eos-exception', 'eos_json raised %s: %s' % (type(e).__name__, e))
    # rock cells on their own
    index = dict((n, i) for i, n in enumerate(cells))
    av = spec['atmos_volume']

    def check_rocks(rj, where):
        seen = {}
        for rt in rj['rock']['types']:
            for c in rt.get('cells', []):
                if c in seen: fail('rock-cell-twice', '%s: cell %r listed under %r and %r' % (where, c, seen[c], rt['name'])); return
                seen[c] = rt['name']
        for n, i in index.items():
            blk = dat.grid.block[n]
            inside = 0. < blk.volume < av
            if inside and i not in seen: fail('rock-cell-missing', '%s: block %r (cell %d, rock %r) is in no rock cell list' % (where, n, i, blk.rocktype.name)); return
            if inside and seen[i] != blk.rocktype.name: fail('rock-cell-wrong', '%s: cell %d of block %r listed under %r, its rock is %r' % (where, i, n, seen[i], blk.rocktype.name)); return
            if not inside and i in seen: fail('rock-cell-boundary', '%s: boundary block %r (volume %r) listed as cell %d of %r' % (where, n, blk.volume, i, seen[i])); return
        extra = [c for c in seen if not (isinstance(c, int) and 0 <= c < len(cells))]
        if extra: fail('rock-cell-range', '%s: cell indices %r outside 0..%d' % (where, extra[:3], len(cells) - 1))

    def check_sources(gj, where):
        srcs = gj.get('source', [])
        gens = [g for g in dat.generatorlist if g.type != 'TMAK']
        if len(srcs) != len(gens):
            fail('source-count', '%s: %d sources for %d non-group generators' % (where, len(srcs), len(gens))); return
        for s, g in zip(srcs, gens):
            if s.get('cell') != index[g.block]:
                fail('source-cell', '%s: source %r of generator %r on block %r has cell %r, expected %r' % (where, s.get('name'), g.name, g.block, s.get('cell'), index[g.block])); return
        names = [s.get('name') for s in srcs if s.get('name')]
        if len(set(names)) != len(names):
            fail('source-name-duplicate', '%s: source names not distinct: %r' % (where, sorted(n for n in set(names) if names.count(n) > 1)))
    counts['rocks'] += 1
    try:
        check_rocks(dat.rocks_json(geo, av, 'xyz'), 'rocks_json')
    except TaskTimeout: raise
    except Exception as e:
        fail('rocks-exception', 'rocks_json raised %s: %s' % (type(e).__name__, e))
    counts['sources'] += 1
    try:
        check_sources(dat.generators_json(geo, want_eos, None), 'generators_json')
    except TaskTimeout: raise
    except Exception as e:
        fail('sources-exception', 'generators_json raised %s: %s' % (type(e).__name__, e))
    # the whole export
    counts['json'] += 1
    try:
        j = dat.json(geo, 'mesh.exo', atmos_volume=av, **kw)
    except TaskTimeout: raise
    except Exception as e:
        tb = traceback.extract_tb(sys.exc_info()[2])[-1]
        fail('json-exception', 'json() raised %s: %s (%s:%d %s)' % (type(e).__name__, e, os.path.basename(tb.filename), tb.lineno, tb.name))
        j = None
    if j is not None:
        if j.get('eos', {}).get('name') != want_eos: fail('eos-name', 'json() eos %r, expected name %r' % (j.get('eos'), want_eos))
        check_rocks(j, 'json()')
        check_sources(j, 'json()')
        try: json.dumps(j)
        except Exception as e: fail('json-not-serialisable', 'json.dumps of the export raised %s: %s' % (type(e).__name__, e))
    desc.append(('export', spec['eos'], spec['route'], spec['atmos_type'], spec['block_order'], bool(spec['boundary']), len(spec['generators']) > 0))
    return {'case': tagbox[0], 'cells': len(cells), 'eos': want_eos}


# --------------------------------------------------------------------------------------------------
# shipped data files

def run_shipped(t, tmpdir, fails, counts, desc):
    fn = os.path.join(REPO, 'tests', 'data', t['file'])
    tags = 'shipped=%s' % t['file']

    def fail(cat, stage, what):
        fails.append({'key': '%s %s %s' % (cat, stage, tags), 'what': what, 'input': t})
    work = os.path.join(tmpdir, 'w'); os.makedirs(work)
    for f in glob.glob(os.path.join(os.path.dirname(fn), '*')):
        if not f.endswith('~') and os.path.isfile(f): shutil.copy(f, work)
    cwd = os.getcwd(); os.chdir(work)
    try:
        dat = t2data(os.path.basename(fn))
        direction = 'a2t' if dat.type == 'AUTOUGH2' else 't2a'
        spec = dict(direction=direction, MP=False, entry='method', to_sim='AUTOUGH2.2', to_eos='EW')
        before = fingerprint(dat)
        if direction == 'a2t': exp, notes = expected_a2t(before, spec)
        else: exp, notes = expected_t2a(before, spec, set(b.name for b in dat.grid.blocklist), set(dat.grid.connection.keys()))
        counts['convert-no-exception'] += 1
        try: convert(dat, spec)
        except TaskTimeout: raise
        except Exception as e:
            fail('convert-exception', 'mem', '%s: %s' % (type(e).__name__, e)); return
        counts['convert-post'] += 1
        seen = set()
        for cat, what in compare(exp, fingerprint(dat), notes, direction, 'mem', 0.):
            if cat not in seen: fail(cat, 'mem', what[:600]); seen.add(cat)
        counts['file-round-trip'] += 1
        try:
            dat.write('converted.dat'); back = t2data('converted.dat')
        except TaskTimeout: raise
        except Exception as e:
            fail('file-exception', 'file', '%s: %s' % (type(e).__name__, e)); return
        for cat, what in compare(exp, fingerprint(back), notes, direction, 'file', 2.e-3):
            if cat not in seen: fail(cat, 'file', what[:600]); seen.add(cat)
        desc.append(('shipped', t['file'], direction))
    finally:
        os.chdir(cwd)


# --------------------------------------------------------------------------------------------------

CONTRACTS = ['convert-no-exception', 'convert-post', 'file-round-trip', 'eos', 'rocks', 'sources', 'json']


def run_task(t):
    fails, counts, desc = [], dict((c, 0) for c in CONTRACTS), []
    tmpdir = tempfile.mkdtemp(prefix='task-', dir=SCRATCH[0])
    signal.signal(signal.SIGALRM, _alarm)
    signal.alarm(TASK_TIMEOUT)
    sample = None
    try:
        with contextlib.redirect_stdout(io.StringIO()):
            if t['task'] == 'convert': run_conversion(t['spec'], tmpdir, fails, counts, desc)
            elif t['task'] == 'export': sample = run_export(t['spec'], tmpdir, fails, counts, desc)
            else: run_shipped(t, tmpdir, fails, counts, desc)
    except TaskTimeout:
        fails.append({'key': 'timeout %s %s' % (t['task'], json.dumps(t, sort_keys=True)[:100]), 'what': 'no result within %d s' % TASK_TIMEOUT, 'input': t})
    except Exception:
        fails.append({'key': 'harness-error %s' % t['task'], 'what': traceback.format_exc()[-800:], 'input': t})
    finally:
        signal.alarm(0)
        shutil.rmtree(tmpdir, ignore_errors=True)
    return fails, counts, desc, sample


class HarnessDeadline(Exception):
    pass


def _deadline(signum, frame):
    raise HarnessDeadline()


def _worker_init():
    # the parent's SIGTERM handler must not be inherited: Pool.terminate() relies on SIGTERM killing a worker outright
    signal.signal(signal.SIGTERM, signal.SIG_DFL)


def main():
    t0 = time.time()
    SCRATCH[0] = tempfile.mkdtemp(prefix='pytough-', dir=os.environ.get('PYTOUGH_SCRATCH', '/var/tmp'))
    signal.signal(signal.SIGTERM, lambda *a: sys.exit(1))      # so that the scratch directory goes even when killed
    rnd = random.Random(seed)
    nconv = {'quick': 700, 'thorough': 12000}.get(tier, 700)
    nexp = {'quick': 400, 'thorough': 6000}.get(tier, 400)
    tasks = []
    for i in range(nconv):
        tasks.append(dict(task='convert', spec=gen_spec(rnd, i, 'a2t' if i % 5 < 3 else 't2a')))
    for i in range(nexp):
        tasks.append(dict(task='export', spec=gen_export_spec(rnd, i)))
    for f in sorted(glob.glob(os.path.join(REPO, 'tests', 'data', '*', '*', '*'))):
        base = os.path.basename(f)
        if base.endswith('~') or base.endswith('.npy') or base.endswith('.pdat') or base.startswith('MESH'): continue
        tasks.append(dict(task='shipped', file=os.path.relpath(f, os.path.join(REPO, 'tests', 'data'))))
    failures, counts, distinct, samples = [], dict((c, 0) for c in CONTRACTS), set(), []
    pool = mp.Pool(min(16, os.cpu_count() or 1), initializer=_worker_init)
    signal.signal(signal.SIGALRM, _deadline)
    signal.alarm({'quick': 280, 'thorough': 870}.get(tier, 280))      # whatever happens, report within the budget
    hung = False
    try:
        for fails, cnt, desc, sample in pool.imap(run_task, tasks, chunksize=4):
            failures.extend(fails)
            for k, v in cnt.items(): counts[k] += v
            distinct.update(desc)
            if sample is not None and len(samples) < 4: samples.append(sample)
    except HarnessDeadline:
        failures.append({'key': 'timeout harness-deadline', 'what': 'the harness did not finish within its wall-clock budget; results are partial',
                         'input': {'tier': tier, 'seed': seed}})
    finally:
        signal.alarm(30)
        try:
            pool.terminate(); pool.join()
        except HarnessDeadline:
            hung = True
        finally:
            signal.alarm(0)
        shutil.rmtree(SCRATCH[0], ignore_errors=True)
    # one per class first (smallest reproduction), classes = category + stage + a few features
    def klass(f):
        k = f['key'].split(' ')
        i = f['input'].get('spec', {}) if isinstance(f['input'], dict) and 'spec' in f['input'] else f['input']
        if not isinstance(i, dict): i = {}
        if 'direction' in i:
            return (k[0], k[1], i.get('direction'), i.get('bare'), i.get('goft_objects'))
        return (k[0],)
    groups = {}
    for f in sorted(failures, key=lambda f: (len(json.dumps(f['input'])), f['key'])):
        groups.setdefault(klass(f), []).append(f)
    ordered, rank = [], 0
    while len(ordered) < len(failures):
        for k in sorted(groups, key=lambda k: tuple(str(x) for x in k)):
            if rank < len(groups[k]): ordered.append(groups[k][rank])
        rank += 1
    out = {'evaluations': sum(counts.values()), 'distinct': len(distinct),
           'failures': ordered[:int(os.environ.get('C20_MAXFAIL', '60'))], 'nfailures': len(failures), 'samples': samples,
           'seconds': time.time() - t0, 'per_contract': counts, 'failure_classes': len(groups)}
    print('@@JSON@@' + json.dumps(out))
    if hung:
        sys.stdout.flush(); os._exit(0)


if __name__ == '__main__':
    main()
