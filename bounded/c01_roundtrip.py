"""C01 bounded stand-in: TOUGH2 / AUTOUGH2 data file write/read round trip on the REAL library.

Contracts (each a plain function, evaluated at run time, counted separately):
  model       post(write; read):        model_equal(obj, reread) to the digits each field carries
  sections    post(write; read):        reread._sections == the object's section order
  bytes12     post(write;read;write):   second files == first files up to trailing blanks
  bytes23     from then on:             every further read-and-write cycle is byte-for-byte stable
  indep-read  read(deck written by an independent Fortran-style writer) == the model that was rendered
  reference   read(real data file) == the *.npy reference tables shipped with the tests
  sidefiles   the set of files produced (main, MESH, MESHA/MESHB, .pdat) is the one the configuration asks for

usage: c01_roundtrip.py <tier> <seed>
"""
import sys, os, json, time, random, signal, shutil, tempfile, traceback, io, contextlib
import warnings
warnings.filterwarnings('ignore')
REPO = os.environ.get('PYTOUGH_REPO', '/repo')
sys.path.insert(0, REPO)
sys.path.insert(1, os.path.dirname(os.path.abspath(__file__)))
import numpy as np
import t2data as L
from c01_model import SECTIONS, XP_SECTIONS, canon, compare, sections_with_content
from c01_build import Builder, LENGTHS, MANDATORY, random_order, legal_order
import c01_fortran as FW

TIER = sys.argv[1] if len(sys.argv) > 1 else 'quick'
SEED = int(sys.argv[2]) if len(sys.argv) > 2 else 0
THOROUGH = TIER == 'thorough'
BASE = None


class Timeout(Exception):
    pass


def _alarm(signum, frame):
    raise Timeout()


# ------------------------------------------------------------------------------------------
# file helpers

def paths(d, mesh):
    fn = os.path.join(d, 'model.dat')
    if mesh == 'MESH': m = os.path.join(d, 'MESH')
    elif mesh == 'BIN': m = (os.path.join(d, 'MESHA'), os.path.join(d, 'MESHB'))
    else: m = ''
    return fn, m


def do_write(dat, d, mesh, xp=None):
    """xp: None (whatever the object remembers) or (list, echo)."""
    os.makedirs(d)
    fn, m = paths(d, mesh)
    if dat.meshfilename and not m:
        dat.meshfilename = ''          # never let a remembered mesh file name (possibly in the repo) be written
    with contextlib.redirect_stdout(io.StringIO()):
        if xp is None: dat.write(fn, meshfilename=m)
        else: dat.write(fn, meshfilename=m, extra_precision=list(xp[0]), echo_extra_precision=xp[1])
    return d


def do_read(d, mesh, rf=None):
    fn, m = paths(d, mesh)
    with contextlib.redirect_stdout(io.StringIO()):
        return L.t2data(fn, meshfilename=m, read_function=rf or L.default_read_function)


def file_bytes(d):
    out = {}
    for f in sorted(os.listdir(d)):
        with open(os.path.join(d, f), 'rb') as fh: out[f] = fh.read()
    return out


def first_diff(a, b, blanks):
    """None when equal (up to trailing blanks per line when blanks), else a description."""
    if a == b: return None
    try:
        la, lb = a.decode('latin-1').split('\n'), b.decode('latin-1').split('\n')
    except Exception:
        return 'binary content differs'
    if blanks:
        la, lb = [x.rstrip(' ') for x in la], [x.rstrip(' ') for x in lb]
        if la == lb: return None
    for i, (x, y) in enumerate(zip(la, lb)):
        if x != y: return 'line %d: %r -> %r' % (i + 1, x[:90], y[:90])
    return 'line count %d -> %d (first extra line %r)' % (len(la), len(lb), (la + lb)[min(len(la), len(lb))][:90] if la != lb else '')


# ------------------------------------------------------------------------------------------
# contracts

def signature(what, echoed=()):
    """':KEYWD->KEYWD' when the first differing lines are keyword lines (makes the key say which section moved)."""
    import re
    m = re.match(r"line \d+: '([A-Za-z]{3,9})\s*' -> '([A-Za-z]{3,9})\s*'$", what)
    if m and m.group(1) in echoed: return ':echoed-section-missing'
    return ':%s->%s' % (m.group(1), m.group(2)) if m else ''


def contract_model(expected, got, xp_sections, binary, exact=False):
    diffs = compare(expected, got, xp_sections, binary, limit=12, exact=exact)
    return (not diffs), diffs


def contract_sections(want, got_sections, drop):
    got = [s for s in got_sections if s not in drop]
    want = [s for s in want if s not in drop]
    if got == want: return True, None
    added = [s for s in got if s not in want]
    dropped = [s for s in want if s not in got]
    out = []
    if added: out.append(('sections-added', ','.join(added), 'sections %s, expected %s' % (got, want)))
    if dropped: out.append(('sections-dropped', ','.join(dropped), 'sections %s, expected %s' % (got, want)))
    if not out: out.append(('sections-order', '', 'sections %s, expected %s' % (got, want)))
    return False, out


def contract_files(b1, b2, blanks):
    out = []
    if sorted(b1) != sorted(b2):
        out.append(('fileset', 'files %s -> %s' % (sorted(b1), sorted(b2))))
    for f in b1:
        if f in b2:
            binary = f in ('MESHA', 'MESHB')
            d = first_diff(b1[f], b2[f], blanks and not binary)
            if d: out.append((f, d))
    return (not out), out


def contract_sidefiles(files, mesh, xp_expected):
    want = {'model.dat'}
    if mesh == 'MESH': want.add('MESH')
    if mesh == 'BIN': want |= {'MESHA', 'MESHB'}
    if xp_expected: want.add('model.pdat')
    return set(files) == want, 'files written %s, expected %s' % (sorted(files), sorted(want))


# ------------------------------------------------------------------------------------------

class Result(object):
    def __init__(self, tag):
        self.tag, self.failures, self.evals, self.distinct, self.sample = tag, [], {}, set(), None

    def count(self, contract): self.evals[contract] = self.evals.get(contract, 0) + 1

    def fail(self, category, detail, what, inp):
        key = '%s %s %s' % (category, detail, self.tag) if detail else '%s %s' % (category, self.tag)
        self.failures.append({'key': key, 'what': what, 'input': inp, 'cls': category + ' ' + __import__('re').sub(r'\[[^\]]*\]', '[]', detail)})


def cycle(res, first, exp, exp_order, d, mesh, xp, inp, ncycles=None, drop_sections=()):
    """first: object to write; exp: its canon snapshot; xp: ('off',) | ('on'|'echo', list) | ('asread', list)."""
    xpmode = xp[0]
    xplist = list(xp[1]) if len(xp) > 1 else []
    binary = mesh == 'BIN' and not (xpmode != 'off' and 'ELEME' in xplist)
    d1 = do_write(first, os.path.join(d, 'w1'), mesh, None if xpmode in ('off', 'asread') else (xplist, xpmode == 'echo'))
    b1 = file_bytes(d1)
    res.count('sidefiles')
    ok, what = contract_sidefiles(b1, mesh, bool(xplist) and xpmode != 'off')
    if not ok: res.fail('sidefiles', '', what, inp)
    r1 = do_read(d1, mesh)
    c1 = canon(r1, binary)
    res.count('model')
    ok, diffs = contract_model(exp, c1, xplist if xpmode != 'off' else (), binary)
    for path, e, g, why in diffs:
        res.fail('model', path, 'written %r, re-read %r (%s)' % (e, g, why), inp)
    res.count('sections')
    drop = set()
    if mesh != 'infile': drop |= {'ELEME', 'CONNE'}
    if xpmode in ('on', 'asread'): drop |= set(xplist)
    ok, infos = contract_sections(exp_order, r1._sections, drop | set(drop_sections))
    for info in (infos or []): res.fail(info[0], info[1], info[2], inp)
    # second write, from the re-read object
    d2 = do_write(r1, os.path.join(d, 'w2'), mesh)
    b2 = file_bytes(d2)
    res.count('bytes12')
    ok, diffs = contract_files(b1, b2, blanks=True)
    for f, what in diffs:
        res.fail('bytes12', f + signature(what, xplist if xpmode == 'echo' else ()), 'second write differs from first beyond trailing blanks: ' + what, inp)
    prev_b, prev_d = b2, d2
    for n in range(ncycles or (3 if THOROUGH else 2)):
        rn = do_read(prev_d, mesh)
        dn = do_write(rn, os.path.join(d, 'w%d' % (n + 3)), mesh)
        bn = file_bytes(dn)
        res.count('bytes23')
        ok, diffs = contract_files(prev_b, bn, blanks=False)
        for f, what in diffs:
            res.fail('bytes23', f, 'write #%d differs from write #%d: %s' % (n + 3, n + 2, what), inp)
        if n == 0:
            res.count('model')
            ok, diffs = contract_model(c1, canon(rn, binary), xplist if xpmode != 'off' else (), binary)
            for path, e, g, why in diffs:
                res.fail('model-2nd', path, 'first re-read %r, second re-read %r (%s)' % (e, g, why), inp)
        prev_b, prev_d = bn, dn


def build_from(t):
    b = Builder(L, t['bseed'], t['flavour'], t['sections'], t.get('sizes'), t.get('none'), t['mesh'] == 'BIN',
                t.get('short', False), t.get('explicit', True))
    dat, order = b.build()
    for name, fn in (t.get('post') or []):
        POST[name](dat, fn)
    return dat, order, b


def _post_blocknames(dat, names):
    rt = dat.grid.rocktypelist[0]
    for n in names: dat.grid.add_block(L.t2block(n, 1.0, rt))

def _post_print_block(dat, name): dat.parameter['print_block'] = name

def _post_incon_nogrid(dat, names):
    for n in names: dat.incon[n] = [0.1, [1.e5, 20.]]

def _post_neg_ltab(dat, _):
    for g in dat.generatorlist:
        if g.ltab and g.ltab > 1 and g.type != 'DELV': g.ltab = -g.ltab

def _post_end(dat, kw): dat.end_keyword = kw

POST = {'blocknames': _post_blocknames, 'print_block': _post_print_block, 'incon_nogrid': _post_incon_nogrid,
        'neg_ltab': _post_neg_ltab, 'end': _post_end}

STYLES = {
    'E-trim': (dict(letter='E', ruler=True), None),
    'E-pad80': (dict(letter='E', pad80=True, ruler=False), None),
    'D-pad80': (dict(letter='D', pad80=True, ruler=True), 'fortran'),
    'e-lower': (dict(letter='E', lower=True, ruler=False), 'fortran'),
    'E-plus': (dict(letter='E', plus=True, ruler=True), 'fortran'),
    'E-blankplus': (dict(letter='E', blank_for_plus=True, pad80=True), 'fortran'),
}


def run_task(t):
    global BASE
    tag = t['tag']
    res = Result(tag)
    d = os.path.join(t['base'], 't%d' % t['index'])
    inp = {k: v for k, v in t.items() if k not in ('base', 'index')}
    signal.signal(signal.SIGALRM, _alarm)
    signal.alarm(t.get('timeout', 90))
    stage = 'start'
    try:
        os.makedirs(d)
        kind = t['kind']
        if kind == 'obj':
            stage = 'build'
            dat, order, b = build_from(t)
            exp = canon(dat, t['mesh'] == 'BIN' and not (t['xp'][0] != 'off' and 'ELEME' in t['xp'][1]))
            res.distinct.add((tuple(order), t['mesh'], t['xp'][0], tuple(t['xp'][1]) if len(t['xp']) > 1 else (), t.get('none'),
                              repr(sorted((t.get('sizes') or {}).items(), key=str)) if t.get('sizes') else t['bseed']))
            if any(n == 'incon_nogrid' for n, _ in (t.get('post') or [])):
                order = [s for s in SECTIONS if s in order or s == 'INCON']
            stage = 'cycle'
            cycle(res, dat, exp, order, d, t['mesh'], t['xp'], inp)
            res.sample = {'tag': tag, 'sections': order, 'nblocks': dat.grid.num_blocks, 'ngenerators': len(dat.generatorlist)}
        elif kind == 'indep':
            stage = 'build'
            dat, order, b = build_from(t)
            exp = canon(dat, t['mesh'] == 'BIN')
            sk, rfname = STYLES[t['style']]
            rf = L.fortran_read_function if rfname else L.default_read_function
            stage = 'render'
            inline = t['mesh'] == 'infile'
            main, meshtxt = FW.render(dat, FW.Style(**sk), t['flavour'], order, inline)
            d0 = os.path.join(d, 'f'); os.makedirs(d0)
            fn, m = paths(d0, t['mesh'])
            with open(fn, 'w') as fh: fh.write(main)
            if t['mesh'] == 'MESH':
                with open(m, 'w') as fh: fh.write(meshtxt)
            elif t['mesh'] == 'BIN':
                ba, bb = FW.render_binary(dat, t.get('rock_indices', True))
                with open(m[0], 'wb') as fh: fh.write(ba)
                with open(m[1], 'wb') as fh: fh.write(bb)
            stage = 'read-independent'
            o1 = do_read(d0, t['mesh'], rf)
            c0 = canon(o1, t['mesh'] == 'BIN')
            res.count('indep-read')
            res.distinct.add((tuple(order), t['style'], t['mesh'], t['bseed']))
            ok, diffs = contract_model(exp, c0, (), False, exact=True)
            for path, e, g, why in diffs:
                res.fail('indep-read', path, 'Fortran-style deck carries %r, library read %r (%s)' % (e, g, why), dict(inp, deck=main[:1500]))
            res.count('sections')
            ok, info = contract_sections(order, o1._sections, {'ELEME', 'CONNE'} if not inline else set())
            for info in (info or []): res.fail('indep-' + info[0], info[1], info[2], inp)
            stage = 'cycle'
            cycle(res, o1, c0, list(o1._sections), d, t['mesh'], ('off',), inp, ncycles=1)
            res.sample = {'tag': tag, 'deck_head': main[:300]}
        elif kind == 'file':
            stage = 'read-file'
            src = os.path.join(REPO, 'tests', 'data', t['file'])
            rf = L.fortran_read_function if t.get('rf') == 'fortran' else L.default_read_function
            msrc = t.get('meshsrc') or ''
            if isinstance(msrc, list): msrc = tuple(os.path.join(REPO, 'tests', 'data', x) for x in msrc)
            elif msrc: msrc = os.path.join(REPO, 'tests', 'data', msrc)
            with contextlib.redirect_stdout(io.StringIO()):
                o1 = L.t2data(src, meshfilename=msrc, read_function=rf)
            binary = t['mesh'] == 'BIN'
            exp = canon(o1, binary)
            order = list(o1._sections)
            res.distinct.add((t['file'], t['mesh'], t.get('rf')))
            if t.get('reference'):
                stage = 'reference'
                reference_tables(res, o1, os.path.join(REPO, 'tests', 'data', t['reference']), inp)
            stage = 'cycle'
            xpl = list(o1.extra_precision)
            o1.meshfilename = ''
            cycle(res, o1, exp, order, d, t['mesh'], ('asread', xpl) if xpl else ('off',), inp,
                  drop_sections=('ELEME', 'CONNE') if (msrc and t['mesh'] == 'infile') else ())
            res.sample = {'tag': tag, 'sections': order, 'nblocks': o1.grid.num_blocks, 'extra_precision': xpl}
    except Timeout:
        res.fail('timeout', stage, 'no result within %d s' % t.get('timeout', 90), inp)
    except Exception as e:
        tb = traceback.extract_tb(sys.exc_info()[2])
        where = ''
        for fr in reversed(tb):
            if fr.filename.startswith(REPO):
                where = '%s:%s' % (os.path.basename(fr.filename), fr.name); break
        if not where and tb: where = 'harness:%s:%d' % (tb[-1].name, tb[-1].lineno)
        res.fail('exception', '%s %s %s' % (stage, type(e).__name__, where), '%s: %s' % (type(e).__name__, str(e)[:300]), inp)
    finally:
        signal.alarm(0)
        shutil.rmtree(d, ignore_errors=True)
    return {'index': t['index'], 'failures': res.failures, 'evals': res.evals, 'distinct': [repr(x) for x in res.distinct], 'sample': res.sample}


def reference_tables(res, dat, base, inp):
    """The four reference tables of the upstream tests (float32), compared the way the tests do."""
    fixn = lambda a: np.array([fix_a3i2(x.decode()) for x in a])
    def nan0(a):
        for n in a.dtype.names:
            if a.dtype[n].kind == 'f': a[n] = np.nan_to_num(a[n])
        return a
    tabs = {
        'rocks': (lambda: np.array([tuple([rt.name, rt.density, rt.porosity] + list(rt.permeability) + [rt.conductivity, rt.specific_heat])
                                    for rt in dat.grid.rocktypelist],
                                   dtype=[('f0', 'S5')] + [('f%d' % i, 'f') for i in range(1, 8)]), []),
        'blocks': (lambda: np.array([(b.name, b.rocktype.name, b.volume) for b in dat.grid.blocklist],
                                    dtype=[('f0', 'S5'), ('f1', 'S5'), ('f2', 'f')]), ['f0']),
        'connections': (lambda: nan0(np.array([(k.block[0].name, k.block[1].name, k.direction, k.distance[0], k.distance[1], k.area, k.dircos)
                                               for k in dat.grid.connectionlist],
                                              dtype=[('f0', 'S5'), ('f1', 'S5'), ('f2', 'd'), ('f3', 'f'), ('f4', 'f'), ('f5', 'f'), ('f6', 'f')])), ['f0', 'f1']),
        'generators': (lambda: nan0(np.array([(g.block, g.name, g.type, g.gx, g.ex) for g in dat.generatorlist],
                                             dtype=[('f0', 'S5'), ('f1', 'S5'), ('f2', 'S4'), ('f3', 'f'), ('f4', 'f')])), ['f0', 'f1']),
    }
    for name, (mk, namecols) in tabs.items():
        res.count('reference')
        try:
            expected = np.load(base + '_' + name + '.npy')
            for f in namecols: expected[f] = fixn(expected[f])
            got = mk()
            if got.shape != expected.shape:
                res.fail('reference', name, '%d rows read, reference table has %d' % (len(got), len(expected)), inp)
            elif not (got == expected).all():
                i = int(np.argmin(got == expected))
                res.fail('reference', name, 'row %d read as %r, reference %r' % (i, got[i], expected[i]), inp)
        except Exception as e:
            res.fail('reference', name, 'cannot compare: %s: %s' % (type(e).__name__, e), inp)


def fix_a3i2(n):
    """harness' own statement of the (A3,I2) repair used by the reference tables"""
    return n[0:3] + '0' + n[4] if (n[2].isdigit() and n[3] == ' ' and n[4].isdigit()) else n


# ------------------------------------------------------------------------------------------
# task enumeration

def closure(secs):
    """Add what a section needs to be expressible (rocks for blocks, MULTI for DIFFU, ...)."""
    s = set(secs) | set(MANDATORY)
    if 'DIFFU' in s: s.add('MULTI')
    if s & {'SHORT', 'INCON'}: s.add('ROCKS')
    if 'SHORT' in s: s.add('GENER')
    return s


def tasks_for(seed):
    rnd = random.Random(seed)
    T = []

    def add(kind, tag, **kw):
        kw.update(kind=kind, tag=tag)
        T.append(kw)

    def obj(tag, flavour, secs, mesh='infile', xp=('off',), **kw):
        secs = closure(secs)
        if flavour == 'AUTOUGH2': secs.add('SIMUL')
        if mesh != 'infile': secs.discard('SHORT')
        if flavour != 'AUTOUGH2': secs.discard('SIMUL')
        sizes = dict(kw.pop('sizes', None) or {})
        sizes['main_excluded'] = sorted((set(['ELEME', 'CONNE']) if mesh != 'infile' else set()) | (set(xp[1]) if xp[0] != 'off' else set()))
        kw['sizes'] = sizes
        order = kw.pop('order', None) or [s for s in SECTIONS if s in secs]
        xs = 'xp-' + xp[0] + ('[' + ','.join(xp[1]) + ']' if len(xp) > 1 else '')
        add('obj', '%s|%s|%s|%s' % (tag, flavour[0], mesh, xs), flavour=flavour, sections=order, mesh=mesh, xp=list(xp), **kw)

    FL = ['TOUGH2', 'AUTOUGH2']
    ALL = list(SECTIONS)
    # 1. every single section alone (with the parameter set and the grid every t2data object has)
    for s in SECTIONS:
        for fl in FL:
            if s == 'SIMUL' and fl == 'TOUGH2': continue
            for mesh in (['infile', 'MESH', 'BIN'] if (THOROUGH or s in ('ELEME', 'CONNE', 'ROCKS', 'FOFT', 'INCON')) else ['infile']):
                if s == 'SHORT' and mesh != 'infile': continue
                for k in range(3 if THOROUGH else 1):
                    secs = [s] + (['ROCKS'] if s in ('ELEME', 'CONNE', 'FOFT', 'COFT', 'GOFT') else [])
                    obj('single:%s#%d' % (s, k), fl, secs, mesh, bseed=seed * 7919 + k, explicit=bool(k % 2))
    # 2. all 23 present, every configuration
    for fl in FL:
        for mesh in ('infile', 'MESH', 'BIN'):
            xps = [('off',)]
            if fl == 'AUTOUGH2':
                xps += [('on', ['ROCKS']), ('on', ['GENER']), ('echo', ['RPCAP', 'GENER']), ('on', ['RPCAP']), ('echo', ['ROCKS'])]
                if mesh == 'infile':
                    xps += [('on', XP_SECTIONS), ('echo', XP_SECTIONS), ('on', ['ROCKS', 'ELEME']), ('on', ['ROCKS', 'ELEME', 'CONNE']),
                            ('echo', ['ROCKS', 'ELEME', 'CONNE'])]
            for xp in xps:
                for k in range(12 if THOROUGH else 2):
                    obj('all23#%d' % k, fl, ALL, mesh, xp, bseed=seed * 104729 + k, explicit=bool(k % 2))
    # 3. None in every optional field, one at a time (paths collected from a dry build)
    for fl in FL:
        for k in range(2 if THOROUGH else 1):
            secs = closure(ALL) | ({'SIMUL'} if fl == 'AUTOUGH2' else set())
            order = [s for s in SECTIONS if s in secs]
            bseed = seed * 15485863 + k
            b = Builder(L, bseed, fl, order, {'nad': 2, 'npar': 4}, '-')
            b.build()
            pathsl = list(dict.fromkeys(b.optional))
            if not THOROUGH:
                pathsl = [p for i, p in enumerate(pathsl) if i % 3 == seed % 3]
            for p in pathsl:
                obj('none:%s#%d' % (p, k), fl, ALL, 'infile', bseed=bseed, none=p, sizes={'nad': 2, 'npar': 4})
            if THOROUGH:
                for p in pathsl[::4]:
                    if fl == 'AUTOUGH2':
                        obj('none:%s#%d' % (p, k), fl, ALL, 'infile', ('on', XP_SECTIONS), bseed=bseed, none=p, sizes={'nad': 2, 'npar': 4})
                    if not p.startswith('ELEME') and not p.startswith('CONNE'):
                        obj('none:%s#%d' % (p, k), fl, ALL, 'MESH', bseed=bseed, none=p, sizes={'nad': 2, 'npar': 4})
    # 4. list lengths on both sides of every 4- and 8-per-line boundary
    L8 = LENGTHS + [15, 16, 17, 24, 25]
    sweeps = [('timestep', ['PARAM'], [n for n in L8 if n]), ('default_incons', ['PARAM'], list(range(0, 14))),
              ('times', ['TIMES'], [n for n in L8 if n]), ('selec', ['SELEC'], L8), ('radii', ['MESHM'], [n for n in L8 if n]),
              ('layer', ['MESHM'], [n for n in L8 if n]), ('xyz', ['MESHM'], [n for n in L8 if n]), ('vol', ['MESHM'], [n for n in L8 if n]),
              ('spacing', ['MESHM'], list(range(0, 8))), ('npar', ['ROCKS', 'RPCAP'], list(range(0, 8))),
              ('blocks', ['ROCKS', 'INCON', 'FOFT'], LENGTHS), ('connections', ['ROCKS', 'COFT'], LENGTHS),
              ('incon_vars', ['ROCKS', 'INCON', 'INDOM'], [1, 2, 3, 4]), ('selec_int', ['SELEC'], [1, 2, 15, 16]),
              ('generators', ['ROCKS', 'GENER'], [1, 2, 3, 5])]
    for what, secs, lens in sweeps:
        for n in lens:
            for fl in (FL if THOROUGH or what in ('default_incons', 'timestep') else ['TOUGH2']):
                sizes = {what: n}
                if what in ('radii', 'layer'): sizes.update(meshmaker=['rz2d'], rz2d_subs=3)
                if what == 'xyz': sizes.update(meshmaker=['xyz'], xyz_subs=2)
                if what in ('vol', 'spacing'): sizes.update(meshmaker=['minc'])
                if what == 'npar': sizes.update(nad=2)
                if what == 'connections': sizes.update(blocks=8)
                for k in range(2 if THOROUGH else 1):
                    obj('len:%s=%d#%d' % (what, n, k), fl, secs, 'infile', bseed=seed * 611953 + n * 31 + k, sizes=sizes)
    for n in range(1, 14):       # generator tables 1..13 times, with and without the enthalpy column
        for h in (False, True):
            for fl in FL:
                xps = [('off',)] + ([('on', ['GENER'])] if fl == 'AUTOUGH2' else [])
                for xp in xps:
                    obj('len:table=%d%s' % (n, '+h' if h else ''), fl, ['ROCKS', 'GENER'], 'infile', xp, bseed=seed * 499 + n, sizes={'table': n, 'enthalpy': h, 'generators': 2})
    # 5. dedicated probes of clauses the generators above keep out of the way
    for fl in FL:
        for n in (['abc07'], ['ab1 5'], ['AB007'], ['  a 1', 'x   9'], ['ab105', 'zz100']):
            obj('probe:blockname=%s' % '+'.join(n), fl, ['ROCKS', 'ELEME'], 'infile', bseed=seed + 11, sizes={'blocks': 1}, post=[('blocknames', n)])
        for n in ('ab105', 'abc 7', 'abc07', 'abc12'):
            obj('probe:print_block=%s' % n, fl, ['PARAM'], 'infile', bseed=seed + 12, post=[('print_block', n)])
        obj('probe:incon-without-grid', fl, ['INDOM'], 'infile', bseed=seed + 13, post=[('incon_nogrid', ['abc12', 'xyz 3'])])
        obj('probe:incon-without-grid', fl, ['INDOM'], 'MESH', bseed=seed + 13, post=[('incon_nogrid', ['abc12', 'xyz 3'])])
        obj('probe:negative-ltab', fl, ['ROCKS', 'GENER'], 'infile', bseed=seed + 14, sizes={'table': 5, 'enthalpy': True}, post=[('neg_ltab', 0)])
        if fl == 'AUTOUGH2':
            obj('probe:xp-not-self-contained', fl, ALL, 'infile', ('on', ['ELEME', 'CONNE']), bseed=seed + 16)
            obj('probe:xp-not-self-contained', fl, ALL, 'infile', ('on', ['ROCKS', 'CONNE']), bseed=seed + 16)
            obj('probe:xp-absent-section', fl, ['ROCKS'], 'infile', ('on', ['GENER']), bseed=seed + 17)
            obj('probe:xp-grid+meshfile', fl, ALL, 'BIN', ('on', ['ROCKS', 'ELEME', 'CONNE']), bseed=seed + 18)
            obj('probe:xp-grid+meshfile', fl, ALL, 'MESH', ('on', ['ROCKS', 'ELEME', 'CONNE']), bseed=seed + 18)
            obj('probe:xp-grid+meshfile', fl, ALL, 'MESH', ('on', ['ROCKS', 'ELEME']), bseed=seed + 18)
            obj('probe:xp-grid+meshfile', fl, ALL, 'BIN', ('on', ['ROCKS', 'ELEME']), bseed=seed + 18)
        obj('probe:order=ELEME,COFT,CONNE', fl, ['ROCKS', 'COFT'], 'infile', bseed=seed + 20, sizes={'blocks': 4, 'connections': 3, 'keep_order': True},
            order=(['SIMUL'] if fl == 'AUTOUGH2' else []) + ['ROCKS', 'PARAM', 'ELEME', 'COFT', 'CONNE'])
        for last in ('PARAM', 'ROCKS', 'TIMES', 'GENER', 'START'):
            for kwd in ('ENDFI', 'ENDCY'):
                secs = closure(['ROCKS', 'TIMES', 'GENER', 'START']) | ({'SIMUL'} if fl == 'AUTOUGH2' else set())
                order = [s for s in SECTIONS if s in secs and s != last] + [last]
                obj('probe:last=%s,end=%s' % (last, kwd), fl, secs, 'infile', bseed=seed + 15, order=order, sizes={'end_keyword': kwd})
    # 6. random legal subsets and orders
    nrand = 20000 if THOROUGH else 1000
    for i in range(nrand):
        fl = rnd.choice(FL)
        secs = set(s for s in SECTIONS if rnd.random() < 0.5)
        mesh = rnd.choice(['infile', 'infile', 'MESH', 'BIN'])
        if mesh != 'infile': secs.add('ROCKS')
        secs = closure(secs)
        if mesh != 'infile': secs.discard('SHORT')
        if fl == 'AUTOUGH2': secs.add('SIMUL')
        else: secs.discard('SIMUL')
        explicit = rnd.random() < 0.7
        order = random_order(rnd, secs) if explicit else [s for s in SECTIONS if s in secs]
        xp = ('off',)
        if fl == 'AUTOUGH2':
            u = rnd.random()
            if u > 0.4:
                xl = set(s for s in XP_SECTIONS if rnd.random() < 0.5) or set(XP_SECTIONS)
                # a companion file is read before the main file: it must be self-contained (rocks for blocks, blocks for
                # connections); sections kept in a mesh file stay there; sections the object does not have are not asked for
                if 'CONNE' in xl: xl.add('ELEME')
                if 'ELEME' in xl: xl.add('ROCKS')
                if 'ELEME' in xl and 'COFT' in secs: xl.add('CONNE')
                if mesh != 'infile': xl -= {'ELEME', 'CONNE'}
                xl = [s for s in XP_SECTIONS if s in xl and s in secs]
                if xl: xp = ('on' if u < 0.8 else 'echo', xl)
        obj('rand#%d' % i, fl, secs, mesh, xp, bseed=seed * 2750159 + i, order=order, explicit=explicit)
    # 7. records emitted by an independent Fortran-style writer
    styles = list(STYLES)
    nind = 3000 if THOROUGH else 150
    for i in range(nind):
        fl = FL[i % 2]
        st = styles[(i // 2) % len(styles)]
        mesh = 'MESH' if i % 5 == 4 else ('BIN' if i % 5 == 3 else 'infile')
        if i < 4 * len(styles):
            secs = closure(ALL)
        else:
            secs = closure(set(s for s in SECTIONS if rnd.random() < 0.5) | ({'ROCKS'} if mesh != 'infile' else set()))
        if mesh != 'infile': secs.discard('SHORT')
        if fl == 'AUTOUGH2': secs.add('SIMUL')
        else: secs.discard('SIMUL')
        order = [s for s in SECTIONS if s in secs] if i % 3 else random_order(rnd, secs)
        add('indep', 'indep#%d|%s|%s|%s' % (i, fl[0], mesh, st), flavour=fl, sections=order, mesh=mesh, style=st, bseed=seed * 32452843 + i, short=True, rock_indices=bool(i % 2 == 0 or i % 3),
            sizes={'main_excluded': ['ELEME', 'CONNE'] if mesh != 'infile' else [], 'param_not_last': bool(STYLES[st][1])})
    for fl in FL:
        for st in ('D-pad80', 'E-trim'):
            for kwd in ('ENDFI', 'ENDCY'):
                secs = closure(['ROCKS', 'TIMES']) | ({'SIMUL'} if fl == 'AUTOUGH2' else set())
                order = [s for s in SECTIONS if s in secs and s != 'PARAM'] + ['PARAM']
                add('indep', 'indep-probe:last=PARAM,end=%s|%s|infile|%s' % (kwd, fl[0], st), flavour=fl, sections=order, mesh='infile', style=st,
                    bseed=seed + 19, short=True, sizes={'end_keyword': kwd})
    # 8. every real data file under tests/data
    files = [
        ('AUTOUGH2/1/case1.dat', 'fortran', None, 'infile', 'AUTOUGH2/1/case1'),
        ('AUTOUGH2/2/case2.dat', 'fortran', None, 'infile', 'AUTOUGH2/2/case2'),
        ('AUTOUGH2/3/a1.dat', None, None, 'infile', 'AUTOUGH2/3/a1'),
        ('TOUGH2/1/r1q', None, 'TOUGH2/1/MESH', 'MESH', 'TOUGH2/1/r1q'),
        ('TOUGH2/1/r1q', None, 'TOUGH2/1/MESH', 'infile', None),
        ('TOUGH2/1/r1q', None, None, 'infile', None),
        ('TOUGH2/2/eos7c.dat', None, None, 'infile', None),
        ('TOUGH2-MP/1/rfp_nomesh', None, ['TOUGH2-MP/1/MESHA', 'TOUGH2-MP/1/MESHB'], 'BIN', 'TOUGH2-MP/1/rfp_nomesh'),
        ('TOUGH2-MP/1/rfp_nomesh', None, ['TOUGH2-MP/1/MESHA', 'TOUGH2-MP/1/MESHB'], 'MESH', None),
        ('TOUGH2-MP/1/rfp_nomesh', None, ['TOUGH2-MP/1/MESHA', 'TOUGH2-MP/1/MESHB'], 'infile', None),
        ('TOUGH2-MP/1/rfp_nomesh', None, None, 'infile', None),
        ('AUTOUGH2/1/case1.dat', 'fortran', None, 'MESH', None),
        ('AUTOUGH2/1/case1.dat', 'fortran', None, 'BIN', None),
    ]
    for f, rf, msrc, mesh, ref in files:
        add('file', 'file:%s|read-mesh=%s|write-mesh=%s' % (f, 'none' if not msrc else ('MESHA+MESHB' if isinstance(msrc, list) else 'MESH'), mesh),
            file=f, rf=rf, meshsrc=msrc, mesh=mesh, reference=ref, timeout=400)
    for i, t in enumerate(T):
        t['index'] = i
    return T


def main():
    t0 = time.time()
    base = tempfile.mkdtemp(prefix='pytough-', dir=os.environ.get('PYTOUGH_SCRATCH', '/var/tmp'))
    failures, evals, distinct, samples, classes = [], {}, set(), [], {}
    try:
        T = tasks_for(SEED)
        import re as _re
        if os.environ.get('C01_ONLY'): T = [t for t in T if _re.search(os.environ['C01_ONLY'], t['tag'])]
        for t in T: t['base'] = base
        # big files first so that they overlap with the small cases
        T.sort(key=lambda t: (0 if t['kind'] == 'file' else 1, t['index']))
        import multiprocessing as mp
        ctx = mp.get_context('fork')
        nproc = min(16, os.cpu_count() or 4)
        with ctx.Pool(nproc) as pool:
            results = list(pool.imap_unordered(run_task, T, chunksize=1 if len(T) < 2000 else 4))
        results.sort(key=lambda r: r['index'])
        nfail = 0
        held = []
        for r in results:
            for k, v in r['evals'].items(): evals[k] = evals.get(k, 0) + v
            distinct.update(r['distinct'])
            if r['sample'] and len(samples) < 6 and r['index'] % 97 in (0, 1, 5): samples.append(r['sample'])
            for f in r['failures']:
                nfail += 1
                cls = f.pop('cls')
                classes[cls] = classes.get(cls, 0) + 1
                if classes[cls] == 1: failures.append(f)
                elif classes[cls] <= int(os.environ.get('C01_MAXPER', 3)): held.append(f)
        cap = int(os.environ.get('C01_MAXF', 60))
        failures = (failures + held)[:cap]
        out = {'evaluations': sum(evals.values()), 'distinct': len(distinct), 'failures': failures, 'nfailures': nfail,
               'samples': samples + [{'evaluations_per_contract': evals, 'tasks': len(T)}],
               'classes': dict(sorted(classes.items())), 'seconds': time.time() - t0}
    finally:
        shutil.rmtree(base, ignore_errors=True)
    print('@@JSON@@' + json.dumps(out, default=str))


if __name__ == '__main__':
    main()
