"""C01 helper: an independent Fortran-style writer of a TOUGH2 / AUTOUGH2 input deck.

It walks a t2data object (attributes only) and emits the records of the TOUGH2 user guide
(own column layout below, own chunking), numbers formatted by bounded/fortran_ref.py
(Ew.d with 0.ddd normalisation, Fw.d, Iw, Aw) - nothing of t2data's tables or writers is used.
"""
from fortran_ref import fortran_E, fortran_F, fortran_I, fortran_A


class Style(object):
    def __init__(self, letter='E', lower=False, pad80=False, ruler=True, plus=False, blank_for_plus=False):
        self.letter, self.lower, self.pad80, self.ruler, self.plus, self.blank_for_plus = letter, lower, pad80, ruler, plus, blank_for_plus


def E(v, w, d, st):
    if v is None:
        return ' ' * w
    s = fortran_E(v, w, d, letter=st.letter, lower=st.lower, plus=st.plus, blank_for_plus=st.blank_for_plus)
    if s.startswith('*'):
        s = fortran_E(v, w, d, letter=st.letter, lower=st.lower, leading_zero=False, blank_for_plus=st.blank_for_plus)
    if s.startswith('*'):
        raise ValueError('value %r does not fit E%d.%d' % (v, w, d))
    return s


def F(v, w, d):
    if v is None:
        return ' ' * w
    s = fortran_F(v, w, d)
    if s.startswith('*'):
        raise ValueError('value %r does not fit F%d.%d' % (v, w, d))
    return s


def I(v, w):
    if v is None:
        return ' ' * w
    s = fortran_I(int(v), w)
    if s.startswith('*'):
        raise ValueError('value %r does not fit I%d' % (v, w))
    return s


def A(s, w):
    return ' ' * w if s is None else fortran_A(s, w)


def a3i2(name):
    """The simulator's view of a block name: (A3, I2)."""
    return name[0:3] + '%2d' % int(name[3:5]) if name[3:5].isdigit() else name


def chunks(lst, k):
    return [lst[i:i + k] for i in range(0, len(lst), k)]


def nm(x):
    return x if isinstance(x, str) else x.name


def render(dat, st, flavour, order, mesh_inline=True):
    """-> (main file text, mesh file text or None)"""
    out = []
    auto = flavour == 'AUTOUGH2'
    g = dat.grid

    def kw(k, deco=True):
        out.append(k + ('----1----*----2----*----3----*----4----*----5----*----6----*----7----*----8'[len(k) - 5:] if (st.ruler and deco) else ''))

    def rpcap(d):
        pars = list(d.get('parameters', []))
        return I(d.get('type'), 5) + ' ' * 5 + ''.join(E(v, 10, 3, st) for v in pars)

    def eleme(o):
        o.append('ELEME')
        for b in g.blocklist:
            c = [None] * 3 if b.centre is None else list(b.centre)
            o.append(A(a3i2(b.name), 5) + I(b.nseq, 5) + I(b.nadd, 5) + A(b.rocktype.name, 5) + E(b.volume, 10, 4, st) + E(b.ahtx, 10, 4, st) +
                     E(b.pmx, 10, 4, st) + ''.join(E(x, 10, 3, st) for x in c))
        o.append('')

    def conne(o):
        o.append('CONNE')
        for k in g.connectionlist:
            o.append(A(a3i2(k.block[0].name), 5) + A(a3i2(k.block[1].name), 5) + I(k.nseq, 5) + I(k.nad1, 5) + I(k.nad2, 5) + I(k.direction, 5) +
                     E(k.distance[0], 10, 4, st) + E(k.distance[1], 10, 4, st) + E(k.area, 10, 4, st) + F(k.dircos, 10, 7 if abs(k.dircos or 0) < 1 or (k.dircos or 0) > 0 else 6) +
                     E(k.sigma, 10, 3, st))
        o.append('')

    out.append(dat.title)
    for sec in order:
        if sec == 'SIMUL':
            kw('SIMUL', False); out.append(dat.simulator)
        elif sec == 'ROCKS':
            kw('ROCKS')
            for rt in g.rocktypelist:
                k = list(rt.permeability)
                out.append(A(rt.name, 5) + I(rt.nad, 5) + E(rt.density, 10, 4, st) + E(rt.porosity, 10, 4, st) + ''.join(E(x, 10, 4, st) for x in k) +
                           E(rt.conductivity, 10, 4, st) + E(rt.specific_heat, 10, 4, st))
                nad = rt.nad or 0
                if nad >= 1:
                    out.append(''.join(E(rt.__dict__.get(x), 10, 4, st) for x in ('compressibility', 'expansivity', 'dry_conductivity', 'tortuosity',
                                                                                  'klinkenberg', 'xkd3', 'xkd4')))
                if nad >= 2:
                    out.append(rpcap(rt.relative_permeability)); out.append(rpcap(rt.capillarity))
            out.append('')
        elif sec == 'PARAM':
            kw('PARAM')
            p = dat.parameter
            mop = ''.join(str(int(m)) for m in p['option'][1:])
            line = I(p.get('max_iterations'), 2) + I(p.get('print_level'), 2) + I(p.get('max_timesteps'), 4) + I(p.get('max_duration'), 4) + \
                I(p.get('print_interval'), 4) + A(mop, 24)
            if auto: line += E(p.get('diff0'), 10, 3, st)
            line += E(p.get('texp'), 10, 3, st) + E(p.get('be'), 10, 3, st)
            out.append(line)
            pb = p.get('print_block')
            out.append(E(p.get('tstart'), 10, 3, st) + E(p.get('tstop'), 10, 3, st) + E(p.get('const_timestep'), 10, 3, st) + E(p.get('max_timestep'), 10, 3, st) +
                       A(a3i2(pb) if pb else pb, 5) + ' ' * 5 + E(p.get('gravity'), 10, 4, st) + E(p.get('timestep_reduction'), 10, 4, st) + E(p.get('scale'), 10, 4, st))
            if p['const_timestep'] < 0:
                for ch in chunks(p['timestep'], 8): out.append(''.join(E(x, 10, 4, st) for x in ch))
            out.append(''.join(E(p.get(x), 10, 4, st) for x in ('relative_error', 'absolute_error', 'pivot', 'upstream_weight', 'newton_weight',
                                                             'derivative_increment')))
            di = p['default_incons']
            if di:
                for ch in chunks(di, 4): out.append(''.join(E(x, 20, 14, st) for x in ch))
            else: out.append('')
        elif sec == 'MOMOP':
            kw('MOMOP'); out.append(''.join(str(int(m)) for m in dat.more_option[1:]))
        elif sec == 'START': kw('START')
        elif sec == 'NOVER': kw('NOVER')
        elif sec == 'RPCAP':
            kw('RPCAP'); out.append(rpcap(dat.relative_permeability)); out.append(rpcap(dat.capillarity))
        elif sec == 'LINEQ':
            kw('LINEQ'); d = dat.lineq
            out.append(I(d.get('type'), 2) + E(d.get('epsilon'), 10, 4, st) + I(d.get('max_iterations'), 4) + I(d.get('gauss'), 1) + I(d.get('num_orthog'), 4))
        elif sec == 'SOLVR':
            kw('SOLVR'); d = dat.solver
            out.append(I(d.get('type'), 1) + '  ' + A(d.get('z_precond'), 2) + '   ' + A(d.get('o_precond'), 2) + E(d.get('relative_max_iterations'), 10, 4, st) +
                       E(d.get('closure'), 10, 4, st))
        elif sec == 'MULTI':
            kw('MULTI'); d = dat.multi
            line = ''.join(I(d.get(x), 5) for x in ('num_components', 'num_equations', 'num_phases', 'num_secondary_parameters'))
            line += A(d.get('eos'), 4) if auto else I(d.get('num_inc'), 5)
            out.append(line)
        elif sec == 'TIMES':
            kw('TIMES'); d = dat.output_times
            out.append(I(d.get('num_times_specified'), 5) + I(d.get('num_times'), 5) + E(d.get('max_timestep'), 10, 4, st) + E(d.get('time_increment'), 10, 4, st))
            for ch in chunks(d['time'], 8): out.append(''.join(E(x, 10, 4, st) for x in ch))
        elif sec == 'SELEC':
            kw('SELEC'); d = dat.selection
            out.append(''.join(I(x, 5) for x in d['integer']))
            fl = list(d['float'])
            for i in range(d['integer'][0]):
                out.append(''.join(E(x, 10, 3, st) for x in fl[8 * i: 8 * i + 8]))
        elif sec == 'DIFFU':
            kw('DIFFU')
            for comp in dat.diffusion: out.append(''.join(E(x, 10, 3, st) for x in comp))
        elif sec == 'ELEME':
            if mesh_inline: eleme(out)
        elif sec == 'CONNE':
            if mesh_inline: conne(out)
        elif sec == 'MESHM':
            out.append('MESHMAKER')
            for stype, section in dat.meshmaker:
                if stype == 'rz2d':
                    out.append('RZ2D')
                    for s2, sub in section:
                        out.append(s2.upper())
                        if s2 == 'radii':
                            out.append(I(len(sub['radii']), 5))
                            for ch in chunks(sub['radii'], 8): out.append(''.join(E(x, 10, 4, st) for x in ch))
                        elif s2 == 'equid': out.append(I(sub.get('nequ'), 5) + ' ' * 5 + E(sub.get('dr'), 10, 4, st))
                        elif s2 == 'logar': out.append(I(sub.get('nlog'), 5) + ' ' * 5 + E(sub.get('rlog'), 10, 4, st) + E(sub.get('dr'), 10, 4, st))
                        else:
                            out.append(I(len(sub['layer']), 5))
                            for ch in chunks(sub['layer'], 8): out.append(''.join(E(x, 10, 4, st) for x in ch))
                elif stype == 'xyz':
                    out.append('XYZ'); out.append(E(section[0], 10, 4, st))
                    for sub in section[1:]:
                        out.append(A(sub.get('ntype'), 2) + '   ' + I(sub.get('no'), 5) + E(sub.get('del'), 10, 4, st))
                        if sub.get('del') == 0:
                            for ch in chunks(sub['deli'], 8): out.append(''.join(E(x, 10, 4, st) for x in ch))
                    out.append('')
                else:
                    out.append('MINC')
                    out.append('PART ' + A(section['type'], 5) + ' ' * 5 + A(section.get('dual'), 5))
                    out.append(I(section.get('num_continua'), 3) + I(len(section['vol']), 3) + A(section.get('where'), 4) +
                               ''.join(E(x, 10, 4, st) for x in section['spacing']))
                    for ch in chunks(section['vol'], 8): out.append(''.join(E(x, 10, 4, st) for x in ch))
            out.append('')
        elif sec == 'GENER':
            kw('GENER')
            for gen in dat.generatorlist:
                out.append(A(a3i2(gen.block), 5) + A(a3i2(gen.name), 5) + I(gen.nseq, 5) + I(gen.nadd, 5) + I(gen.nads, 5) + I(gen.ltab, 5) + ' ' * 5 +
                           A(gen.type, 4) + A(gen.itab, 1) + E(gen.gx, 10, 3, st) + E(gen.ex, 10, 3, st) + E(gen.hg, 10, 3, st) + E(gen.fg, 10, 3, st))
                if gen.ltab and abs(gen.ltab) > 1 and gen.type != 'DELV':
                    for lst in (gen.time, gen.rate) + ((gen.enthalpy,) if gen.itab.strip() else ()):
                        for ch in chunks(lst, 4): out.append(''.join(E(x, 14, 7, st) for x in ch))
            out.append('')
        elif sec == 'SHORT':
            so = dat.short_output
            out.append('SHORT' + (I(so['frequency'], 2) if so.get('frequency') else ''))
            if 'block' in so:
                out.append('ELEME')
                for b in so['block']: out.append(a3i2(nm(b)))
            if 'connection' in so:
                out.append('CONNE')
                for k in so['connection']: out.append(a3i2(k.block[0].name) + a3i2(k.block[1].name))
            if 'generator' in so:
                out.append('GENER')
                for x in so['generator']: out.append(a3i2(x.block) + a3i2(x.name))
            out.append('')
        elif sec in ('FOFT', 'GOFT'):
            kw(sec + ' ' if len(sec) == 4 else sec)
            for b in (dat.history_block if sec == 'FOFT' else dat.history_generator): out.append(a3i2(nm(b)))
            out.append('')
        elif sec == 'COFT':
            kw('COFT ')
            for k in dat.history_connection:
                n = k if isinstance(k, tuple) else (k.block[0].name, k.block[1].name)
                out.append(a3i2(n[0]) + a3i2(n[1]))
            out.append('')
        elif sec == 'INCON':
            kw('INCON')
            for b in g.blocklist:
                if b.name in dat.incon:
                    inc = dat.incon[b.name]
                    out.append(A(a3i2(b.name), 5) + I(inc[2] if len(inc) > 2 else None, 5) + I(inc[3] if len(inc) > 3 else None, 5) + E(inc[0], 15, 9, st))
                    out.append(''.join(E(x, 20, 14, st) for x in inc[1]))
            out.append('')
        elif sec == 'INDOM':
            kw('INDOM')
            for name, v in dat.indom.items():
                out.append(A(name, 5)); out.append(''.join(E(x, 20, 13, st) for x in v))
            out.append('')
    kw(dat.end_keyword)
    mesh = None
    if not mesh_inline:
        m = []; eleme(m); conne(m)
        mesh = '\n'.join(x.ljust(80) if st.pad80 else x.rstrip() for x in m) + '\n'
    lines = [out[0]] + [(x.ljust(80) if st.pad80 else x.rstrip()) for x in out[1:]]
    if st.pad80: lines[0] = lines[0].ljust(80)
    return '\n'.join(lines) + '\n', mesh


def render_binary(dat, rock_indices=True):
    """MESHA / MESHB as TOUGH2-MP writes them (Fortran unformatted sequential records: 4-byte
    length, payload, 4-byte length), packed with struct only.  -> (bytes of MESHA, bytes of MESHB)"""
    import struct
    g = dat.grid

    def rec(fmt, vals):
        body = struct.pack('<' + fmt, *vals)
        n = struct.pack('<i', len(body))
        return n + body + n

    z = lambda v: 0.0 if v is None else float(v)
    nel, ncon = len(g.blocklist), len(g.connectionlist)
    index = dict((b.name, i + 1) for i, b in enumerate(g.blocklist))
    a = rec('i', [nel])
    for col in ([z(b.volume) for b in g.blocklist], [z(b.ahtx) for b in g.blocklist], [z(b.pmx) for b in g.blocklist],
                [z(b.centre[0]) for b in g.blocklist], [z(b.centre[1]) for b in g.blocklist], [z(b.centre[2]) for b in g.blocklist]):
        a += rec('%dd' % nel, col)
    for col in ([z(k.distance[0]) for k in g.connectionlist], [z(k.distance[1]) for k in g.connectionlist], [z(k.area) for k in g.connectionlist],
                [z(k.dircos) for k in g.connectionlist], [z(k.sigma) for k in g.connectionlist]):
        a += rec('%dd' % ncon, col)
    a += rec('%di' % ncon, [k.direction for k in g.connectionlist])
    a += rec('8s' * ncon, [a3i2(k.block[0].name).ljust(8).encode() for k in g.connectionlist])
    a += rec('8s' * ncon, [a3i2(k.block[1].name).ljust(8).encode() for k in g.connectionlist])
    b = rec('2i', [ncon, -nel if rock_indices else nel])
    b += rec('8s' * nel, [a3i2(x.name).ljust(8).encode() for x in g.blocklist])
    if rock_indices:
        rocks = [r.name for r in g.rocktypelist]
        b += rec('%di' % nel, [rocks.index(x.rocktype.name) + 1 for x in g.blocklist])
    else:
        b += rec('5s' * nel, [x.rocktype.name.encode() for x in g.blocklist])
    b += rec('%di' % ncon, [index[k.block[0].name] for k in g.connectionlist])
    b += rec('%di' % ncon, [index[k.block[1].name] for k in g.connectionlist])
    return a, b
