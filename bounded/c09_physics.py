"""C09 bounded stand-in: reorder / rename_blocks / minc / embed of the REAL t2grid keep the physics.

usage: c09_physics.py <tier> <seed>

Oracle: the PHYSICAL SIGNATURE of a grid, computed by the harness from the public attributes only,
  per block : volume, rock type name, centre
  per connection, as an UNORDERED pair of block names : area, permeability direction,
      {block name: its own distance to the interface}, {block name: its nad}, the name of the UPPER
      block according to the sign of dircos (block[1] if dircos < 0, block[0] if dircos > 0, none if
      0 / None), |dircos|, sigma
compared before / after every operation (names pushed through the harness's own copy of the rename
map; exact float equality in memory, format-width tolerances after a data-file write/read).

Contracts (counted separately):
  reorder-signature, reorder-order, reorder-lookup      t2grid.reorder(block_names, connection_names | geo)
  rename-signature, rename-lookup                       t2grid.rename_blocks / t2data.rename_blocks (also invert)
  fileio-signature                                      t2data.write + t2data(filename) after the edits
  minc-volumes, minc-chain, minc-frame, minc-blockindex t2grid.minc
  embed-none, embed-volume, embed-frame                 t2grid.embed

Parts
  A  small grids (<= 6 blocks quick, <= 7 thorough) from rectangular / irregular geometries, all atmosphere types:
     EVERY block permutation, EVERY connection permutation with EVERY subset reversed (<= 5 connections;
     above: every subset x sampled permutations and every permutation x two subsets),
     EVERY injective partial rename into names + 2 fresh names not colliding with an unrenamed block.
  B  random compositions (length 1..4 of reorder / reorder(geo) / rename via grid / via t2data / inverted),
     optionally followed by write/read, on grids of up to ~300 blocks (rectangular with tilt, uneven surface,
     shipped g7 reduced = triangles and quadrilaterals, gmsh, radial).
  C  MINC: 2..6 fractions (normalised or not), 1..3 plane sets, spacing {1, 50, 1e3} scalar or per plane set,
     full / explicit / partial selection by name or by block object, default or custom matrix names.
  D  embed: sub-grid volume below / equal / above the host block volume, clashing names; the embedding connection
     built from the grids' own block objects or ('embed-copied-ends') from deep copies / fresh same-named blocks.
"""
import sys, os, json, time, random, itertools, math, tempfile, shutil, io, contextlib
import warnings
warnings.filterwarnings('ignore')
if __name__ == '__main__' and os.environ.get('PYTHONHASHSEED') != '0':
    # the library iterates over sets of names (e.g. t2grid.check picks max(set(...))); pin the string hash so
    # that the output is a function of <tier> <seed> only
    os.environ['PYTHONHASHSEED'] = '0'
    os.execv(sys.executable, [sys.executable, '-W', 'ignore'] + sys.argv)
REPO = os.environ.get('PYTOUGH_REPO', '/repo')
sys.path.insert(0, REPO)
import numpy as np
from t2data import *      # t2data, t2grid, t2block, t2connection, rocktype, mulgrid

import signal


class HarnessTimeout(BaseException):
    pass


def _on_alarm(signum, frame):
    raise HarnessTimeout()


@contextlib.contextmanager
def time_limit(seconds):
    """A library call that does not return within `seconds` is a failure ('timeout ...')."""
    signal.signal(signal.SIGALRM, _on_alarm)
    signal.setitimer(signal.ITIMER_REAL, seconds)
    try:
        yield
    finally:
        signal.setitimer(signal.ITIMER_REAL, 0)


ROCKNAMES = ['dfalt', 'rock1', 'rock2']

# ----------------------------------------------------------------------------------------------
# physical signature


def fl(x):
    return x if x is None else float(x)


def fnum(x):
    if x is None:
        return None
    x = float(x)
    return 0.0 if x == 0.0 else x      # -0.0 == 0.0


def signature(g, f=None):
    """(blocks, pairs): blocks = {name: (volume, rock name, centre)}, pairs = {(lo, hi): [records]}.
    f, if given, maps the block names (used to push a 'before' signature through a rename)."""
    f = f or (lambda n: n)
    blocks = {}
    dup = []
    for b in g.blocklist:
        n = f(b.name)
        if n in blocks:
            dup.append(n)
        c = None if b.centre is None else tuple(fnum(x) for x in b.centre)
        blocks[n] = (fnum(b.volume), b.rocktype.name, c)
    pairs = {}
    for c in g.connectionlist:
        n0, n1 = f(c.block[0].name), f(c.block[1].name)
        dc = None if c.dircos is None else float(c.dircos)
        if dc is None or dc == 0.0:
            upper = None
        elif dc < 0:
            upper = n1
        else:
            upper = n0
        rec = {'area': fnum(c.area), 'direction': c.direction, 'distance': {}, 'nad': {}, 'upper': upper,
               'abs_dircos': None if dc is None else abs(dc), 'sigma': fnum(c.sigma)}
        if n0 == n1:
            rec['distance'] = {n0: tuple(sorted(fnum(d) for d in c.distance))}
            rec['nad'] = {n0: tuple(sorted([repr(c.nad1), repr(c.nad2)]))}
        else:
            rec['distance'] = {n0: fnum(c.distance[0]), n1: fnum(c.distance[1])}
            rec['nad'] = {n0: c.nad1 or None, n1: c.nad2 or None}
        pairs.setdefault(tuple(sorted((n0, n1))), []).append(rec)
    return blocks, pairs, dup


# tolerances after a write/read in the standard format: %10.4e volumes, distances, areas; %10.3e centres,
# %10.7f gravity cosine
FILE_TOL = {'volume': 6e-5, 'distance': 6e-5, 'area': 6e-5, 'centre': 6e-4, 'abs_dircos': 6e-8, 'sigma': 6e-4}


def close(a, b, field, tol):
    if a is None or b is None:
        return a is None and b is None
    if tol is None:
        return a == b
    if field == 'abs_dircos':
        return abs(a - b) <= tol[field]
    if field == 'centre':
        # fixed width: absolute resolution relative to the coordinate itself
        return abs(a - b) <= tol[field] * max(abs(a), abs(b)) + 1e-300
    return abs(a - b) <= tol[field] * max(abs(a), abs(b))


def compare(before, after, tol=None, ignore_volume_of=()):
    """Differences [(clause, detail)] between two signatures (before already renamed)."""
    out = []
    b0, p0, d0 = before
    b1, p1, d1 = after
    if d1:
        out.append(('block-duplicate-name', 'duplicate block names after: %r' % d1[:4]))
    if set(b0) != set(b1):
        out.append(('block-set', 'blocks lost %r, blocks appeared %r' % (sorted(set(b0) - set(b1))[:5], sorted(set(b1) - set(b0))[:5])))
    for n in b0:
        if n not in b1:
            continue
        (v0, r0, c0), (v1, r1, c1) = b0[n], b1[n]
        if n not in ignore_volume_of and not close(v0, v1, 'volume', tol):
            out.append(('volume', 'block %r volume %r -> %r' % (n, v0, v1)))
        if r0 != r1:
            out.append(('rocktype', 'block %r rock type %r -> %r' % (n, r0, r1)))
        if (c0 is None) != (c1 is None) or (c0 is not None and not all(close(x, y, 'centre', tol) for x, y in zip(c0, c1))):
            out.append(('centre', 'block %r centre %r -> %r' % (n, c0, c1)))
    if set(p0) != set(p1):
        out.append(('pair-set', 'connected pairs lost %r, appeared %r' % (sorted(set(p0) - set(p1))[:4], sorted(set(p1) - set(p0))[:4])))
    for key in p0:
        if key not in p1:
            continue
        l0, l1 = p0[key], p1[key]
        if len(l0) != len(l1):
            out.append(('pair-multiplicity', 'pair %r: %d connections -> %d' % (key, len(l0), len(l1))))
            continue
        if len(l0) > 1:
            l0 = sorted(l0, key=repr)
            l1 = sorted(l1, key=repr)
        for r0, r1 in zip(l0, l1):
            for fld in ('area', 'abs_dircos', 'sigma'):
                if not close(r0[fld], r1[fld], fld, tol):
                    out.append((fld.replace('abs_dircos', 'dircos-magnitude'), 'pair %r %s %r -> %r' % (key, fld, r0[fld], r1[fld])))
            if r0['direction'] != r1['direction']:
                out.append(('direction', 'pair %r permeability direction %r -> %r' % (key, r0['direction'], r1['direction'])))
            if r0['upper'] != r1['upper']:
                out.append(('upper-block', 'pair %r: upper block by sign of dircos %r -> %r' % (key, r0['upper'], r1['upper'])))
            for n in r0['distance']:
                d0_, d1_ = r0['distance'].get(n), r1['distance'].get(n)
                ok = (all(close(x, y, 'distance', tol) for x, y in zip(d0_, d1_)) if isinstance(d0_, tuple) and isinstance(d1_, tuple)
                      else close(d0_, d1_, 'distance', tol))
                if not ok:
                    out.append(('distance', "pair %r: block %r's own distance %r -> %r (whole record before %r, after %r)" %
                                (key, n, d0_, d1_, r0['distance'], r1['distance'])))
                if r0['nad'].get(n) != r1['nad'].get(n):
                    out.append(('nad', "pair %r: block %r's nad %r -> %r" % (key, n, r0['nad'].get(n), r1['nad'].get(n))))
    return out


def lookup_agreement(g):
    """by-name lookups agree with the lists (the part of C08's wf that the signature relies on)."""
    out = []
    if len(g.block) != len(g.blocklist):
        out.append(('lookup-block-count', 'len(block) %d != len(blocklist) %d' % (len(g.block), len(g.blocklist))))
    for b in g.blocklist:
        if g.block.get(b.name) is not b:
            out.append(('lookup-block', 'block[%r] is not the listed block' % b.name))
            break
    if len(g.connection) != len(g.connectionlist):
        out.append(('lookup-connection-count', 'len(connection) %d != len(connectionlist) %d' % (len(g.connection), len(g.connectionlist))))
    for c in g.connectionlist:
        key = (c.block[0].name, c.block[1].name)
        if g.connection.get(key) is not c:
            out.append(('lookup-connection', 'connection[%r] is not the listed connection' % (key,)))
            break
        for b in c.block:
            if g.block.get(b.name) is not b:
                out.append(('lookup-endpoint', 'connection %r: endpoint %r is not the block of that name in the grid' % (key, b.name)))
                return out
            if key not in b.connection_name:
                out.append(('lookup-connection_name', 'block %r does not record its connection %r' % (b.name, key)))
                return out
    return out

# ----------------------------------------------------------------------------------------------
# geometries and grids (descriptor -> objects), deterministic



def canon_geo(geo):
    """mulgrid.refine / from_gmsh / reduce go through sets of objects, so the ORDER and ORIENTATION of the
    geometry's column connections differ from run to run; re-add them sorted by name so that the harness
    output is a function of <tier> <seed> only."""
    cons = list(geo.connectionlist)
    pairs = sorted(tuple(sorted((c.column[0].name, c.column[1].name))) for c in cons)
    for c in cons:
        geo.delete_connection((c.column[0].name, c.column[1].name))
    for a, b in pairs:
        geo.add_connection(connection([geo.column[a], geo.column[b]]))
    geo.identify_neighbours()
    geo.setup_block_name_index()
    geo.setup_block_connection_name_index()
    return geo


def ordered_reduce(geo, keep):
    """mulgrid.reduce with a deterministic order of deletion."""
    keepnames = set(c.name for c in keep)
    for name in [c.name for c in geo.columnlist if c.name not in keepnames]:
        geo.delete_column(name)
    geo.check(fix=True, silent=True)
    geo.setup_block_name_index()
    geo.setup_block_connection_name_index()


_geocache = {}


def build_geometry(desc):
    kind = desc['kind']
    if kind == 'rect':
        geo = mulgrid().rectangular(desc['dx'], desc['dy'], desc['dz'], atmos_type=desc['atm'])
        if desc.get('surface'):
            for col, s in zip(geo.columnlist, itertools.cycle(desc['surface'])):
                col.surface = s
                geo.set_column_num_layers(col)
            geo.setup_block_name_index()
            geo.setup_block_connection_name_index()
        if desc.get('tilt'):
            geo.gdcx, geo.gdcy = desc['tilt']
        if desc.get('angle'):
            geo.rotate(desc['angle'], np.zeros(2))
            geo.permeability_angle = -desc['angle']
        if desc.get('refine'):
            geo.refine([geo.columnlist[i] for i in desc['refine']])
    elif kind == 'g7':
        geo = mulgrid(os.path.join(REPO, 'tests', 'mulgrid', 'g7.dat'))
        ordered_reduce(geo, geo.columnlist[desc['start']:desc['start'] + desc['count']])
        for lay in [l.name for l in geo.layerlist[1 + desc['layers']:]]:
            geo.delete_layer(lay)
        for col in geo.columnlist:
            geo.set_column_num_layers(col)
        geo.setup_block_name_index()
        geo.setup_block_connection_name_index()
        if 'atm' in desc:
            geo.atmosphere_type = desc['atm']
            geo.setup_block_name_index()
            geo.setup_block_connection_name_index()
    elif kind == 'gmsh':
        geo = mulgrid().from_gmsh(os.path.join(REPO, 'tests', 'mulgrid', 'gmsh2_2.msh'), desc['dz'], atmos_type=desc['atm'])
        ordered_reduce(geo, geo.columnlist[:desc['count']])
    elif kind == 'radial':
        geo = None
    else:
        raise ValueError(kind)
    return canon_geo(geo) if geo is not None else geo


def build_grid(desc):
    """A fresh decorated grid (and its geometry) for a descriptor."""
    key = json.dumps(desc, sort_keys=True)
    if key not in _geocache:
        if len(_geocache) > 40:
            _geocache.clear()
        _geocache[key] = build_geometry(desc)
    geo = _geocache[key]
    if desc['kind'] == 'radial':
        g = t2grid().radial(desc['dr'], desc['dz'], atmos_type=desc['atm'])
    else:
        g = t2grid().fromgeo(geo)
    for rn in ROCKNAMES[1:]:
        g.add_rocktype(rocktype(rn, permeability=[1e-14, 2e-14, 3e-15]))
    for i, b in enumerate(g.blocklist):
        b.rocktype = g.rocktypelist[(i * 7 + i // 3) % 3]
    for i, c in enumerate(g.connectionlist):
        if i % 2 == 0:
            c.nad1, c.nad2 = i % 7 + 1, (i * 3) % 11 + 20
        if not isinstance(c.distance, list):
            c.distance = list(c.distance)
    if desc.get('minc'):
        # a MINC grid as the starting point: nested connections have dircos None
        g.minc([0.1, 0.3, 0.6][:desc['minc']] if desc['minc'] == 3 else [0.2, 0.8], 40.)
    return g, geo


def tag(desc):
    k = desc['kind']
    if k == 'rect':
        t = 'rect%dx%dx%d-atm%d' % (len(desc['dx']), len(desc['dy']), len(desc['dz']), desc['atm'])
        for x in ('surface', 'tilt', 'angle', 'refine', 'minc'):
            if desc.get(x):
                t += '-' + x
        return t
    if k == 'g7':
        return 'g7[%d+%d]x%d%s' % (desc['start'], desc['count'], desc['layers'], '-atm%d' % desc['atm'] if 'atm' in desc else '')
    if k == 'gmsh':
        return 'gmsh%d-atm%d' % (desc['count'], desc['atm'])
    return 'radial%dx%d-atm%d' % (len(desc['dr']), len(desc['dz']), desc['atm'])

# ----------------------------------------------------------------------------------------------


class Stats(object):
    def __init__(self):
        self.evaluations = 0
        self.per_contract = {}
        self.fail = {}
        self.distinct = 0
        self.cpu = -time.process_time()

    def count(self, name, n=1):
        self.evaluations += n
        self.per_contract[name] = self.per_contract.get(name, 0) + n

    def failure(self, key, what, inp, size):
        old = self.fail.get(key)
        rank = (size, json.dumps(inp, sort_keys=True, default=str))     # smallest input, ties broken deterministically
        if old is None or old[0] > rank:
            self.fail[key] = (rank, {'key': key, 'what': what[:900], 'input': inp})

    def done(self):
        self.cpu += time.process_time()
        return self

    def merge(self, o):
        self.evaluations += o.evaluations
        self.distinct += o.distinct
        self.cpu += o.cpu
        for k, n in o.per_contract.items():
            self.per_contract[k] = self.per_contract.get(k, 0) + n
        for k, (s, f) in o.fail.items():
            if k not in self.fail or self.fail[k][0] > s:
                self.fail[k] = (s, f)


_dat = [None]
_tmpdir = [None]


def short(x, n=40):
    """JSON-able, truncated rendering of an op for `input`."""
    if isinstance(x, (list, tuple)):
        y = [short(e, n) for e in x[:n]]
        if len(x) > n:
            y.append('... %d more' % (len(x) - n))
        return y
    return x


def opkey(op, names, conns):
    """Compact, stable text of the concrete operation for the failure key."""
    k = op[0]
    if k == 'reorder':
        parts = []
        if op[1] is not None:
            idx = [names.index(n) for n in op[1]]
            parts.append('blocks=' + (','.join(map(str, idx)) if len(idx) <= 12 else 'perm#%08x' % (hash(tuple(idx)) & 0xffffffff)))
        if op[2] is not None:
            idx, rev = [], []
            for p in op[2]:
                p = tuple(p)
                if p in conns:
                    idx.append(conns.index(p))
                else:
                    idx.append(conns.index(p[::-1]))
                    rev.append(conns.index(p[::-1]))
            parts.append('conns=' + (','.join(map(str, idx)) if len(idx) <= 12 else 'perm#%08x' % (hash(tuple(idx)) & 0xffffffff)))
            parts.append('reversed=' + (','.join(map(str, sorted(rev))) if len(rev) <= 12 else '%d-of-%d' % (len(rev), len(idx))))
        return 'reorder(' + ' '.join(parts) + ')'
    if k == 'rename':
        m = op[1]
        txt = ','.join('%s>%s' % (a.replace(' ', '_'), b.replace(' ', '_')) for a, b in m[:8]) + ('...%d' % len(m) if len(m) > 8 else '')
        return 'rename[%s](%s)' % (op[2], txt)
    return k


class LazyKey(object):
    def __init__(self, *a):
        self.a, self.s = a, None

    def __str__(self):
        if self.s is None:
            self.s = opkey(*self.a)
        return self.s


def run_case(desc, ops, st, where):
    """Applies ops to a fresh grid of the geometry; evaluates the signature contract after every op."""
    g, geo = build_grid(desc)
    names0 = [b.name for b in g.blocklist]
    conns0 = [(c.block[0].name, c.block[1].name) for c in g.connectionlist]
    tol = None
    size = len(names0) * 1000 + sum(len(o[1]) if len(o) > 1 and o[1] is not None else 0 for o in ops) + 100000 * len(ops)
    inp = {'geometry': desc, 'ops': [short(list(o)) for o in ops], 'where': where}
    for iop, op in enumerate(ops):
        before = signature(g, None)
        cur_names = [b.name for b in g.blocklist]
        cur_conns = [(c.block[0].name, c.block[1].name) for c in g.connectionlist]
        k = op[0]
        cat = k if k != 'rename' else 'rename-' + op[2]
        okey = LazyKey(op, cur_names, cur_conns)
        try:
            with time_limit(120):
                if k == 'reorder':
                    g.reorder(list(op[1]) if op[1] is not None else None, [tuple(p) for p in op[2]] if op[2] is not None else None)
                elif k == 'reorder-geo':
                    g.reorder(geo=geo)
                elif k == 'rename':
                    m = dict(op[1])
                    if op[2] == 'grid':
                        g.rename_blocks(m)
                    else:
                        if _dat[0] is None:
                            _dat[0] = t2data()
                        _dat[0].grid = g
                        if op[2] == 'dat':
                            _dat[0].rename_blocks(m)
                        else:
                            _dat[0].rename_blocks(dict((v, k_) for k_, v in m.items()), invert=True)
                elif k == 'fileio':
                    dat = t2data()
                    dat.grid = g
                    path = os.path.join(_tmpdir[0], 'c09_%d.dat' % os.getpid())
                    dat.write(path)
                    g = t2data(path).grid
                    os.remove(path)
                    tol = FILE_TOL
        except HarnessTimeout:
            st.count(cat + '-signature')
            st.failure('timeout %s %s %s' % (cat, tag(desc), okey), 'the operation did not return within 120 s', inp, size)
            return
        except Exception as e:
            st.count(cat + '-signature')
            st.failure('%s:exception %s %s' % (cat, tag(desc), okey), 'raised %s: %s' % (type(e).__name__, e), inp, size)
            return
        if k == 'rename':
            m = dict(op[1])
            f = lambda n: m.get(n, n)
        else:
            f = None
        expected = signature_map(before, f) if f else before
        after = signature(g, None)
        st.count(cat + '-signature')
        diffs = compare(expected, after, tol if k == 'fileio' else None)
        st.count(cat + '-lookup')
        diffs += lookup_agreement(g)
        if k == 'reorder':
            st.count('reorder-order')
            if op[1] is not None and [b.name for b in g.blocklist] != list(op[1]):
                diffs.append(('block-order', 'block list order is not the requested one'))
            if op[2] is not None and [(c.block[0].name, c.block[1].name) for c in g.connectionlist] != [tuple(p) for p in op[2]]:
                diffs.append(('connection-order', 'connection list (names, orientation) is not the requested one'))
        elif k == 'reorder-geo':
            st.count('reorder-order')
            if [b.name for b in g.blocklist] != list(geo.block_name_list):
                diffs.append(('block-order', 'block list order is not that of the geometry'))
            if [(c.block[0].name, c.block[1].name) for c in g.connectionlist] != [tuple(p) for p in geo.block_connection_name_list]:
                diffs.append(('connection-order', 'connection list is not that of the geometry'))
        if diffs:
            seen = set()
            for clause, detail in diffs:
                if clause in seen:
                    continue
                seen.add(clause)
                st.failure('%s:%s %s %s' % (cat, clause, tag(desc), okey),
                           'after op %d %s: %s%s' % (iop, okey, detail, ' (+%d more differences)' % (len(diffs) - 1) if len(diffs) > 1 else ''),
                           inp, size + iop)
            return


def signature_map(sig, f):
    b, p, d = sig
    nb, dup = {}, []
    for n, v in b.items():
        if f(n) in nb:
            dup.append(f(n))
        nb[f(n)] = v
    np_ = {}
    for (a, c), recs in p.items():
        for r in recs:
            r2 = dict(r)
            r2['distance'] = dict((f(n), v) for n, v in r['distance'].items())
            r2['nad'] = dict((f(n), v) for n, v in r['nad'].items())
            r2['upper'] = f(r['upper']) if r['upper'] is not None else None
            np_.setdefault(tuple(sorted((f(a), f(c)))), []).append(r2)
    return nb, np_, dup

# ----------------------------------------------------------------------------------------------
# part A: exhaustive on small grids


def small_descs(tier):
    d = [
        {'kind': 'rect', 'dx': [10., 20.], 'dy': [30.], 'dz': [5.], 'atm': 0},                       # 3 blocks
        {'kind': 'rect', 'dx': [10., 20., 35.], 'dy': [30.], 'dz': [5.], 'atm': 2, 'tilt': [0.2, 0.1]},  # 3 blocks, tilted
        {'kind': 'rect', 'dx': [10.], 'dy': [30.], 'dz': [5., 7., 11.], 'atm': 0},                   # 4 blocks (column)
        {'kind': 'rect', 'dx': [10., 20.], 'dy': [30.], 'dz': [5.], 'atm': 1},                       # 4 blocks
        {'kind': 'rect', 'dx': [10., 20.], 'dy': [30., 15.], 'dz': [5.], 'atm': 2, 'tilt': [0.3, -0.2]},  # 4 blocks
        {'kind': 'rect', 'dx': [10., 20.], 'dy': [30.], 'dz': [5., 8.], 'atm': 0},                   # 5 blocks, 6 conns
        {'kind': 'g7', 'start': 0, 'count': 3, 'layers': 1},                                         # irregular columns, atm 1
        {'kind': 'rect', 'dx': [10., 20., 35.], 'dy': [30., 15.], 'dz': [5.], 'atm': 2, 'tilt': [0.1, 0.25]},  # 6 blocks, 7 conns
        {'kind': 'radial', 'dr': [1., 2., 4.], 'dz': [3.], 'atm': 0},                                # 4 blocks
    ]
    if tier == 'thorough':
        d += [{'kind': 'rect', 'dx': [10., 20.], 'dy': [30.], 'dz': [5., 8.], 'atm': 1},              # 6 blocks
              {'kind': 'g7', 'start': 40, 'count': 3, 'layers': 1, 'atm': 0},                         # 4 blocks irregular
              {'kind': 'rect', 'dx': [10., 20., 30.], 'dy': [30.], 'dz': [5., 8.], 'atm': 0, 'surface': [0., -6., -2.]},
              {'kind': 'g7', 'start': 10, 'count': 2, 'layers': 2}]
    return d


def small_tasks(tier, seed):
    """Yields (desc, [list of ops-lists]) chunks."""
    rnd = random.Random(seed)
    tasks = []
    for desc in small_descs(tier):
        g, geo = build_grid(desc)
        names = [b.name for b in g.blocklist]
        conns = [(c.block[0].name, c.block[1].name) for c in g.connectionlist]
        nb, nc = len(names), len(conns)
        cases = []
        maxb = 6 if tier == 'quick' else 7
        # every block permutation (alone, and each combined with one connection variant chosen round-robin)
        convariants = [None]
        if nb <= maxb:
            for i, p in enumerate(itertools.permutations(names)):
                cases.append([('reorder', list(p), None)])
        else:
            for i in range(400):
                p = list(names)
                rnd.shuffle(p)
                cases.append([('reorder', p, None)])
        # every connection permutation x every subset reversed
        full = 5 if tier == 'quick' else 6
        if nc <= full:
            for p in itertools.permutations(range(nc)):
                for mask in range(1 << nc):
                    cases.append([('reorder', None, [conns[i][::-1] if (mask >> i) & 1 else conns[i] for i in p])])
        else:
            perms = [list(range(nc)), list(range(nc))[::-1]] + [rnd.sample(range(nc), nc) for _ in range(2 if tier == 'quick' else 10)]
            for p in perms:
                for mask in range(1 << nc):
                    cases.append([('reorder', None, [conns[i][::-1] if (mask >> i) & 1 else conns[i] for i in p])])
            allp = list(itertools.permutations(range(nc))) if nc <= 7 else [rnd.sample(range(nc), nc) for _ in range(3000)]
            if tier == 'quick':
                allp = allp[seed % 7::7]
            for p in allp:
                for mask in ((1 << nc) - 1, rnd.randrange(1 << nc)):
                    cases.append([('reorder', None, [conns[i][::-1] if (mask >> i) & 1 else conns[i] for i in p])])
        # blocks and connections together (sampled)
        for i in range(60 if tier == 'quick' else 600):
            p = list(names)
            rnd.shuffle(p)
            q = rnd.sample(range(nc), nc)
            mask = rnd.randrange(1 << nc) if nc else 0
            cases.append([('reorder', p, [conns[j][::-1] if (mask >> j) & 1 else conns[j] for j in q])])
        if desc['kind'] != 'radial':
            cases.append([('reorder-geo',)])
        # every injective partial rename into names + 2 fresh names, not colliding with an unrenamed block
        fresh = ['zz  1', 'zy 12']
        maxr = 4 if tier == 'quick' else 5
        if nb <= maxr:
            cod = names + fresh
            for kk in range(1, nb + 1):
                for keys in itertools.combinations(names, kk):
                    for vals in itertools.permutations(cod, kk):
                        if any(v in names and v not in keys for v in vals):
                            continue
                        m = [(a, b) for a, b in zip(keys, vals)]
                        how = ('grid', 'dat', 'dat-invert')[len(cases) % 3] if kk > 1 else 'grid'
                        cases.append([('rename', m, how)])
                        if kk > 1 and how != 'grid' and all(a != b for a, b in m):
                            cases.append([('rename', m, 'grid')])
        else:
            for i in range(300 if tier == 'quick' else 3000):
                m = random_rename(rnd, names, fresh + ['zx  %d' % j for j in range(1, 6)])
                cases.append([('rename', m, rnd.choice(['grid', 'dat', 'dat-invert']))])
        for i in range(0, len(cases), 400):
            tasks.append(('A', desc, cases[i:i + 400]))
    return tasks


def random_rename(rnd, names, fresh):
    k = rnd.randint(1, min(len(names), rnd.choice([2, 3, 4, 8, 40, 400])))
    dom = rnd.sample(names, k)
    style = rnd.choice(['perm', 'rot', 'fresh', 'mixed', 'swap'])
    if style == 'perm':
        cod = list(dom)
        rnd.shuffle(cod)
    elif style == 'rot':
        cod = dom[1:] + dom[:1]
    elif style == 'swap':
        dom = dom[:2] if len(dom) >= 2 else dom
        cod = dom[::-1]
    elif style == 'fresh':
        dom = dom[:len(fresh)]
        cod = rnd.sample(fresh, len(dom))
    else:
        cod = dom[1:] + [rnd.choice(fresh)]
    return [(a, b) for a, b in zip(dom, cod)]

# ----------------------------------------------------------------------------------------------
# part B: random compositions on larger grids


def random_desc(rnd):
    kind = rnd.choice(['rect', 'rect', 'rect', 'rect', 'g7', 'gmsh', 'radial'])
    if kind == 'rect':
        while True:
            nx, ny, nz = rnd.randint(1, 8), rnd.randint(1, 6), rnd.randint(1, 6)
            if 2 <= nx * ny * (nz + 1) <= 300:
                break
        desc = {'kind': 'rect', 'dx': [10. + 3 * i for i in range(nx)], 'dy': [20. + 5 * (j % 2) for j in range(ny)],
                'dz': [5. + 2 * k for k in range(nz)], 'atm': rnd.choice([0, 1, 2])}
        extra = rnd.choice(['', '', 'surface', 'tilt', 'angle', 'tilt+surface'])   # (mulgrid.refine is run-dependent: not used)
        if 'surface' in extra and nz > 1:
            desc['surface'] = [rnd.choice([0., -3., -6., -8.]) for _ in range(5)]
        if 'tilt' in extra:
            desc['tilt'] = [rnd.choice([0.1, -0.2, 0.3]), rnd.choice([0.15, -0.1, 0.])]
        if extra == 'angle':
            desc['angle'] = rnd.choice([30., 45., 10.])
        if extra == 'refine' and nx * ny >= 4 and nx * ny * (nz + 1) <= 120:
            desc['refine'] = [0]
        if extra == '' and nx * ny * (nz + 1) <= 80 and rnd.random() < 0.5:
            desc['minc'] = rnd.choice([2, 3])
        return desc
    if kind == 'g7':
        count = rnd.randint(2, 30)
        return {'kind': 'g7', 'start': rnd.randint(0, 108 - count), 'count': count, 'layers': rnd.randint(1, 5)}
    if kind == 'gmsh':
        return {'kind': 'gmsh', 'count': rnd.randint(4, 96), 'dz': [2., 3.][:rnd.randint(1, 2)], 'atm': rnd.choice([0, 1, 2])}
    return {'kind': 'radial', 'dr': [1. + i for i in range(rnd.randint(1, 12))], 'dz': [2. + j for j in range(rnd.randint(1, 6))],
            'atm': rnd.choice([0, 1, 2])}


def random_case(rnd):
    desc = random_desc(rnd)
    g, geo = build_grid(desc)
    names = [b.name for b in g.blocklist]
    conns = [(c.block[0].name, c.block[1].name) for c in g.connectionlist]
    ops = []
    nfresh = [0]
    for step in range(rnd.randint(1, 4)):
        k = rnd.choice(['reorder', 'reorder', 'rename', 'rename', 'reorder-geo'])
        if k == 'reorder-geo':
            if geo is None or desc.get('minc') or any(o[0] == 'rename' for o in ops):
                continue
            ops.append(('reorder-geo',))
            names = list(geo.block_name_list)
            conns = [tuple(p) for p in geo.block_connection_name_list]
        elif k == 'reorder':
            bn = cn = None
            if rnd.random() < 0.7:
                bn = list(names)
                rnd.shuffle(bn)
            if (rnd.random() < 0.8 or bn is None) and conns:
                cn = list(conns)
                rnd.shuffle(cn)
                p = rnd.choice([0.02, 0.1, 0.5, 1.])
                cs = set(conns)
                cn = [c[::-1] if (rnd.random() < p and c[::-1] not in cs) else c for c in cn]
            if bn is None and cn is None:
                continue
            ops.append(('reorder', bn, cn))
            names = bn if bn is not None else names
            conns = cn if cn is not None else conns
        else:
            fresh = []
            while len(fresh) < 12:
                nfresh[0] += 1
                n = 'zz%3d' % nfresh[0]
                if n not in names:
                    fresh.append(n)
            m = random_rename(rnd, names, fresh)
            m = [(a, b) for a, b in m]
            ops.append(('rename', m, rnd.choice(['grid', 'grid', 'dat', 'dat-invert'])))
            mm = dict(m)
            names = [mm.get(n, n) for n in names]
            conns = [(mm.get(a, a), mm.get(b, b)) for a, b in conns]
    if not ops:
        ops.append(('reorder', names[::-1], None))
    if rnd.random() < 0.4:
        ops.append(('fileio',))
    return desc, ops

# ----------------------------------------------------------------------------------------------
# part C: MINC


def minc_matrix_name(name, level):
    s = str(level)
    return s + name[len(s):]


def custom_matrix_name(name, level):
    return 'abcdefg'[level] + name[1:]


def minc_case(rnd, i):
    nlev = 2 + i % 5
    style = rnd.choice(['normalised', 'weights', 'tiny-fracture', 'equal'])
    if style == 'normalised':
        w = [rnd.uniform(0.05, 1.) for _ in range(nlev)]
        s = sum(w)
        vf = [x / s for x in w]
    elif style == 'weights':
        vf = [float(rnd.randint(1, 40)) for _ in range(nlev)]
    elif style == 'tiny-fracture':
        vf = [rnd.choice([0.001, 0.01, 0.02])] + [rnd.uniform(0.1, 1.) for _ in range(nlev - 1)]
    else:
        vf = [1.] * nlev
    nfp = 1 + (i // 5) % 3
    sp = [1., 50., 1.e3][(i // 15) % 3]
    spacing = sp if rnd.random() < 0.6 else [sp * rnd.choice([1., 0.5, 2.]) for _ in range(rnd.randint(1, nfp))]
    while True:
        nx, ny, nz = rnd.randint(1, 5), rnd.randint(1, 4), rnd.randint(1, 4)
        if nx * ny * (nz + 1) <= 60:
            break
    desc = {'kind': 'rect', 'dx': [10. + 3 * k for k in range(nx)], 'dy': [20.] * ny, 'dz': [5. + k for k in range(nz)],
            'atm': rnd.choice([0, 1, 2])}
    if rnd.random() < 0.2:
        desc = {'kind': 'g7', 'start': rnd.randint(0, 90), 'count': rnd.randint(2, 8), 'layers': rnd.randint(1, 4)}
    sel = rnd.choice(['none', 'empty', 'partial', 'partial', 'objects', 'all-names'])
    return {'desc': desc, 'vf': vf, 'nfp': nfp, 'spacing': spacing, 'sel': sel, 'selseed': rnd.randrange(1 << 30),
            'custom': rnd.random() < 0.3, 'atmos_volume': rnd.choice([1.e25, 1.e25, 1.e25, 1.e20])}


def run_minc(case, st):
    desc = case['desc']
    g, geo = build_grid(desc)
    rnd = random.Random(case['selseed'])
    names = [b.name for b in g.blocklist]
    if case['sel'] == 'none':
        blocks, selnames = None, list(names)
    elif case['sel'] == 'empty':
        blocks, selnames = [], list(names)
    elif case['sel'] == 'all-names':
        blocks, selnames = list(names), list(names)
    else:
        selnames = rnd.sample(names, rnd.randint(1, len(names)))
        blocks = list(selnames) if case['sel'] == 'partial' else [g.block[n] for n in selnames]
    vf, nfp, spacing, av = case['vf'], case['nfp'], case['spacing'], case['atmos_volume']
    nlev = len(vf)
    S = math.fsum(vf)
    before = signature(g)
    nb0, nc0 = len(g.blocklist), len(g.connectionlist)
    conns0 = [(c.block[0].name, c.block[1].name) for c in g.connectionlist]
    vol0 = dict((b.name, float(b.volume)) for b in g.blocklist)
    rock0 = dict((b.name, b.rocktype.name) for b in g.blocklist)
    centre0 = dict((b.name, None if b.centre is None else tuple(b.centre)) for b in g.blocklist)
    mname = custom_matrix_name if case['custom'] else minc_matrix_name
    t = 'minc L%d nfp%d spacing=%r %s %s' % (nlev, nfp, spacing, case['sel'], tag(desc))
    inp = dict(case)
    inp['blocks'] = None if blocks is None else [n for n in selnames][:30]
    size = nb0 * 100 + nlev
    kw = dict(blocks=blocks, atmos_volume=av)
    if case['custom']:
        kw['matrix_blockname'] = custom_matrix_name
    st.count('minc-call')
    try:
        with contextlib.redirect_stdout(io.StringIO()), time_limit(60):
            bi = g.minc(list(vf), spacing, nfp, **kw)
    except HarnessTimeout:
        st.failure('timeout minc %s' % t, 'minc did not return within 60 s', inp, size)
        return
    except Exception as e:
        st.failure('minc:exception %s' % t, 'minc raised %s: %s' % (type(e).__name__, e), inp, size)
        return
    elig = [n for n in selnames if 0. < vol0[n] < av]
    # --- volumes: per original block, continua volumes in the requested fractions and summing to the original
    st.count('minc-volumes')
    for n in elig:
        V = vol0[n]
        vols = []
        for lev in range(nlev):
            bn = n if lev == 0 else mname(n, lev)
            b = g.block.get(bn)
            if b is None:
                st.failure('minc:missing-continuum %s' % t, 'block %r level %d (%r) does not exist' % (n, lev, bn), inp, size)
                return
            vols.append(float(b.volume))
            want = V * vf[lev] / S
            if abs(b.volume - want) > 1e-12 * V:
                st.failure('minc:fraction %s' % t, 'block %r level %d volume %r, requested fraction gives %r (original %r)' %
                           (n, lev, fl(b.volume), fl(want), V), inp, size)
            if lev > 0:
                c = None if b.centre is None else tuple(b.centre)
                if c != centre0[n]:
                    st.failure('minc:centre %s' % t, 'matrix block %r centre %r, original %r' % (bn, c, centre0[n]), inp, size)
                wantrock = 'X' + rock0[n][1:]
                if b.rocktype.name != wantrock or g.rocktype.get(wantrock) is not b.rocktype:
                    st.failure('minc:matrix-rocktype %s' % t, 'matrix block %r has rock type %r (registered: %s), expected %r' %
                               (bn, b.rocktype.name, b.rocktype.name in g.rocktype, wantrock), inp, size)
            elif b.rocktype.name != rock0[n]:
                st.failure('minc:fracture-rocktype %s' % t, 'fracture block %r rock type %r -> %r' % (n, rock0[n], b.rocktype.name), inp, size)
        if abs(math.fsum(vols) - V) > 1e-12 * V:
            st.failure('minc:volume-sum %s' % t, 'block %r: continua volumes %r sum to %r, original %r' % (n, vols, math.fsum(vols), V), inp, size)
    # --- chain: new connections are exactly level m-1 -> level m, fracture to innermost, per block in order
    st.count('minc-chain')
    newc = g.connectionlist[nc0:]
    got = [(c.block[0].name, c.block[1].name) for c in newc]
    want = []
    for n in elig:
        last = n
        for lev in range(1, nlev):
            want.append((last, mname(n, lev)))
            last = mname(n, lev)
    if got != want:
        st.failure('minc:chain %s' % t, 'new connections %r..., expected the chains %r...' %
                   ([x for x in got if x not in want][:4] or got[:4], [x for x in want if x not in got][:4] or want[:4]), inp, size)
    for c in newc:
        vals = list(c.distance) + [c.area]
        if not all(np.isfinite(v) for v in vals) or c.area <= 0. or min(c.distance) < 0. or c.distance[1] <= 0.:
            st.failure('minc:nested-geometry %s' % t, 'nested connection %r has distances %r area %r' %
                       ((c.block[0].name, c.block[1].name), c.distance, c.area), inp, size)
            break
    # --- frame: everything else keeps its physics (volumes of the split blocks excepted)
    st.count('minc-frame')
    after = signature(g)
    ab = dict((n, v) for n, v in after[0].items() if n in before[0])
    ap = dict((k, v) for k, v in after[1].items() if k in before[1] or not (set(k) - set(before[0])))
    diffs = compare(before, (ab, ap, after[2]), None, ignore_volume_of=set(elig))
    diffs += lookup_agreement(g)
    if len(g.blocklist) != nb0 + len(elig) * (nlev - 1):
        diffs.append(('block-count', '%d blocks after, expected %d + %d x %d' % (len(g.blocklist), nb0, len(elig), nlev - 1)))
    if [(c.block[0].name, c.block[1].name) for c in g.connectionlist[:nc0]] != conns0:
        diffs.append(('old-connections', 'the original connections are no longer the first %d of the list' % nc0))
    for clause, detail in diffs[:3]:
        st.failure('minc:frame-%s %s' % (clause, t), detail, inp, size)
    # --- returned block index array
    st.count('minc-blockindex')
    bi = np.array(bi)
    if bi.shape != (nlev, len(selnames)):
        st.failure('minc:blockindex-shape %s' % t, 'shape %r, expected %r' % (bi.shape, (nlev, len(selnames))), inp, size)
    else:
        for j, n in enumerate(selnames):
            if n not in elig:
                continue
            for lev in range(nlev):
                bn = n if lev == 0 else mname(n, lev)
                idx = int(bi[lev, j])
                if not (0 <= idx < len(g.blocklist)) or g.blocklist[idx].name != bn:
                    st.failure('minc:blockindex %s' % t, 'blockindex[%d, %d] = %d is block %r, expected %r' %
                               (lev, j, idx, g.blocklist[idx].name if 0 <= idx < len(g.blocklist) else None, bn), inp, size)
                    return

# ----------------------------------------------------------------------------------------------
# part D: embed


def embed_case(rnd, i):
    nx, ny, nz = rnd.randint(1, 4), rnd.randint(1, 3), rnd.randint(1, 3)
    desc = {'kind': 'rect', 'dx': [10. + 3 * k for k in range(nx)], 'dy': [20.] * ny, 'dz': [5. + k for k in range(nz)],
            'atm': rnd.choice([0, 1, 2])}
    sub = {'kind': rnd.choice(['rect', 'radial'])}
    if sub['kind'] == 'rect':
        sub.update(dx=[1.] * rnd.randint(1, 3), dy=[1.], dz=[1.] * rnd.randint(1, 2), atm=2)
    else:
        sub.update(dr=[0.5] * rnd.randint(1, 4), dz=[1.] * rnd.randint(1, 2), atm=2)
    return {'desc': desc, 'sub': sub, 'ratio': [0.25, 0.999999, 1.0, 1.000001, 3.0, 1e-6][i % 6], 'clash': i % 7 == 3,
            'hostseed': rnd.randrange(1 << 30),
            # ends of the embedding connection: the grids' own block objects, or same-named stand-ins
            'ends': ['own', 'deepcopy', 'fresh'][(i // 6) % 3]}


def run_embed(case, st):
    g, geo = build_grid(case['desc'])
    s, sgeo = build_grid(case['sub'])
    rnd = random.Random(case['hostseed'])
    # give the sub-grid its own names
    m = dict((b.name, 'q%s' % b.name[1:]) for b in s.blocklist)
    if len(set(m.values())) != len(m):
        m = dict((b.name, 'q%04d' % i) for i, b in enumerate(s.blocklist))
    # rename by hand (not with the code under test)
    for b in s.blocklist:
        b.name = m[b.name]
        b.connection_name = set((m[a], m[c]) for a, c in b.connection_name)
    s.block = dict((b.name, b) for b in s.blocklist)
    s.connection = dict(((c.block[0].name, c.block[1].name), c) for c in s.connectionlist)
    under = [b for b in g.blocklist if b.volume < 1e20]
    host = rnd.choice(under)
    if case['clash']:
        victim = rnd.choice(s.blocklist)
        other = rnd.choice([b for b in g.blocklist])
        old = victim.name
        del s.block[old]
        victim.name = other.name
        s.block[victim.name] = victim
        s.connection = dict(((c.block[0].name, c.block[1].name), c) for c in s.connectionlist)
        for b in s.blocklist:
            b.connection_name = set(k for k in s.connection if b.name in k)
    # scale the sub-grid volumes to the wanted ratio of the host volume
    tot = math.fsum(b.volume for b in s.blocklist)
    fac = case['ratio'] * host.volume / tot
    for b in s.blocklist:
        b.volume = b.volume * fac
    subvol = sum([b.volume for b in s.blocklist])      # as a user would compute it
    hostvol = float(host.volume)
    sig_g, sig_s = signature(g), signature(s)
    ends = [host, s.blocklist[0]]
    if case['ends'] == 'deepcopy':
        import copy
        ends = [copy.deepcopy(b) for b in ends]
    elif case['ends'] == 'fresh':
        ends = [t2block(b.name, b.volume, rocktype(b.rocktype.name)) for b in ends]
    con = t2connection(ends, 2, [1.25, 0.5], 3.5, 0.0)
    fam = 'embed' if case['ends'] == 'own' else 'embed-copied-ends'
    t = 'ratio=%r clash=%s ends=%s %s' % (case['ratio'], case['clash'], case['ends'], tag(case['desc']))
    inp = dict(case)
    inp['host'] = host.name
    size = len(g.blocklist)
    clash = bool(set(b.name for b in g.blocklist) & set(b.name for b in s.blocklist))
    expect_none = clash or subvol >= hostvol
    st.count('embed-none')
    try:
        with contextlib.redirect_stdout(io.StringIO()), time_limit(60):
            res = g.embed(s, con)
    except HarnessTimeout:
        st.failure('timeout %s %s' % (fam, t), 'embed did not return within 60 s', inp, size)
        return
    except Exception as e:
        st.failure('%s:exception %s' % (fam, t), 'embed raised %s: %s' % (type(e).__name__, e), inp, size)
        return
    if (res is None) != expect_none:
        st.failure('%s:none %s' % (fam, t), 'embed returned %s; sub-grid volume %r, host volume %r, name clash %s' %
                   ('None' if res is None else 'a grid', fl(subvol), hostvol, clash), inp, size)
        return
    if res is None:
        st.count('embed-frame')
        d = compare(sig_g, signature(g))
        for clause, detail in d[:2]:
            st.failure('%s:refused-but-changed-%s %s' % (fam, clause, t), detail, inp, size)
        return
    st.count('embed-volume')
    rb = dict((b.name, b) for b in res.blocklist)
    tot_after = math.fsum(b.volume for b in res.blocklist if b.volume < 1e20)
    tot_before = math.fsum(v[0] for n, v in sig_g[0].items() if v[0] < 1e20)
    if abs(tot_after - tot_before) > 1e-12 * tot_before:
        st.failure('%s:total-volume %s' % (fam, t), 'total volume %r before, %r after' % (tot_before, tot_after), inp, size)
    if abs(rb[host.name].volume - (hostvol - subvol)) > 1e-12 * hostvol:
        st.failure('%s:host-volume %s' % (fam, t), 'host volume %r -> %r, sub-grid volume %r' % (hostvol, fl(rb[host.name].volume), fl(subvol)), inp, size)
    st.count('embed-frame')
    # the union of both signatures, plus the embedding connection, host volume excepted
    eb = dict(sig_g[0])
    eb.update(sig_s[0])
    ep = dict(sig_g[1])
    ep.update(sig_s[1])
    key = tuple(sorted((host.name, s.blocklist[0].name)))
    ep[key] = [{'area': 3.5, 'direction': 2, 'distance': {host.name: 1.25, s.blocklist[0].name: 0.5},
                'nad': {host.name: None, s.blocklist[0].name: None}, 'upper': None, 'abs_dircos': 0.0, 'sigma': None}]
    d = compare((eb, ep, []), signature(res), None, ignore_volume_of=set([host.name]))
    d += lookup_agreement(res)
    for clause, detail in d[:3]:
        st.failure('%s:frame-%s %s' % (fam, clause, t), detail, inp, size)

# ----------------------------------------------------------------------------------------------


def worker(task):
    kind = task[0]
    st = Stats()
    sample = None
    if _tmpdir[0] is None or not os.path.isdir(_tmpdir[0]):
        _tmpdir[0] = task[-1]
    if kind == 'A':
        _, desc, cases, _tmp = task
        for ops in cases:
            run_case(desc, ops, st, 'A')
            st.distinct += 1
    elif kind == 'B':
        _, seed, n, _tmp = task
        rnd = random.Random(seed)
        for i in range(n):
            desc, ops = random_case(rnd)
            run_case(desc, ops, st, {'part': 'B', 'seed': seed, 'index': i})
            st.distinct += 1
            if sample is None:
                sample = {'part': 'B', 'geometry': tag(desc), 'ops': [o[0] + ('[%s]' % o[2] if o[0] == 'rename' else '') for o in ops]}
    elif kind == 'C':
        _, seed, n, _tmp = task
        rnd = random.Random(seed)
        for i in range(n):
            case = minc_case(rnd, i + seed)
            run_minc(case, st)
            st.distinct += 1
            if sample is None:
                sample = {'part': 'C', 'case': dict((k, v) for k, v in case.items() if k != 'desc'), 'geometry': tag(case['desc'])}
    elif kind == 'D':
        _, seed, n, _tmp = task
        rnd = random.Random(seed)
        for i in range(n):
            case = embed_case(rnd, i)
            run_embed(case, st)
            st.distinct += 1
            if sample is None:
                sample = {'part': 'D', 'ratio': case['ratio'], 'clash': case['clash'], 'ends': case['ends'], 'geometry': tag(case['desc'])}
    return st.done(), sample


def main():
    tier = sys.argv[1] if len(sys.argv) > 1 else 'quick'
    seed = int(sys.argv[2]) if len(sys.argv) > 2 else 0
    t0 = time.time()
    import multiprocessing as mp
    nproc = min(16, os.cpu_count() or 1)
    tmp = tempfile.mkdtemp(prefix='pytough-', dir=os.environ.get('PYTOUGH_SCRATCH', '/var/tmp'))
    total = Stats()
    total.cpu = 0.
    samples = []
    try:
        tasks = [t + (tmp,) for t in small_tasks(tier, seed)]
        nA = sum(len(t[2]) for t in tasks)
        nB, nC, nD = (1000, 900, 720) if tier == 'quick' else (40000, 30000, 12000)
        for kind, n, per in (('B', nB, 25), ('C', nC, 45), ('D', nD, 60)):
            for i in range(n // per):
                tasks.append((kind, seed * 1000003 + 7919 * i + ord(kind), per, tmp))
        random.Random(seed).shuffle(tasks)
        with mp.Pool(nproc) as pool:
            for st, sample in pool.imap_unordered(worker, tasks):
                total.merge(st)
                if sample:
                    samples.append(sample)
    finally:
        shutil.rmtree(tmp, ignore_errors=True)
    allf = [f for r, f in sorted(total.fail.values(), key=lambda x: (x[0][0], x[1]['key']))]
    bycat = {}
    for f in allf:
        bycat.setdefault(f['key'].split(' ')[0], []).append(f)
    out, rank = [], 0
    while len(out) < 60 and any(len(v) > rank for v in bycat.values()):
        for cat in sorted(bycat):
            if len(bycat[cat]) > rank and len(out) < 60:
                out.append(bycat[cat][rank])
        rank += 1
    samples.sort(key=lambda s: json.dumps(s, sort_keys=True, default=str))
    samples = [x for part in 'BCD' for x in [y for y in samples if y['part'] == part][:2]]
    samples.append({'exhaustive_small_cases': nA, 'random_compositions': nB, 'minc_cases': nC, 'embed_cases': nD,
                    'per_contract': dict(sorted(total.per_contract.items())), 'worker_cpu_seconds': round(total.cpu, 1),
                    'failure_categories': dict((c, len(v)) for c, v in sorted(bycat.items()))})
    print('@@JSON@@' + json.dumps({'evaluations': total.evaluations, 'distinct': total.distinct, 'failures': out,
                                   'nfailures': len(allf), 'samples': samples, 'seconds': round(time.time() - t0, 2)}, default=str))


if __name__ == '__main__':
    main()
