"""C08 bounded stand-in: the representation invariant wf(grid) of a TOUGH2 grid, evaluated on the
REAL t2grid code after EVERY operation of enumerated and random edit histories, plus the
per-operation effect contracts ("what was added is there, what was deleted is gone, renaming
loses no block").

usage: c08_gridedits.py <tier> <seed>

Parts
  A  exhaustive (up to view equivalence): breadth-first over every edit sequence of length <= 3
     (quick) / <= 4 (thorough) from three initial grids over the universe {4 block names, 2(+1) rock
     type names}; the alphabet at a state is gen_ops(view): add/delete block, connection, rocktype;
     rename_rocktype; clean_rocktypes; demote_block; every injective fixed-point-free partial name
     map on the present names into the universe that does not collide with an unrenamed block
     (swaps, 3-/4-cycles, chains), through t2grid.rename_blocks and through t2data.rename_blocks
     (also inverted); reorder with every block permutation / every connection permutation with any
     subset reversed; minc; `+`; embed (connection ends = the grids' own blocks, and 'copied-ends' =
     deep copies / fresh same-named placeholder blocks); check(fix=True).  Two histories reaching the same view
     (ordered lists of names, rock assignment, volumes) are expanded once.  Length 4 (thorough): all
     states reached from 'empty' and 'chain3', a seeded eighth of those reached from 'ring4'; at the
     last level of either tier rename_blocks is called through t2grid only (its t2data and fix_blocknames=False
     entry points are enumerated at the levels before).
  B  real replays without any cloning: every sequence of length <= 2 from the three initial grids,
     and random sequences of length <= 60 on the small universe.
  C  random sequences of length <= 60 on grids of <= 200 blocks built from geometries
     (rectangular all atmosphere types, uneven surface; irregular: shipped g7 (triangles and quadrilaterals) reduced, gmsh), incl. minc.

A sequence stops at the first step whose post-state is not well formed (requires wf(old)).
Failure key = "<op>-<situation>:<clause> <concrete op>", the situation being worked out by the
harness from the pre-state (e.g. add_block-replace-connected).  An embed whose connection ends are copies
is written embed-copied-ends(<operand>,<host>,<deepcopy|fresh>) in the <concrete op> part.
"""
import sys, os, json, time, random, itertools, copy, traceback
import warnings
warnings.filterwarnings('ignore')
if __name__ == '__main__' and os.environ.get('PYTHONHASHSEED') != '0':
    # the library iterates over sets of names (e.g. t2grid.check picks max(set(...))); pin the string hash so
    # that the output is a function of <tier> <seed> only
    os.environ['PYTHONHASHSEED'] = '0'
    os.execv(sys.executable, [sys.executable, '-W', 'ignore'] + sys.argv)
REPO = os.environ.get('PYTOUGH_REPO', '/repo')
sys.path.insert(0, REPO)
import io, contextlib
import numpy as np
from t2data import *          # t2data, t2grid, t2block, t2connection, rocktype, mulgrid

import signal


class HarnessTimeout(BaseException):
    pass


def _on_alarm(signum, frame):
    raise HarnessTimeout()


@contextlib.contextmanager
def time_limit(seconds):
    """A library call that does not return within `seconds` is a failure ('timeout ...')."""
    signal.signal(signal.SIGALRM, _on_alarm)
    signal.setitimer(signal.ITIMER_REAL, seconds)
    try:
        yield
    finally:
        signal.setitimer(signal.ITIMER_REAL, 0)


NAMES = ['  a 1', '  b 1', '  c 1', '  d 1']
ROCKS = ['rock1', 'rock2']
ROCK3 = 'rock3'
EXTRA = ['  x 1', '  y 1']          # names outside the universe, used by `+` and embed operands

# ----------------------------------------------------------------------------------------------
# the representation invariant (DESIGN.md section C08), plain Python, identity based


def wf(g):
    """Returns the list of violated clauses [(clause, detail)], empty iff the grid is well formed."""
    bad = []

    def v(clause, detail):
        bad.append((clause, detail))
    # rock types: list names distinct, dict keys == list names, dict[name] is the listed object
    rnames = [r.name for r in g.rocktypelist]
    if len(set(rnames)) != len(rnames):
        v('rocktype-dup-name', 'rocktypelist names %r' % (rnames,))
    if set(g.rocktype.keys()) != set(rnames):
        v('rocktype-dict-list', 'rocktype keys %r, rocktypelist names %r' % (sorted(g.rocktype.keys()), rnames))
    else:
        for r in g.rocktypelist:
            if g.rocktype[r.name] is not r:
                v('rocktype-dict-identity', 'rocktype[%r] is not the listed object' % r.name)
                break
    # blocks
    bnames = [b.name for b in g.blocklist]
    if len(set(bnames)) != len(bnames):
        v('block-dup-name', 'blocklist names %r' % (bnames[:12],))
    if len(g.block) != len(g.blocklist):
        v('block-count', 'len(block) = %d, len(blocklist) = %d' % (len(g.block), len(g.blocklist)))
    if set(g.block.keys()) != set(bnames):
        v('block-dict-list', 'block keys - list names = %r, list names - keys = %r' %
          (sorted(set(g.block.keys()) - set(bnames))[:6], sorted(set(bnames) - set(g.block.keys()))[:6]))
    else:
        for b in g.blocklist:
            if g.block[b.name] is not b:
                v('block-dict-identity', 'block[%r] is not the listed object' % b.name)
                break
    # connections
    keys = []
    listed = set()
    for c in g.connectionlist:
        listed.add(id(c))
        if len(c.block) != 2:
            v('conn-arity', 'connection with %d blocks' % len(c.block))
            continue
        key = (c.block[0].name, c.block[1].name)
        keys.append(key)
        for b in c.block:
            if g.block.get(b.name) is not b:
                v('conn-endpoint-not-in-grid', 'connection %r: endpoint %r is %s' %
                  (key, b.name, 'a different object from block[name]' if b.name in g.block else 'not a block name of the grid'))
        if g.connection.get(key) is not c:
            v('conn-not-under-current-names', 'connection joining %r is %s' %
              (key, 'not the object stored under that key' if key in g.connection else 'not found under that key'))
    if len(set(keys)) != len(keys):
        v('conn-dup-name', 'two listed connections have the same ordered name pair')
    if set(g.connection.keys()) != set(keys):
        v('conn-dict-list', 'connection keys - listed = %r, listed - keys = %r' %
          (sorted(set(g.connection.keys()) - set(keys))[:4], sorted(set(keys) - set(g.connection.keys()))[:4]))
    for key, c in g.connection.items():
        if id(c) not in listed:
            v('conn-dict-not-listed', 'connection[%r] is not in connectionlist' % (key,))
            break
    # back references and rock types of the blocks
    mention = {}
    for key in g.connection.keys():
        for n in set(key):
            mention.setdefault(n, set()).add(key)
    blocks = list(g.blocklist) + list(g.block.values())
    seen = set()
    for b in blocks:
        if id(b) in seen:
            continue
        seen.add(id(b))
        expect = mention.get(b.name, set())
        if b.connection_name != expect:
            v('block-connection_name', 'block %r: connection_name %r, connections mentioning it %r' %
              (b.name, sorted(b.connection_name)[:4], sorted(expect)[:4]))
        reg = g.rocktype.get(b.rocktype.name)
        if reg is None:
            v('block-rocktype-unregistered', 'block %r has rock type %r, registered: %r' %
              (b.name, b.rocktype.name, sorted(g.rocktype.keys())))
        elif reg is not b.rocktype:
            v('block-rocktype-stale', 'block %r holds a rock type object named %r that is not the registered one' %
              (b.name, b.rocktype.name))
    return bad


def view(g):
    """Abstract value of a grid: ordered names only (plus volumes, on which embed/minc branch)."""
    return (tuple(r.name for r in g.rocktypelist),
            tuple((b.name, b.rocktype.name, round(float(b.volume), 6)) for b in g.blocklist),
            tuple((c.block[0].name, c.block[1].name) for c in g.connectionlist))


def _shallow(o):
    n = object.__new__(o.__class__)
    n.__dict__.update(o.__dict__)
    return n


def clone(g):
    """Copy of a WELL-FORMED grid preserving the object graph (used to branch in part A)."""
    h = t2grid()
    rmap, bmap = {}, {}
    for r in g.rocktypelist:
        r2 = _shallow(r)
        rmap[id(r)] = r2
        h.rocktypelist.append(r2)
        h.rocktype[r2.name] = r2
    for b in g.blocklist:
        b2 = _shallow(b)
        b2.connection_name = set(b.connection_name)
        b2.rocktype = rmap[id(b.rocktype)]
        bmap[id(b)] = b2
        h.blocklist.append(b2)
        h.block[b2.name] = b2
    for c in g.connectionlist:
        c2 = _shallow(c)
        c2.block = [bmap[id(b)] for b in c.block]
        c2.distance = list(c.distance)
        h.connectionlist.append(c2)
        h.connection[(c2.block[0].name, c2.block[1].name)] = c2
    return h

# ----------------------------------------------------------------------------------------------
# initial grids and operand grids (built WITHOUT the library's add_* methods)


def raw_grid(rocks, blocks, conns):
    g = t2grid()
    for rn in rocks:
        r = rocktype(rn)
        g.rocktypelist.append(r)
        g.rocktype[rn] = r
    for (n, rn, vol) in blocks:
        b = t2block(n, vol, g.rocktype[rn], centre=np.array([float(len(g.blocklist)), 0., -1.]))
        g.blocklist.append(b)
        g.block[n] = b
    for (a, b) in conns:
        c = t2connection([g.block[a], g.block[b]], 1, [1.5, 2.5], 3.0, 0.0)
        g.connectionlist.append(c)
        g.connection[(a, b)] = c
        g.block[a].connection_name.add((a, b))
        g.block[b].connection_name.add((a, b))
    return g


A_, B_, C_, D_ = NAMES
INITIAL = {
    'empty': ((), (), ()),
    'chain3': (('rock1', 'rock2'), ((A_, 'rock1', 100.), (B_, 'rock1', 200.), (C_, 'rock2', 300.)),
               ((A_, B_), (B_, C_))),
    'ring4': (('rock1', 'rock2'), ((A_, 'rock1', 100.), (B_, 'rock1', 200.), (C_, 'rock1', 300.), (D_, 'rock1', 400.)),
              ((A_, B_), (B_, C_), (C_, D_), (D_, A_))),
}
OPERAND = {
    'c': (('rock2',), ((C_, 'rock2', 1.),), ()),
    'cd': (('rock1',), ((C_, 'rock1', 1.), (D_, 'rock1', 2.)), ((C_, D_),)),
    'xy': (('rock3',), ((EXTRA[0], 'rock3', 1.), (EXTRA[1], 'rock3', 2.)), ((EXTRA[0], EXTRA[1]),)),
    'xyr1': (('rock1',), ((EXTRA[0], 'rock1', 1.), (EXTRA[1], 'rock1', 2.)), ((EXTRA[0], EXTRA[1]),)),
    'xybig': (('rock3',), ((EXTRA[0], 'rock3', 1.e3), (EXTRA[1], 'rock3', 2.e3)), ((EXTRA[0], EXTRA[1]),)),
}
MINC = {'m2': ((0.1, 0.9), 50., 1), 'm3': ((0.2, 0.3, 0.5), 30., 2), 'm4': ((1., 2., 3., 4.), 50., 3)}
ATMOS_VOLUME = 1.e25

# ----------------------------------------------------------------------------------------------
# operations: descriptor -> call on the real grid.  Every descriptor is JSON-able.

_dat = None


def apply_op(g, op):
    """Performs op on g with fresh argument objects; returns the grid to continue with."""
    global _dat
    k = op[0]
    if k == 'add_rocktype':
        g.add_rocktype(rocktype(op[1]))
    elif k == 'delete_rocktype':
        g.delete_rocktype(op[1])
    elif k == 'rename_rocktype':
        g.rename_rocktype(op[1], op[2])
    elif k == 'clean_rocktypes':
        g.clean_rocktypes()
    elif k == 'add_block':
        g.add_block(t2block(op[1], 50., g.rocktype[op[2]], centre=np.array([9., 9., -9.])))
    elif k == 'delete_block':
        g.delete_block(op[1])
    elif k == 'demote_block':
        g.demote_block(op[1] if isinstance(op[1], str) else list(op[1]))
    elif k == 'add_connection':
        g.add_connection(t2connection([g.block[op[1]], g.block[op[2]]], 2, [0.5, 0.25], 7.0, 0.0))
    elif k == 'delete_connection':
        g.delete_connection((op[1], op[2]))
    elif k == 'rename_blocks':
        m = dict(op[1])
        how = op[2]
        if how == 'grid':
            g.rename_blocks(m)
        elif how == 'grid-nofix':
            g.rename_blocks(m, fix_blocknames=False)
        else:
            if _dat is None:
                _dat = t2data()
            _dat.grid = g
            if how == 'dat':
                _dat.rename_blocks(m)
            else:   # 'dat-invert': pass the inverse map and ask for inversion
                _dat.rename_blocks(dict((v, k_) for k_, v in m.items()), invert=True)
    elif k == 'reorder':
        g.reorder(list(op[1]) if op[1] is not None else None,
                  [tuple(p) for p in op[2]] if op[2] is not None else None)
    elif k == 'minc':
        vf, spacing, nfp = MINC[op[1]]
        with contextlib.redirect_stdout(io.StringIO()):
            g.minc(list(vf), spacing, nfp, blocks=(list(op[2]) if op[2] is not None else None))
    elif k == 'add':
        g = g + raw_grid(*OPERAND[op[1]])
    elif k == 'embed':
        sub = raw_grid(*OPERAND[op[1]])
        ends = [g.block[op[2]], sub.blocklist[0]]
        if len(op) > 3:
            # 'copied-ends': the connection is given blocks that only have the right NAMES (and volumes) but are
            # not the grids' own objects - deep copies, or fresh placeholder blocks
            if op[3] == 'copied-ends:deepcopy':
                ends = [copy.deepcopy(b) for b in ends]
            else:
                ends = [t2block(b.name, b.volume, rocktype(b.rocktype.name)) for b in ends]
        con = t2connection(ends, 1, [1., 1.], 1., 0.)
        with contextlib.redirect_stdout(io.StringIO()):
            res = g.embed(sub, con)
        return res        # may be None
    elif k == 'check_fix':
        g.check(fix=True, silent=True)
    else:
        raise ValueError('unknown op %r' % (op,))
    return g

# ----------------------------------------------------------------------------------------------
# the harness's own model of each operation on the abstract view (independent of the library):
# situation = class of the pre-state, expect = what the statement / docstring lets us demand.


def matrix_name(name, level):
    s = str(level)
    return s + name[len(s):]


def cycles_of(m, present):
    """Classifies a name map restricted to the present names."""
    mm = dict((k, v) for k, v in m.items() if k in present)
    if not mm:
        return 'noop'
    if any(k == v for k, v in mm.items()):
        return 'identity'
    longest = 0
    chain = False
    for k in mm:
        n, x = 0, k
        while x in mm and n <= len(mm):
            x = mm[x]
            n += 1
            if x == k:
                longest = max(longest, n)
                break
        if mm[k] in mm:
            chain = True
    if longest == 2:
        return 'swap'
    if longest > 2:
        return 'cycle'
    return 'chain' if chain else 'fresh'


class Expect(object):
    """What must hold after the op.  Multisets (sorted lists) unless `ordered`."""
    def __init__(self, situation, raises=False, rocks=None, blocks=None, conns=None, ordered=False,
                 brock=None, result_none=False, unchanged=False):
        self.situation, self.raises = situation, raises          # raises: True / False / None (either)
        self.rocks, self.blocks, self.conns = rocks, blocks, conns   # names; None = not specified
        self.ordered, self.brock, self.result_none, self.unchanged = ordered, brock, result_none, unchanged


def model(vw, op):
    R, Bfull, C = vw
    R, C = list(R), list(C)
    B = [b[0] for b in Bfull]
    rock_of = dict((b[0], b[1]) for b in Bfull)
    vol_of = dict((b[0], b[2]) for b in Bfull)
    k = op[0]
    if k == 'add_rocktype':
        r = op[1]
        used = r in rock_of.values()
        sit = 'new' if r not in R else ('replace-used' if used else 'replace-unused')
        return Expect(sit, rocks=R + ([r] if r not in R else []), blocks=B, conns=C, brock=rock_of)
    if k == 'delete_rocktype':
        r = op[1]
        sit = 'absent' if r not in R else ('used' if r in rock_of.values() else 'unused')
        return Expect(sit, rocks=[x for x in R if x != r], blocks=B, conns=C, brock=rock_of)
    if k == 'rename_rocktype':
        r, r2 = op[1], op[2]
        if r not in R:
            return Expect('absent', raises=True, unchanged=True)
        if r2 in R:
            return Expect('clash', raises=True, unchanged=True)
        return Expect('ok', rocks=[r2 if x == r else x for x in R], blocks=B, conns=C,
                      brock=dict((n, r2 if x == r else x) for n, x in rock_of.items()), ordered=True)
    if k == 'clean_rocktypes':
        used = set(rock_of.values())
        return Expect('some-unused' if any(x not in used for x in R) else 'all-used',
                      rocks=[x for x in R if x in used], blocks=B, conns=C, brock=rock_of, ordered=True)
    if k == 'add_block':
        n, r = op[1], op[2]
        if n not in B:
            sit = 'new'
        else:
            sit = 'replace-connected' if any(n in c for c in C) else 'replace-unconnected'
        br = dict(rock_of)
        br[n] = r
        return Expect(sit, rocks=R, blocks=B + ([n] if n not in B else []), conns=C, brock=br)
    if k == 'delete_block':
        n = op[1]
        sit = 'absent' if n not in B else ('connected' if any(n in c for c in C) else 'unconnected')
        br = dict(rock_of)
        br.pop(n, None)
        return Expect(sit, rocks=R, blocks=[x for x in B if x != n], conns=[c for c in C if n not in c],
                      brock=br, ordered=True)
    if k == 'demote_block':
        names = [op[1]] if isinstance(op[1], str) else list(op[1])
        if any(n not in B for n in names):
            return Expect('absent', raises=None)
        rest = [x for x in B if x not in names]
        return Expect('single' if len(names) == 1 else 'list', rocks=R, blocks=rest + names, conns=C,
                      brock=rock_of, ordered=True)
    if k == 'add_connection':
        key = (op[1], op[2])
        sit = 'replace' if key in C else ('reverse-exists' if key[::-1] in C else 'new')
        return Expect(sit, rocks=R, blocks=B, conns=C + ([key] if key not in C else []), brock=rock_of)
    if k == 'delete_connection':
        key = (op[1], op[2])
        sit = 'present' if key in C else ('reverse-only' if key[::-1] in C else 'absent')
        return Expect(sit, rocks=R, blocks=B, conns=[c for c in C if c != key], brock=rock_of, ordered=True)
    if k == 'rename_blocks':
        m = dict(op[1])
        f = lambda n: m.get(n, n)
        sit = cycles_of(m, set(B)) + ('' if op[2] == 'grid' else '-' + op[2])
        return Expect(sit, rocks=R, blocks=[f(n) for n in B], conns=[(f(a), f(b)) for a, b in C],
                      brock=dict((f(n), x) for n, x in rock_of.items()), ordered=True)
    if k == 'reorder':
        bn, cn = op[1], op[2]
        rev = cn is not None and any(tuple(p) not in C for p in cn)
        sit = '+'.join(x for x, on in (('blocks', bn is not None), ('connections', cn is not None), ('reversed', rev)) if on) or 'nothing'
        return Expect(sit, rocks=R, blocks=list(bn) if bn is not None else B,
                      conns=[tuple(p) for p in cn] if cn is not None else C, brock=rock_of, ordered=True)
    if k == 'minc':
        vf, spacing, nfp = MINC[op[1]]
        sel = list(op[2]) if op[2] is not None else list(B)
        elig = [n for n in sel if 0. < vol_of[n] < ATMOS_VOLUME]
        newb, newc, newr = [], [], []
        br = dict(rock_of)
        for n in elig:
            last = n
            xr = 'X' + rock_of[n][1:]
            for lev in range(1, len(vf)):
                mn = matrix_name(n, lev)
                newb.append(mn)
                br[mn] = xr
                newc.append((last, mn))
                last = mn
            if xr not in R and xr not in newr:
                newr.append(xr)
        if len(set(newb)) != len(newb) or any(x in B for x in newb):
            return Expect('dup-matrix-name', raises=True)
        return Expect(('all' if op[2] is None else 'partial'), rocks=R + newr, blocks=B + newb, conns=C + newc,
                      brock=br, ordered=True)
    if k == 'add':
        oR, oB, oC = OPERAND[op[1]]
        ob = [b[0] for b in oB]
        sit = 'disjoint'
        if any(r in R for r in oR):
            sit = 'overlap-rocks' if any(x in oR for x in rock_of.values()) else 'overlap-unused-rocks'
        if any(n in B for n in ob):
            sit = 'overlap-blocks'
        br = dict(rock_of)
        br.update(dict((b[0], b[1]) for b in oB))
        return Expect(sit, rocks=R + [r for r in oR if r not in R], blocks=B + [n for n in ob if n not in B],
                      conns=C + [c for c in oC if c not in C], brock=br)
    if k == 'embed':
        oR, oB, oC = OPERAND[op[1]]
        ob = [b[0] for b in oB]
        host = op[2]
        subvol = sum(b[2] for b in oB)
        if any(n in B for n in ob):
            return Expect('clash', result_none=True)
        if subvol >= vol_of[host]:
            return Expect('too-big', result_none=True)
        br = dict(rock_of)
        br.update(dict((b[0], b[1]) for b in oB))
        sit = 'ok' if not any(r in R for r in oR) else ('ok-overlap-rocks' if any(x in oR for x in rock_of.values()) else 'ok-overlap-unused-rocks')
        return Expect(sit, rocks=R + [r for r in oR if r not in R], blocks=B + ob,
                      conns=C + list(oC) + [(host, ob[0])], brock=br)
    if k == 'check_fix':
        unconnected = [n for n in B if not any(n in c for c in C)]
        return Expect('unconnected' if unconnected else 'connected', raises=None)
    raise ValueError(op)


def opstr(op):
    def s(x):
        if isinstance(x, (tuple, list)):
            return '[' + ','.join(s(y) for y in x) + ']'
        return str(x).replace(' ', '_') if isinstance(x, str) else repr(x)
    if op[0] == 'embed' and len(op) > 3:
        op = ('embed-copied-ends', op[1], op[2], op[3].split(':')[1])
    txt = op[0] + '(' + ','.join(s(x) for x in op[1:]) + ')'
    if len(txt) > 150:     # large random operands: keep the key / message short but still specific
        import hashlib
        txt = txt[:110] + '...#' + hashlib.md5(txt.encode()).hexdigest()[:10] + ')'
    return txt


def jsonable(x, n=24):
    """Operation descriptor for `input`; very long operand lists (random part C) are truncated, the
    case is regenerated from input['initial'] = {geometry, seed, index}."""
    if isinstance(x, (list, tuple)):
        y = [jsonable(e, n) for e in x[:n]]
        if len(x) > n:
            y.append('... %d more' % (len(x) - n))
        return y
    return x


class Stats(object):
    def __init__(self):
        self.evaluations = 0
        self.per_contract = {}
        self.fail = {}       # key -> (len(history), failure dict)
        self.nsteps = 0
        self.cpu = -time.process_time()     # worker CPU seconds (closed by done())

    def count(self, name, n=1):
        self.evaluations += n
        self.per_contract[name] = self.per_contract.get(name, 0) + n

    def failure(self, key, what, history, init):
        inp = {'initial': init, 'history': [jsonable(o) for o in history]}
        old = self.fail.get(key)
        rank = (len(history), repr(init), repr(history))       # shortest history, ties broken deterministically
        if old is None or old[0] > rank:
            self.fail[key] = (rank, {'key': key, 'what': what, 'input': inp})

    def done(self):
        self.cpu += time.process_time()
        return self

    def merge(self, other):
        self.evaluations += other.evaluations
        self.cpu += other.cpu
        self.nsteps += other.nsteps
        for k, n in other.per_contract.items():
            self.per_contract[k] = self.per_contract.get(k, 0) + n
        for k, (l, f) in other.fail.items():
            if k not in self.fail or self.fail[k][0] > l:
                self.fail[k] = (l, f)


def contract_step(g, op, history, init, st, vw=None):
    """Evaluates one operation on the real grid g: the op's effect contracts and wf(post).
    Returns (grid to continue with or None to stop, post view or None)."""
    if vw is None:
        vw = view(g)
    ex = model(vw, op)
    cat = '%s-%s' % (op[0], ex.situation)      # (an embed with copied ends is tagged in the op part of the key: embed-copied-ends(...))
    hist = list(history) + [op]
    st.nsteps += 1
    raised = None
    try:
        with time_limit(30 if len(vw[1]) < 50 else 120):
            g2 = apply_op(g, op)
    except HarnessTimeout:
        st.count('raises')
        st.failure('timeout %s %s' % (cat, opstr(op)), 'the operation did not return within the time limit; pre-state %r' % (vw,), hist, init)
        return None, None
    except Exception as e:      # noqa
        raised = e
        g2 = g
    # contract: raises exactly when specified
    st.count('raises')
    if raised is not None and ex.raises is False:
        st.failure('%s:exception %s' % (cat, opstr(op)), 'raised %s: %s although the operation is applicable; pre-state %r' %
                   (type(raised).__name__, raised, vw), hist, init)
    if raised is None and ex.raises is True:
        st.failure('%s:no-exception %s' % (cat, opstr(op)), 'no exception raised; pre-state %r' % (vw,), hist, init)
    if op[0] == 'embed' and raised is None:
        st.count('embed-none')
        if (g2 is None) != bool(ex.result_none):
            st.failure('%s:result-none %s' % (cat, opstr(op)), 'embed returned %s, expected %s' %
                       ('None' if g2 is None else 'a grid', 'None' if ex.result_none else 'a grid'), hist, init)
            return None, None
        if g2 is None:
            g2 = g      # the host grid must be untouched
            ex.unchanged = True
    # contract: wf(post)
    st.count('wf')
    bad = wf(g2)
    if bad:
        clause = bad[0][0]
        st.failure('%s:%s %s' % (cat, clause, opstr(op)),
                   'after %s%s the grid is not well formed: %s' %
                   (opstr(op), ' (which raised %s)' % type(raised).__name__ if raised is not None else '',
                    '; '.join('%s: %s' % b for b in bad[:4])), hist, init)
        return None, None
    post = view(g2)
    # contract: effect
    if raised is not None:
        if ex.unchanged:
            st.count('effect')
            if post != vw:
                st.failure('%s:changed-although-raised %s' % (cat, opstr(op)), 'view before %r, after %r' % (vw, post), hist, init)
        return g2, post
    if ex.unchanged:
        st.count('effect')
        if post != vw:
            st.failure('%s:changed %s' % (cat, opstr(op)), 'view before %r, after %r' % (vw, post), hist, init)
        return g2, post
    if ex.blocks is not None:
        st.count('effect')
        gotR, gotB, gotC = list(post[0]), [b[0] for b in post[1]], list(post[2])
        gotrock = dict((b[0], b[1]) for b in post[1])
        o = (lambda x: x) if ex.ordered else sorted
        if op[0] == 'rename_blocks':
            st.count('rename-loses-no-block')
            if len(g2.block) != len(g2.blocklist) or sorted(gotB) != sorted(ex.blocks) or sorted(g2.block.keys()) != sorted(ex.blocks):
                st.failure('%s:lost-block %s' % (cat, opstr(op)), 'block names after renaming: list %r, lookup keys %r, expected the mapped names %r' %
                           (gotB, sorted(g2.block.keys()), ex.blocks), hist, init)
                return g2, post
        for what, got, want in (('rocktypes', gotR, ex.rocks), ('blocks', gotB, ex.blocks), ('connections', gotC, ex.conns)):
            if o(got) != o(want):
                st.failure('%s:effect-%s %s' % (cat, what, opstr(op)), '%s after the operation %r, expected %r (%s); pre-state %r' %
                           (what, got, want, 'in this order' if ex.ordered else 'in any order', vw), hist, init)
        if ex.brock is not None and gotrock != ex.brock and sorted(gotB) == sorted(ex.blocks):
            st.failure('%s:effect-rock-assignment %s' % (cat, opstr(op)), 'rock type of blocks %r, expected %r' % (gotrock, ex.brock), hist, init)
    return g2, post

# ----------------------------------------------------------------------------------------------
# part A: alphabet at a state


def partial_injections(dom, cod):
    """All injective maps from subsets of dom into cod without fixed points (excluding the empty map)."""
    out = []
    for k in range(1, len(dom) + 1):
        for keys in itertools.combinations(dom, k):
            for vals in itertools.permutations(cod, k):
                if all(a != b for a, b in zip(keys, vals)):
                    out.append(tuple(zip(keys, vals)))
    return out


def some_perms(seq):
    seq = list(seq)
    n = len(seq)
    if n <= 1:
        return []
    if n <= 4:
        return [list(p) for p in itertools.permutations(seq)][1:]
    out = [seq[::-1], seq[1:] + seq[:1], [seq[1], seq[0]] + seq[2:], seq[:-2] + [seq[-1], seq[-2]], seq[::2] + seq[1::2]]
    return out


def gen_ops(vw, variants=True):
    R, Bfull, C = vw
    B = [b[0] for b in Bfull]
    present = [n for n in NAMES if n in B]
    ops = []
    for r in ROCKS:
        ops.append(('add_rocktype', r))
        ops.append(('delete_rocktype', r))
    for r, r2 in (('rock1', 'rock2'), ('rock2', 'rock1'), ('rock1', ROCK3), ('rock2', ROCK3), (ROCK3, 'rock1'), ('rock1', 'rock1')):
        ops.append(('rename_rocktype', r, r2))
    ops.append(('clean_rocktypes',))
    for n in NAMES:
        for r in R:
            if r in ROCKS or r == ROCK3:
                ops.append(('add_block', n, r))
        ops.append(('delete_block', n))
        ops.append(('demote_block', n))
    for a, b in itertools.permutations(present, 2):
        ops.append(('demote_block', (a, b)))
        ops.append(('add_connection', a, b))
    if len(B) > 2:
        ops.append(('demote_block', tuple(B[::-1])))
    for a, b in itertools.permutations(NAMES, 2):
        if (a, b) in C or (b, a) in C or (a, b) == (NAMES[0], NAMES[3]):
            ops.append(('delete_connection', a, b))
    # every injective partial map on the present names not colliding with an unrenamed block
    for m in partial_injections(present, NAMES):
        keys = set(k for k, v in m)
        if any(v in B and v not in keys for k, v in m):
            continue
        ops.append(('rename_blocks', m, 'grid'))
        cyc = cycles_of(dict(m), set(B))
        if variants and cyc in ('swap', 'cycle', 'chain'):
            ops.append(('rename_blocks', m, 'dat'))
            ops.append(('rename_blocks', m, 'dat-invert'))
            if cyc != 'chain':
                ops.append(('rename_blocks', m, 'grid-nofix'))
    # maps mentioning an absent name, an identity entry
    absent = [n for n in NAMES if n not in B]
    if absent and present:
        ops.append(('rename_blocks', ((absent[0], present[0]),), 'grid'))
        ops.append(('rename_blocks', ((absent[0], present[0]), (present[0], absent[0])), 'grid'))
    if present:
        ops.append(('rename_blocks', ((present[0], present[0]),), 'grid'))
    if len(present) > 1 and absent:
        ops.append(('rename_blocks', ((present[0], present[0]), (present[1], absent[0])), 'grid'))
    # reorder
    for p in some_perms(B):
        ops.append(('reorder', tuple(p), None))
    C = list(C)
    # connections whose reverse is also present cannot be "reversed" by name
    revable = [i for i, c in enumerate(C) if c[::-1] not in C]
    if C:
        perms = [C] + some_perms(C) if len(C) <= 3 else [C, C[::-1], C[1:] + C[:1]]
        if len(C) <= 3:
            masks = [[i for i in revable if (mk >> i) & 1] for mk in range(1 << len(C))]
            masks = [list(x) for x in set(tuple(mm) for mm in masks)]
        else:
            masks = [[], list(revable)] + [[i] for i in revable]
        for p in perms:
            for mk in sorted(masks):
                rl = [C[i] for i in mk]
                q = tuple(c[::-1] if c in rl else c for c in p)
                if q == tuple(C):
                    continue
                ops.append(('reorder', None, q))
        if len(B) > 1:
            ops.append(('reorder', tuple(B[::-1]), tuple(c[::-1] if c in [C[i] for i in revable] else c for c in C[::-1])))
    # minc, +, embed, check
    if B:
        ops.append(('minc', 'm2', None))
        ops.append(('minc', 'm4', None))
        if present:
            ops.append(('minc', 'm3', (present[0],)))
    for key in ('c', 'cd', 'xy', 'xyr1'):
        ops.append(('add', key))
    for host in present[:2]:
        for key in ('xy', 'xyr1', 'xybig', 'cd'):
            ops.append(('embed', key, host))
            ops.append(('embed', key, host, 'copied-ends:deepcopy' if key in ('xy', 'xybig') else 'copied-ends:fresh'))
    ops.append(('check_fix',))
    return ops


def replay(initname, history, st=None):
    """Replays a history on a fresh initial grid with the real operations (no contracts)."""
    g = raw_grid(*INITIAL[initname])
    for op in history:
        g = apply_cont(g, op)
    return g


def apply_cont(g, op):
    """apply_op with the continuation rule of contract_step: after an exception, or after an embed
    that returns None, the history continues on the same grid."""
    try:
        g2 = apply_op(g, op)
    except Exception:
        return g
    return g if g2 is None else g2


def expand(task):
    """Worker: expands a chunk of frontier states [(initname, history)]; returns new views and stats."""
    chunk, last, variants = task
    st = Stats()
    new = {}
    npairs = 0
    for initname, history in chunk:
        try:
            g0 = replay(initname, history)
        except Exception as e:      # cannot happen: the history was executed before
            st.failure('harness:replay %s' % initname, 'replay raised %r' % e, history, initname)
            continue
        vw = view(g0)
        for op in gen_ops(vw, variants):
            npairs += 1
            g = clone(g0)
            g2, post = contract_step(g, op, history, initname, st, vw)
            if g2 is not None and not last and post != vw:
                key = (initname, post)
                h2 = tuple(history) + (op,)
                if key not in new or repr(h2) < repr(new[key]):
                    new[key] = h2
    return new, st.done(), npairs


def real_replays(task):
    """Worker of part B1: all length-2 sequences following the given first op, on real objects."""
    initname, first = task
    st = Stats()
    n = 0
    g = raw_grid(*INITIAL[initname])
    g1, v1 = contract_step(g, first, [], initname, st)
    if g1 is None:
        return st.done(), 1
    for op in gen_ops(v1):
        g = raw_grid(*INITIAL[initname])
        g = apply_cont(g, first)
        contract_step(g, op, [first], initname, st, v1)
        n += 1
    return st.done(), n


def random_small(task):
    """Worker of part B2: random sequences on the small universe, no cloning, up to 60 steps."""
    seed, nseq, maxlen = task
    rnd = random.Random(seed)
    st = Stats()
    sample = None
    for i in range(nseq):
        initname = rnd.choice(sorted(INITIAL))
        g = raw_grid(*INITIAL[initname])
        vw = view(g)
        history = []
        for step in range(rnd.randint(maxlen // 2, maxlen)):
            ops = gen_ops(vw)
            # keep the history alive: prefer operations in the situations that keep wf on the unchanged tree
            for attempt in range(6):
                op = rnd.choice(ops)
                sit = model(vw, op).situation
                if attempt == 5 or sit not in ('replace-connected', 'replace-used', 'used', 'overlap-blocks', 'overlap-rocks', 'ok-overlap-rocks'):
                    break
            if len(vw[1]) > 14 and op[0] in ('minc', 'add', 'embed'):
                continue
            g, post = contract_step(g, op, history, initname, st, vw)
            history.append(op)
            if g is None:
                break
            vw = post
        if sample is None:
            sample = {'initial': initname, 'history': [opstr(o) for o in history[:8]], 'length': len(history)}
    return st.done(), nseq, sample

# ----------------------------------------------------------------------------------------------
# part C: random sequences on grids from geometries



def canon_geo(geo):
    """mulgrid.refine / from_gmsh / reduce go through sets of objects, so the ORDER and ORIENTATION of the
    geometry's column connections differ from run to run; re-add them sorted by name so that the harness
    output is a function of <tier> <seed> only."""
    cons = list(geo.connectionlist)
    pairs = sorted(tuple(sorted((c.column[0].name, c.column[1].name))) for c in cons)
    for c in cons:
        geo.delete_connection((c.column[0].name, c.column[1].name))
    for a, b in pairs:
        geo.add_connection(connection([geo.column[a], geo.column[b]]))
    geo.identify_neighbours()
    geo.setup_block_name_index()
    geo.setup_block_connection_name_index()
    return geo


def ordered_reduce(geo, keep):
    """mulgrid.reduce with a deterministic order of deletion."""
    keepnames = set(c.name for c in keep)
    for name in [c.name for c in geo.columnlist if c.name not in keepnames]:
        geo.delete_column(name)
    geo.check(fix=True, silent=True)
    geo.setup_block_name_index()
    geo.setup_block_connection_name_index()


def geometry_grid(rnd):
    kind = rnd.choice(['rect', 'rect', 'rect-surface', 'g7', 'g7', 'gmsh'])     # (mulgrid.refine names its new columns in a run-dependent order: not used)
    desc = {'kind': kind}
    if kind in ('rect', 'rect-surface', 'refined'):
        while True:
            nx, ny, nz = rnd.randint(1, 7), rnd.randint(1, 6), rnd.randint(1, 6)
            if nx * ny * (nz + 1) <= (200 if kind != 'refined' else 90):
                break
        atm = rnd.choice([0, 1, 2])
        desc.update(nx=nx, ny=ny, nz=nz, atmos_type=atm)
        geo = mulgrid().rectangular([10. + i for i in range(nx)], [20.] * ny, [5. + j for j in range(nz)], atmos_type=atm)
        if kind == 'rect-surface' and nz > 1:
            for col in geo.columnlist:
                col.surface = -rnd.choice([0., 2., 5., 7.])
                geo.set_column_num_layers(col)
            geo.setup_block_name_index()
            geo.setup_block_connection_name_index()
        if kind == 'refined' and nx * ny >= 4:
            geo.refine([geo.columnlist[0]])
    elif kind == 'g7':
        geo = mulgrid(os.path.join(REPO, 'tests', 'mulgrid', 'g7.dat'))
        k = rnd.randint(3, 28)
        start = rnd.randint(0, geo.num_columns - k)
        desc.update(columns=[start, start + k])
        ordered_reduce(geo, geo.columnlist[start:start + k])
    else:
        geo = mulgrid().from_gmsh(os.path.join(REPO, 'tests', 'mulgrid', 'gmsh2_2.msh'), [3.], atmos_type=rnd.choice([0, 2]))
        k = rnd.randint(10, 90)
        desc.update(columns=k)
        ordered_reduce(geo, geo.columnlist[:k])
    canon_geo(geo)
    g = t2grid().fromgeo(geo)
    # three rock types spread over the blocks
    for rn in ROCKS:
        g.add_rocktype(rocktype(rn))
    rts = g.rocktypelist
    for b in g.blocklist:
        b.rocktype = rnd.choice(rts)
    desc.update(blocks=g.num_blocks, connections=g.num_connections)
    return g, desc


def rand_op_big(vw, rnd, fresh_counter):
    """One random operation on a large grid, in a situation that the unchanged tree keeps well formed
    (the other situations are covered exhaustively in part A)."""
    R, Bfull, C = vw
    B = [b[0] for b in Bfull]
    Bset = set(B)
    used = set(b[1] for b in Bfull)
    connected = set()
    for a, b in C:
        connected.add(a)
        connected.add(b)

    def fresh():
        while True:
            fresh_counter[0] += 1
            n = 'zz%3d' % fresh_counter[0]
            if n not in Bset:
                return n
    for attempt in range(50):
        k = rnd.choice(['add_rocktype', 'delete_rocktype', 'rename_rocktype', 'clean_rocktypes', 'add_block', 'add_block',
                        'delete_block', 'delete_block', 'demote_block', 'add_connection', 'add_connection', 'delete_connection',
                        'delete_connection', 'rename_blocks', 'rename_blocks', 'rename_blocks', 'reorder', 'reorder', 'minc',
                        'add', 'embed', 'check_fix'])
        if k == 'add_rocktype':
            r = rnd.choice(ROCKS + [ROCK3, 'rockA', 'rockB'])
            if r in R and r in used:
                continue
            return (k, r)
        if k == 'delete_rocktype':
            r = rnd.choice(ROCKS + [ROCK3, 'rockA', 'dfalt'])
            if r in used:
                continue
            return (k, r)
        if k == 'rename_rocktype':
            return (k, rnd.choice(list(R) + ['nope ']), rnd.choice(ROCKS + [ROCK3, 'rockA', 'rockB', 'rockC']))
        if k == 'clean_rocktypes':
            return (k,)
        if k == 'add_block':
            if not R:
                continue
            r = rnd.choice(R)
            if rnd.random() < 0.3 and B:
                n = rnd.choice(B)
                if n in connected:
                    continue
            else:
                n = fresh()
            return (k, n, r)
        if k == 'delete_block':
            return (k, rnd.choice(B) if B and rnd.random() < 0.9 else fresh())
        if k == 'demote_block':
            if not B:
                continue
            names = rnd.sample(B, rnd.randint(1, min(6, len(B))))
            return (k, names[0] if len(names) == 1 and rnd.random() < 0.5 else tuple(names))
        if k == 'add_connection':
            if len(B) < 2:
                continue
            a, b = rnd.sample(B, 2)
            return (k, a, b)
        if k == 'delete_connection':
            if C and rnd.random() < 0.9:
                a, b = rnd.choice(C)
                if rnd.random() < 0.1:
                    a, b = b, a
                return (k, a, b)
            if len(B) < 2:
                continue
            a, b = rnd.sample(B, 2)
            return (k, a, b)
        if k == 'rename_blocks':
            if not B:
                continue
            dom = rnd.sample(B, rnd.randint(1, min(len(B), rnd.choice([2, 3, 5, 20, 200]))))
            style = rnd.choice(['perm', 'rot', 'fresh', 'mixed'])
            if style == 'perm':
                cod = list(dom)
                rnd.shuffle(cod)
            elif style == 'rot':
                cod = dom[1:] + dom[:1]
            elif style == 'fresh':
                cod = [fresh() for _ in dom]
            else:   # chain into fresh names: a->b, b->c, c->fresh
                cod = dom[1:] + [fresh()]
            m = tuple((a, b) for a, b in zip(dom, cod) if a != b)
            if not m:
                continue
            return (k, m, rnd.choice(['grid', 'grid', 'grid-nofix', 'dat', 'dat-invert']))
        if k == 'reorder':
            bn = cn = None
            if rnd.random() < 0.7 and B:
                bn = list(B)
                rnd.shuffle(bn)
                bn = tuple(bn)
            if (rnd.random() < 0.8 or bn is None) and C:
                cn = list(C)
                rnd.shuffle(cn)
                Cset = set(C)
                p = rnd.choice([0., 0.1, 0.5, 1.])
                cn = tuple(c[::-1] if (rnd.random() < p and c[::-1] not in Cset) else c for c in cn)
            if bn is None and cn is None:
                continue
            return (k, bn, cn)
        if k == 'minc':
            if not B or len(B) > 150:
                continue
            key = rnd.choice(sorted(MINC))
            nlev = len(MINC[key][0])
            if rnd.random() < 0.5 and len(B) * nlev <= 400:
                sel = None
                cand = B
            else:
                cand = rnd.sample(B, rnd.randint(1, min(len(B), 8)))
                sel = tuple(cand)
            names = [matrix_name(n, l) for n in cand for l in range(1, nlev)]
            if len(set(names)) != len(names) or any(x in Bset for x in names):
                if rnd.random() < 0.9:
                    continue
            return (k, key, sel)
        if k == 'add':
            key = rnd.choice(['xy', 'xyr1', 'c', 'cd'])
            oR, oB, oC = OPERAND[key]
            if any(b[0] in Bset for b in oB) or any(r in used for r in oR):
                continue
            return (k, key)
        if k == 'embed':
            if not B:
                continue
            key = rnd.choice(['xy', 'xyr1', 'xybig', 'cd'])
            oR, oB, oC = OPERAND[key]
            if any(r in used for r in oR):
                continue
            ends = rnd.choice([None, 'copied-ends:deepcopy', 'copied-ends:fresh'])
            return (k, key, rnd.choice(B)) if ends is None else (k, key, rnd.choice(B), ends)
        if k == 'check_fix':
            if rnd.random() < 0.3:
                return (k,)
    return ('clean_rocktypes',)


def random_big(task):
    seed, nseq, maxlen = task
    rnd = random.Random(seed)
    st = Stats()
    sample = None
    for i in range(nseq):
        g, desc = geometry_grid(rnd)
        init = {'geometry': desc, 'seed': seed, 'index': i}
        st.count('wf')
        bad = wf(g)
        if bad:
            st.failure('fromgeo:%s %s' % (bad[0][0], desc['kind']), 'grid from geometry not well formed: %r' % (bad[:3],), [], init)
            continue
        vw = view(g)
        history = []
        counter = [0]
        for step in range(rnd.randint(maxlen // 3, maxlen)):
            op = rand_op_big(vw, rnd, counter)
            g, post = contract_step(g, op, history, init, st, vw)
            history.append(op)
            if g is None:
                break
            vw = post
        if sample is None:
            sample = {'geometry': desc, 'history': [opstr(o)[:60] for o in history[:6]], 'length': len(history)}
    return st.done(), nseq, sample

# ----------------------------------------------------------------------------------------------


def main():
    tier = sys.argv[1] if len(sys.argv) > 1 else 'quick'
    seed = int(sys.argv[2]) if len(sys.argv) > 2 else 0
    t0 = time.time()
    import multiprocessing as mp
    nproc = min(16, os.cpu_count() or 1)
    depth = 3 if tier == 'quick' else 4
    total = Stats()
    total.cpu = 0.
    distinct = 0
    samples = []
    levels = []
    with mp.Pool(nproc) as pool:
        # ---- part A
        frontier = [(name, ()) for name in sorted(INITIAL)]
        seen = set((name, view(raw_grid(*INITIAL[name]))) for name in INITIAL)
        for level in range(1, depth + 1):
            last = level == depth
            rnd = random.Random(seed + level)
            nfull = len(frontier)
            if level == 4:
                # length-4 sequences: every one from 'empty' and 'chain3' (the fourth name gets added on the way);
                # from 'ring4' (whose alphabet is the largest) a seeded eighth of the length-3 states
                frontier = [x for x in frontier if x[0] != 'ring4' or rnd.random() < 0.125]
            rnd.shuffle(frontier)
            csize = max(1, min(200, len(frontier) // (nproc * 4) + 1))
            # the t2data / fix_blocknames=False entry points of rename_blocks are enumerated at every level but the last
            # (the last level is by far the largest, and they reach the same t2grid code)
            tasks = [(frontier[i:i + csize], last, not last) for i in range(0, len(frontier), csize)]
            cand = {}
            npairs = 0
            for new, st, n in pool.imap_unordered(expand, tasks):
                total.merge(st)
                npairs += n
                for key, h2 in new.items():
                    if key not in seen and (key not in cand or repr(h2) < repr(cand[key])):
                        cand[key] = h2
            seen.update(cand)
            newfrontier = [(key[0], h2) for key, h2 in cand.items()]
            distinct += npairs
            levels.append({'level': level, 'states_reached': nfull, 'states_expanded': len(frontier), 'state_op_pairs': npairs,
                           'new_states': len(newfrontier), 't': round(time.time() - t0, 1)})
            newfrontier.sort(key=repr)
            frontier = newfrontier
        # ---- part B1: real replays of every sequence of length <= 2
        tasks = []
        for name in sorted(INITIAL):
            v0 = view(raw_grid(*INITIAL[name]))
            tasks += [(name, op) for op in gen_ops(v0)]
        nb1 = 0
        for st, n in pool.imap_unordered(real_replays, tasks, chunksize=4):
            total.merge(st)
            nb1 += n
        # ---- part B2 / C: random sequences
        nsmall = 1500 if tier == 'quick' else 30000
        nbig = 160 if tier == 'quick' else 4000
        per = max(1, nsmall // (nproc * 4))
        tasks = [(seed * 1000003 + i, per, 60) for i in range(nsmall // per)]
        nb2 = 0
        for st, n, sample in pool.imap_unordered(random_small, tasks):
            total.merge(st)
            nb2 += n
            if sample:
                samples.append(sample)
        perb = max(1, nbig // (nproc * 4))
        tasks = [(seed * 7000003 + 17 + i, perb, 60) for i in range(nbig // perb)]
        nc = 0
        for st, n, sample in pool.imap_unordered(random_big, tasks):
            total.merge(st)
            nc += n
            if sample:
                samples.append(sample)
    distinct += nb1 + nb2 + nc
    samples.sort(key=lambda x: json.dumps(x, sort_keys=True))
    samples = [x for x in samples if 'geometry' not in x][:2] + [x for x in samples if 'geometry' in x][:3]
    # failures: at most 60, every category (first word) represented, shortest histories first
    allf = [f for l, f in sorted(total.fail.values(), key=lambda x: (x[0][0], x[1]['key']))]
    bycat = {}
    for f in allf:
        bycat.setdefault(f['key'].split(' ')[0], []).append(f)
    out = []
    rank = 0
    while len(out) < 60 and any(len(v) > rank for v in bycat.values()):
        for cat in sorted(bycat):
            if len(bycat[cat]) > rank and len(out) < 60:
                out.append(bycat[cat][rank])
        rank += 1
    samples.append({'levels': levels, 'real_replays_len2': nb1, 'random_small_sequences': nb2, 'random_geometry_sequences': nc,
                    'steps': total.nsteps, 'worker_cpu_seconds': round(total.cpu, 1), 'per_contract': dict(sorted(total.per_contract.items())),
                    'failure_categories': dict((c, len(v)) for c, v in sorted(bycat.items()))})
    print('@@JSON@@' + json.dumps({'evaluations': total.evaluations, 'distinct': distinct, 'failures': out,
                                   'nfailures': len(allf), 'samples': samples, 'seconds': round(time.time() - t0, 2)}))


if __name__ == '__main__':
    main()
