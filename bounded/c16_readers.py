"""C16 bounded stand-in: the contract of fortran_float / fortran_int evaluated natively on
the rendering lattice of the quantifier and on random printable strings.
usage: c16_readers.py <tier> <seed>"""
import sys, os, json, time, random, math, itertools
sys.path.insert(0, os.environ.get('PYTOUGH_REPO', '/repo'))
sys.path.insert(0, os.path.dirname(os.path.dirname(os.path.abspath(__file__))))
from fractions import Fraction
from fixed_format_file import fortran_float, fortran_int
from bounded.fortran_ref import check_float, check_int, fortran_E, fortran_I

tier = sys.argv[1] if len(sys.argv) > 1 else 'quick'
seed = int(sys.argv[2]) if len(sys.argv) > 2 else 0
rnd = random.Random(seed)
t0 = time.time()
failures, evaluations, distinct, samples = [], 0, set(), []

def fail(key, what, inp):
    if len(failures) < 60: failures.append({'key': key, 'what': what, 'input': inp})

def embed_blanks(s, how):
    if how == 0: return s
    if how == 1: return '  ' + s
    if how == 2: return s + '  '
    if how == 3:
        i = rnd.randrange(1, len(s)) if len(s) > 1 else 0
        return s[:i] + ' ' + s[i:]
    return ' ' + s + ' '

# --- rendering lattice: sign x exponent x mantissa digits x style
exps = list(range(-300, 301, 1 if tier == 'thorough' else 7)) + [-300, -100, -99, -10, -1, 0, 1, 9, 10, 99, 100, 300]
mants = ['1', '9', '15', '123', '99999', '1234567', '999999999', '12345678901234567', '10000000000000001']
styles = []
for letter in 'ED':
    for lower in (False, True):
        for lead in (True, False):
            for plus in (False, True):
                for drop3 in (True, False):
                    for bfp in (False, True):
                        styles.append(dict(letter=letter, lower=lower, leading_zero=lead, plus=plus, drop_letter_3=drop3, blank_for_plus=bfp))
if tier == 'quick':
    styles = [s for i, s in enumerate(styles) if i % 4 == seed % 4 or i in (0, 1)]
for ex in sorted(set(exps)):
    for m in mants:
        for sign in (1, -1):
            v = sign * Fraction(int(m)) * Fraction(10) ** (ex - len(m))
            st = styles if tier == 'thorough' else rnd.sample(styles, 3)
            for sty in st:
                d = len(m)
                field = fortran_E(v, d + 9, d, expdigits=2, **sty)
                for how in (range(5) if tier == 'thorough' else (0, rnd.randrange(1, 5))):
                    s = embed_blanks(field, how)
                    evaluations += 1
                    ok, detail = check_float(s, fortran_float)
                    distinct.add((sty['letter'], sty['lower'], sty['leading_zero'], sty['plus'], sty['drop_letter_3'], sty['blank_for_plus'], abs(ex) >= 100, how))
                    if not ok:
                        fail('float-lattice ' + s.strip(), detail, {'s': s})
                    if len(samples) < 5 and rnd.random() < 0.001: samples.append({'field': s, 'value': fortran_float(s)})
# overflow asterisks and friends
for s in ['*' * w for w in range(1, 21)] + ['***.**', ' ******', '1.5*', '1.5E+**', 'NaN', 'Infinity', '-Inf', '1.5E', 'E+05', '+', '-', '.', '1..2', '1.5E+5E+5', '1-', '--1', '1 2 . 5', '1.5D 05', '1.5 +100', '-.5-100']:
    evaluations += 1
    ok, detail = check_float(s, fortran_float)
    distinct.add(('special', s))
    if not ok: fail('float-special ' + s, detail, {'s': s})
# integers with blank padding
for i in list(range(-1000, 1001, 7)) + [0, 99999, -99999, 2 ** 31, 123456789012345678]:
    for w in (len(str(i)), len(str(i)) + 3, 20):
        base = fortran_I(i, w)
        for s in (base, base.strip().ljust(w), embed_blanks(base.strip(), 3), '+' + str(i) if i >= 0 else str(i)):
            evaluations += 1
            ok, detail = check_int(s, fortran_int)
            if not ok: fail('int-lattice ' + s.strip(), detail, {'s': s})
distinct.add(('int lattice',))
# random printable strings up to width 20
alphabets = ['0123456789+-.eEdD ', ''.join(chr(c) for c in range(32, 127)), '0123456789+- ', '0123456789.+-eE_ *']
N = 60000 if tier == 'quick' else 1500000
for k in range(N):
    a = alphabets[k % len(alphabets)]
    s = ''.join(rnd.choice(a) for _ in range(rnd.randrange(0, 21)))
    evaluations += 1
    ok, detail = check_float(s, fortran_float)
    if not ok: fail(('float-underscore ' if '_' in s else 'float-random ') + s, detail, {'s': s})
    ok, detail = check_int(s, fortran_int)
    if not ok: fail('int-random ' + s, detail, {'s': s})
distinct.add(('random strings',))
print('@@JSON@@' + json.dumps({'evaluations': evaluations, 'distinct': len(distinct), 'failures': failures,
                               'nfailures': len(failures), 'samples': samples, 'seconds': time.time() - t0}))
