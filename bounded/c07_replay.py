"""Native replay of C07 cursor contracts on a real shipped listing."""
import os, glob
import numpy as np


def replay_cursor(obname, model):
    """The cursor contract on one shipped listing of each simulator family that has at least three result times
    (the table readers differ per family: a navigation defect may show in one family only)."""
    repo = os.environ.get('PYTOUGH_REPO') or [p for p in __import__('sys').path if os.path.exists(os.path.join(p, 't2listing.py'))][0]
    problems, tried = [], 0
    for family in ('AUTOUGH2', 'TOUGH2', 'TOUGHplus', 'TOUGH2-MP', 'TOUGH3'):
        for fn in sorted(glob.glob(os.path.join(repo, 'tests', 'listing', family, '*', '*'))):
            if fn.endswith(('.npy', '~')) or os.path.isdir(fn) or os.path.getsize(fn) > 3000000:
                continue
            try:
                ok, detail = _replay_one(fn)
            except _TooShort:
                continue
            tried += 1
            if not ok:
                problems.append('%s: %s' % (os.path.relpath(fn, repo), detail))
            break
    if not tried:
        return True, 'no shipped listing with three result times found'
    return (not problems), ' | '.join(problems[:3])


class _TooShort(Exception):
    pass


def _replay_one(fn):
    from t2listing import t2listing
    try:
        lst = t2listing(fn)
    except Exception:
        raise _TooShort()
    if lst.num_fulltimes < 3:
        raise _TooShort()
    problems = []
    fresh = t2listing(fn)
    n = lst.num_fulltimes
    def same(i):
        fresh.index = i
        return lst.index == fresh.index and lst.time == fresh.time and lst.step == fresh.step and \
            all(np.array_equal(lst._table[t]._data, fresh._table[t]._data) for t in lst._table)
    for i in list(range(-n, n)):
        lst.index = i
        if lst.index != i % n or not same(i % n): problems.append('index=%d gives index %r' % (i, lst.index))
    for bad in (n, n + 1, -n - 1):
        before = lst.index
        try:
            lst.index = bad
            problems.append('index=%d accepted (index now %r)' % (bad, lst.index))
        except IndexError:
            if lst.index != before: problems.append('failed index=%d moved the cursor' % bad)
    lst.first()
    if lst.prev() or lst.index != 0: problems.append('prev at the start moved')
    k = 0
    while True:
        r = lst.next()
        if not r: break
        k += 1
        if lst.index != k or not same(k): problems.append('next -> index %r, expected %d' % (lst.index, k))
    if lst.index != n - 1: problems.append('next stopped at %r' % lst.index)
    ts, ss = list(lst.fulltimes), list(lst.fullsteps)
    cands = []
    for j, t in enumerate(ts):
        cands += [(t, j)]
        if j + 1 < n: cands += [(t + 0.25 * (ts[j + 1] - t), j), (t + 0.75 * (ts[j + 1] - t), j + 1)]
    cands += [(ts[0] - 1., 0), (ts[-1] + 1., n - 1)]
    for t, want in cands:
        lst.time = t
        if lst.index != want or not same(want): problems.append('time=%r selects index %r, nearest is %d' % (t, lst.index, want))
    for j, s in enumerate(ss):
        lst.step = s
        if lst.index != j: problems.append('step=%r selects index %r, expected %d' % (s, lst.index, j))
    lst.step = ss[0] - 1
    if lst.index != 0: problems.append('step before first selects %r' % lst.index)
    lst.step = ss[-1] + 1
    if lst.index != n - 1: problems.append('step after last selects %r' % lst.index)
    return (not problems), '; '.join(problems[:4])
