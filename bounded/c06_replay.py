"""Native replay of the C06 whole-history obligation: history() against stepping through, on one shipped listing per
simulator family (the AUTOUGH2 one with short output when there is one)."""
import os, glob
import numpy as np


def replay_history():
    from t2listing import t2listing
    repo = os.environ.get('PYTOUGH_REPO') or [p for p in __import__('sys').path if os.path.exists(os.path.join(p, 't2listing.py'))][0]
    problems, tried = [], 0
    for family in ('AUTOUGH2', 'TOUGH2', 'TOUGHplus'):
        files = [f for f in sorted(glob.glob(os.path.join(repo, 'tests', 'listing', family, '*', '*'))) if not f.endswith(('.npy', '~')) and os.path.isfile(f) and os.path.getsize(f) < 3000000]
        chosen = None
        for fn in files:
            try:
                lst = t2listing(fn)
            except Exception:
                continue
            if lst.num_fulltimes >= 2 and (family != 'AUTOUGH2' or lst.num_times > lst.num_fulltimes):
                chosen = (fn, lst); break
        if chosen is None:
            for fn in files:
                try:
                    lst = t2listing(fn)
                except Exception:
                    continue
                if lst.num_fulltimes >= 2:
                    chosen = (fn, lst); break
        if chosen is None:
            continue
        fn, lst = chosen
        tried += 1
        rel = os.path.relpath(fn, repo)
        e, c = lst.element, lst.connection
        # a reversed connection name before a later row of the same table: each item's sign must be its own
        items = [('e', e.row_name[0], e.column_name[0]), ('e', e.row_name[-1], e.column_name[-1]), ('c', c.row_name[0], c.column_name[0]), ('c', c.row_name[0][::-1], c.column_name[0]),
                 ('c', c.row_name[-1], c.column_name[0])]
        idx0 = lst.index
        for short in (True, False):
            res = lst.history(items, short=short)
            if lst.index != idx0:
                problems.append('%s: index %r after history, %r before' % (rel, lst.index, idx0))
            step = t2listing(fn)
            series = [[] for _ in items]
            for k in range(step.num_fulltimes):
                step.index = k
                for j, (t, key, col) in enumerate(items):
                    tab = step.element if t == 'e' else step.connection
                    series[j].append(tab[key][col] if key in tab.row_name else -tab[key[::-1]][col])
            for j, (times, vals) in enumerate(res):
                if len(times) != len(vals):
                    problems.append('%s short=%s item %r: %d times paired with %d values' % (rel, short, items[j], len(times), len(vals))); continue
                at = dict((float(t), float(v)) for t, v in zip(times, vals))
                for t, v in zip(step.fulltimes, series[j]):
                    if float(t) not in at or abs(at[float(t)] - float(v)) > 1e-12 * max(1., abs(float(v))):
                        problems.append('%s short=%s item %r: value at time %r is %r, stepping through gives %r' % (rel, short, items[j], float(t), at.get(float(t)), float(v))); break
            if not np.array_equal(np.array(res[2][1]), -np.array(res[3][1])):
                problems.append('%s short=%s: the reversed connection is not the negated series' % (rel, short))
    if not tried:
        return True, 'no shipped listing found'
    return (not problems), ' | '.join(problems[:3])
