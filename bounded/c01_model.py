"""C01 helper: the harness' OWN description of a TOUGH2 / AUTOUGH2 model and of the digits
each field carries (independent of t2data_format_specification), the canonical walk over a
t2data object and the tolerance comparison.

A model is compared through a flat dictionary  path -> value  ("canon").  Float leaves are
compared with the tolerance of the field they are written in: half a unit of the last digit
a Python-style  %w.pe / %w.pf  field of that width can carry for that value.
"""
import math
import re
from decimal import Decimal

SECTIONS = ['SIMUL', 'ROCKS', 'PARAM', 'MOMOP', 'START', 'NOVER', 'RPCAP', 'LINEQ', 'SOLVR',
            'MULTI', 'TIMES', 'SELEC', 'DIFFU', 'ELEME', 'CONNE', 'MESHM', 'GENER', 'SHORT',
            'FOFT', 'COFT', 'GOFT', 'INCON', 'INDOM']
XP_SECTIONS = ['ROCKS', 'ELEME', 'CONNE', 'RPCAP', 'GENER']

E104, E103, E147, E2014, E2013, E159, F107 = (('e', 10, 4), ('e', 10, 3), ('e', 14, 7), ('e', 20, 14),
                                              ('e', 20, 13), ('e', 15, 9), ('f', 10, 7))
E158, F158 = ('e', 15, 8), ('f', 15, 8)

# path pattern -> (normal format, extra-precision format or None)
_FMT_RULES = [
    (r'^ROCKS\[\d+\]\.(density|porosity|k\[\d\]|conductivity|specific_heat|compressibility|expansivity|'
     r'dry_conductivity|tortuosity|klinkenberg|xkd3|xkd4)$', E104, E158),
    (r'^ROCKS\[\d+\]\.(rp|cp)\.par\[\d+\]$', E103, E158),
    (r'^RPCAP\.(rp|cp)\.par\[\d+\]$', E103, E158),
    (r'^PARAM\.(diff0|texp|be|tstart|tstop|const_timestep|max_timestep)$', E103, None),
    (r'^PARAM\.(gravity|timestep_reduction|scale|relative_error|absolute_error|pivot|upstream_weight|'
     r'newton_weight|derivative_increment)$', E104, None),
    (r'^PARAM\.timestep\[\d+\]$', E104, None),
    (r'^PARAM\.default_incons\[\d+\]$', E2014, None),
    (r'^LINEQ\.epsilon$', E104, None),
    (r'^SOLVR\.(relative_max_iterations|closure)$', E104, None),
    (r'^TIMES\.(max_timestep|time_increment|time\[\d+\])$', E104, None),
    (r'^SELEC\.float\[\d+\]$', E103, None),
    (r'^DIFFU\[\d+\]\[\d+\]$', E103, None),
    (r'^ELEME\[\d+\]\.(volume|ahtx|pmx)$', E104, E158),
    (r'^ELEME\[\d+\]\.centre\[\d\]$', E103, E158),
    (r'^CONNE\[\d+\]\.(distance\[\d\]|area)$', E104, E158),
    (r'^CONNE\[\d+\]\.dircos$', F107, F158),
    (r'^CONNE\[\d+\]\.sigma$', E103, E158),
    (r'^GENER\[\d+\]\.(gx|ex|hg|fg)$', E103, E158),
    (r'^GENER\[\d+\]\.(time|rate|enthalpy)\[\d+\]$', E147, E158),
    (r'^INCON\[.*\]\.porosity$', E159, None),
    (r'^INCON\[.*\]\.var\[\d\]$', E2014, None),
    (r'^INDOM\[.*\]\[\d\]$', E2013, None),
    (r'^MESHM\[\d+\]\.', E104, None),
]
_FMT_RULES = [(re.compile(p), a, b) for p, a, b in _FMT_RULES]
_fmt_cache = {}
_idx = re.compile(r'\[[^\]]*\]')


def fmt_of(path, xp_sections=(), binary_mesh=False):
    """The format the float at `path` is carried in."""
    sec = path.split('.', 1)[0].split('[', 1)[0]
    if binary_mesh and sec in ('ELEME', 'CONNE'):
        return ('exact',)
    k = (_idx.sub('[]', path), sec in xp_sections)
    if k in _fmt_cache:
        return _fmt_cache[k]
    r = None
    for rx, a, b in _FMT_RULES:
        if rx.match(path):
            r = b if (sec in xp_sections and b is not None) else a
            break
    _fmt_cache[k] = r
    return r


def carried_precision(v, fmt):
    """(p', tolerance): number of decimals a Python-style field of this format carries for v and
    half a unit of the last carried digit; (None, None) when v cannot be written in the field."""
    kind, w, p = fmt
    if v == 0 or v != v:
        return p, 0.0
    neg = 1 if v < 0 else 0
    if kind == 'e':
        e = Decimal(repr(abs(float(v)))).adjusted()
        for q in range(p, -1, -1):
            # exponent after rounding to q decimals
            m = Decimal(repr(abs(float(v)))).scaleb(-e).quantize(Decimal(1).scaleb(-q))
            ee = e + 1 if m >= 10 else e
            explen = 2 + max(2, len(str(abs(ee))))
            length = neg + 1 + (1 + q if q > 0 else 0) + explen
            if length <= w:
                return q, 0.5 * 10.0 ** (e - q)
        return None, None
    else:
        for q in range(p, -1, -1):
            s = str(Decimal(repr(abs(float(v)))).quantize(Decimal(1).scaleb(-q))) if q > 0 else \
                str(Decimal(repr(abs(float(v)))).quantize(Decimal(1))) + '.'
            if neg + len(s) <= w:
                return q, 0.5 * 10.0 ** (-q)
        return None, None


def fits(v, fmt, full=True):
    q, _ = carried_precision(v, fmt)
    return q is not None and (q == fmt[2] or not full)


def is_num(x):
    return isinstance(x, (int, float)) and not isinstance(x, bool)


def same_leaf(exp, got, fmt):
    """-> (ok, detail)"""
    if exp is None or got is None:
        return (exp is None and got is None), 'None vs value'
    if isinstance(exp, str) or isinstance(got, str):
        return exp == got, 'string differs'
    if fmt is None or fmt == ('exact',) or (isinstance(exp, int) and isinstance(got, int)):
        if is_num(exp) and is_num(got):
            if exp != exp and got != got:
                return True, ''
            return float(exp) == float(got), 'exact value differs'
        return exp == got, 'value differs'
    if not (is_num(exp) and is_num(got)):
        return exp == got, 'value differs'
    exp, got = float(exp), float(got)
    if exp != exp or got != got:
        return (exp != exp and got != got), 'nan'
    if exp == got:
        return True, ''
    q, tol = carried_precision(exp, fmt)
    if q is None:
        return False, 'expected value does not fit its field'
    err = abs(exp - got)
    return err <= tol * (1 + 1e-9) + abs(exp) * 4e-16, 'error %.3g > tolerance %.3g of %s%d.%d (%d decimals carried)' % (
        err, tol, fmt[0], fmt[1], fmt[2], q)


def compare(expected, got, xp_sections=(), binary_mesh=False, limit=40, exact=False):
    """Compare two canons. -> list of (path, expected, got, detail), at most `limit`."""
    out = []
    for path in expected:
        if path not in got:
            if expected[path] is None:
                continue
            out.append((path, expected[path], '<absent>', 'missing after re-read'))
        else:
            e, g = expected[path], got[path]
            if e is g or (type(e) is type(g) and e == g):
                continue
            fmt = None
            if not exact and (isinstance(e, float) or isinstance(g, float)):
                fmt = fmt_of(path, xp_sections, binary_mesh)
            ok, why = same_leaf(e, g, fmt)
            if not ok:
                out.append((path, e, g, why))
        if len(out) >= limit:
            return out
    for path in got:
        if path not in expected and got[path] is not None:
            out.append((path, '<absent>', got[path], 'appeared after re-read'))
            if len(out) >= limit:
                break
    return out


# ---------------------------------------------------------------------------------------------
# canonical walk over a t2data object (reads attributes only)

def _f(x):
    if x is None:
        return None
    if isinstance(x, (bool, str)):
        return x
    try:
        import numpy as np
        if isinstance(x, np.integer):
            return int(x)
        if isinstance(x, np.floating):
            return float(x)
    except ImportError:
        pass
    return x


def _trim(lst):
    lst = list(lst)
    while lst and lst[-1] is None:
        lst.pop()
    return lst


def _blank(s):
    """None, '' and an all-blank string are the same empty text field."""
    if s is None:
        return None
    if isinstance(s, str) and s.strip() == '':
        return None
    return s


def _name(x):
    return x if isinstance(x, str) else x.name


def _conname(c):
    return tuple(c) if isinstance(c, (tuple, list)) else tuple(b.name for b in c.block)


PARAM_KEYS = ['max_iterations', 'print_level', 'max_timesteps', 'max_duration', 'print_interval', 'diff0', 'texp', 'be',
              'tstart', 'tstop', 'const_timestep', 'max_timestep', 'print_block', 'gravity', 'timestep_reduction', 'scale',
              'relative_error', 'absolute_error', 'pivot', 'upstream_weight', 'newton_weight', 'derivative_increment']
ROCK1_KEYS = ['compressibility', 'expansivity', 'dry_conductivity', 'tortuosity', 'klinkenberg', 'xkd3', 'xkd4']


def canon(dat, binary_mesh=False):
    c = {}
    c['title'] = dat.title.rstrip()
    c['SIMUL'] = dat.simulator.rstrip() or None
    c['end_keyword'] = dat.end_keyword
    g = dat.grid
    for i, rt in enumerate(g.rocktypelist):
        p = 'ROCKS[%d].' % i
        c[p + 'name'] = rt.name
        c[p + 'nad'] = _f(rt.nad) or None          # a blank NAD and NAD = 0 both mean "no extra records"
        c[p + 'density'] = _f(rt.density); c[p + 'porosity'] = _f(rt.porosity)
        for j, k in enumerate(list(rt.permeability)):
            c[p + 'k[%d]' % j] = _f(k)
        c[p + 'conductivity'] = _f(rt.conductivity); c[p + 'specific_heat'] = _f(rt.specific_heat)
        nad = rt.nad or 0
        if nad >= 1:
            for k in ROCK1_KEYS:
                c[p + k] = _f(rt.__dict__.get(k))
        if nad >= 2:
            for tag, d in (('rp', rt.relative_permeability), ('cp', rt.capillarity)):
                c[p + tag + '.type'] = _f(d.get('type'))
                for j, v in enumerate(_trim(d.get('parameters', []))):
                    c[p + tag + '.par[%d]' % j] = _f(v)
    par = dat.parameter
    for k in PARAM_KEYS:
        v = par.get(k)
        c['PARAM.' + k] = _blank(v) if k == 'print_block' else _f(v)
    c['PARAM.option'] = ''.join(str(int(m)) for m in par['option'][1:])
    if par.get('const_timestep') is not None and par['const_timestep'] < 0:
        for j, v in enumerate(par['timestep']):
            c['PARAM.timestep[%d]' % j] = _f(v)
    for j, v in enumerate(_trim(par['default_incons'])):
        c['PARAM.default_incons[%d]' % j] = _f(v)
    mo = ''.join(str(int(m)) for m in dat.more_option[1:])
    c['MOMOP'] = mo if mo.strip('0') else None
    c['START'] = bool(dat.start) or None
    c['NOVER'] = bool(dat.noversion) or None
    for tag, d in (('rp', dat.relative_permeability), ('cp', dat.capillarity)):
        if d:
            c['RPCAP.%s.type' % tag] = _f(d.get('type'))
            for j, v in enumerate(_trim(d.get('parameters', []))):
                c['RPCAP.%s.par[%d]' % (tag, j)] = _f(v)
    for sec, d in (('LINEQ', dat.lineq), ('SOLVR', dat.solver), ('MULTI', dat.multi)):
        for k, v in d.items():
            c['%s.%s' % (sec, k)] = _blank(v.rstrip()) if isinstance(v, str) else _f(v)
    if dat.output_times:
        for k, v in dat.output_times.items():
            if k == 'time':
                for j, t in enumerate(v):
                    c['TIMES.time[%d]' % j] = _f(t)
            else:
                c['TIMES.' + k] = _f(v)
    if dat.selection:
        for j, v in enumerate(_trim(dat.selection.get('integer', []))):
            c['SELEC.integer[%d]' % j] = _f(v)
        for j, v in enumerate(_trim(dat.selection.get('float', []))):
            c['SELEC.float[%d]' % j] = _f(v)
    for i, comp in enumerate(dat.diffusion):
        for j, v in enumerate(comp):
            c['DIFFU[%d][%d]' % (i, j)] = _f(v)
        c['DIFFU[%d].n' % i] = len(comp)
    c['ROCKS.n'] = len(g.rocktypelist)
    c['ELEME.n'] = len(g.blocklist); c['CONNE.n'] = len(g.connectionlist)
    zero = (lambda v: 0.0 if v is None else v) if binary_mesh else (lambda v: v)
    for i, b in enumerate(g.blocklist):
        p = 'ELEME[%d].' % i
        c[p + 'name'] = b.name
        c[p + 'rocktype'] = b.rocktype.name
        c[p + 'nseq'] = _f(b.nseq); c[p + 'nadd'] = _f(b.nadd)
        c[p + 'volume'] = _f(b.volume); c[p + 'ahtx'] = zero(_f(b.ahtx)); c[p + 'pmx'] = zero(_f(b.pmx))
        if b.centre is None:
            c[p + 'centre'] = None
        else:
            for j in range(3):
                c[p + 'centre[%d]' % j] = _f(b.centre[j])
    for i, k in enumerate(g.connectionlist):
        p = 'CONNE[%d].' % i
        c[p + 'block1'] = k.block[0].name; c[p + 'block2'] = k.block[1].name
        c[p + 'nseq'] = _f(k.nseq); c[p + 'nad1'] = _f(k.nad1); c[p + 'nad2'] = _f(k.nad2)
        c[p + 'direction'] = _f(k.direction)
        c[p + 'distance[0]'] = _f(k.distance[0]); c[p + 'distance[1]'] = _f(k.distance[1])
        c[p + 'area'] = _f(k.area); c[p + 'dircos'] = _f(k.dircos); c[p + 'sigma'] = zero(_f(k.sigma))
    # grid dictionaries stay consistent with the lists
    c['grid.lookup'] = (sorted(g.block) == sorted(b.name for b in g.blocklist) and
                        sorted(g.rocktype) == sorted(r.name for r in g.rocktypelist) and
                        sorted(g.connection) == sorted(_conname(k) for k in g.connectionlist))
    c['GENER.n'] = len(dat.generatorlist)
    for i, gen in enumerate(dat.generatorlist):
        p = 'GENER[%d].' % i
        c[p + 'block'] = gen.block; c[p + 'name'] = gen.name
        for k in ('nseq', 'nadd', 'nads', 'gx', 'ex', 'hg', 'fg'):
            c[p + k] = _f(getattr(gen, k))
        c[p + 'ltab'] = _f(gen.ltab) or None
        c[p + 'type'] = gen.type; c[p + 'itab'] = _blank(gen.itab)
        for k in ('time', 'rate', 'enthalpy'):
            lst = getattr(gen, k)
            c[p + k + '.n'] = len(lst)
            for j, v in enumerate(lst):
                c[p + '%s[%d]' % (k, j)] = _f(v)
    c['generator.lookup'] = sorted(dat.generator) == sorted(set((x.block, x.name) for x in dat.generatorlist))
    so = dat.short_output
    if so:
        c['SHORT'] = True
        c['SHORT.frequency'] = _f(so.get('frequency'))
        if 'block' in so: c['SHORT.block'] = repr([_name(b) for b in so['block']])
        if 'connection' in so: c['SHORT.connection'] = repr([_conname(k) for k in so['connection']])
        if 'generator' in so: c['SHORT.generator'] = repr([(x.block, x.name) for x in so['generator']])
    if dat.history_block: c['FOFT'] = repr([_name(b) for b in dat.history_block])
    if dat.history_connection: c['COFT'] = repr([_conname(k) for k in dat.history_connection])
    if dat.history_generator: c['GOFT'] = repr([_name(b) for b in dat.history_generator])
    for name, inc in dat.incon.items():
        p = 'INCON[%s].' % name
        c[p + 'porosity'] = _f(inc[0])
        for j, v in enumerate(_trim(inc[1])):
            c[p + 'var[%d]' % j] = _f(v)
        c[p + 'nseq'] = _f(inc[2]) if len(inc) > 2 else None
        c[p + 'nadd'] = _f(inc[3]) if len(inc) > 3 else None
    c['INCON.n'] = len(dat.incon)
    for name, v in dat.indom.items():
        for j, x in enumerate(_trim(v)):
            c['INDOM[%s][%d]' % (name, j)] = _f(x)
    c['INDOM.names'] = repr(list(dat.indom))
    for i, (stype, section) in enumerate(dat.meshmaker):
        p = 'MESHM[%d].' % i
        c[p + 'type'] = stype.lower()
        if stype.lower() == 'rz2d':
            c[p + 'n'] = len(section)
            for j, (st, sub) in enumerate(section):
                q = p + '%d.' % j
                c[q + 'type'] = st
                for k, v in sub.items():
                    if isinstance(v, list):
                        c[q + k + '.n'] = len(v)
                        for m, x in enumerate(v): c[q + '%s[%d]' % (k, m)] = _f(x)
                    else: c[q + k] = _f(v)
        elif stype.lower() == 'xyz':
            c[p + 'deg'] = _f(section[0])
            c[p + 'n'] = len(section) - 1
            for j, sub in enumerate(section[1:]):
                q = p + '%d.' % j
                for k, v in sub.items():
                    if isinstance(v, list):
                        c[q + k + '.n'] = len(v)
                        for m, x in enumerate(v): c[q + '%s[%d]' % (k, m)] = _f(x)
                    elif isinstance(v, str): c[q + k] = _blank(v)
                    else: c[q + k] = _f(v)
        else:
            for k, v in section.items():
                if k == 'spacing':
                    for m, x in enumerate(_trim(v)): c[p + 'spacing[%d]' % m] = _f(x)
                elif isinstance(v, list):
                    c[p + k + '.n'] = len(v)
                    for m, x in enumerate(v): c[p + '%s[%d]' % (k, m)] = _f(x)
                elif isinstance(v, str): c[p + k] = _blank(v.rstrip())
                else: c[p + k] = _f(v)
    c['MESHM.n'] = len(dat.meshmaker)
    return c


def sections_with_content(c):
    """Section keywords that carry content in a canon."""
    s = set()
    for k, v in c.items():
        if v is None or v is False:
            continue
        head = re.split(r'[.\[]', k, 1)[0]
        if head in SECTIONS:
            if k.endswith('.n') and v == 0:
                continue
            if head == 'INDOM' and k == 'INDOM.names' and v == '[]':
                continue
            s.add(head)
    return s
