"""C13 bounded stand-in: initial-conditions file write/read round trip.

Contracts (evaluated on the real t2incon code, each counted separately):
  write-pure     write() leaves the object unchanged
  file           the file written holds, record by record (own column tokenizer, own number
                 parser), the header kind, every block in order with its name (up to the
                 simulator's a3,i2 reading of a name), nseq/nadd, porosity, permeabilities,
                 ceil(n/4) variable records of <= 4 values, and the blank / '+++'+timing trailer
  reread         t2incon(file, num_variables): same blocks in the same order, variables to 13
                 decimals, porosity / permeability to the 9 decimals of their field, nseq/nadd,
                 simulator flavour, timing (kept when not reset, None when reset), and the
                 name -> block lookup agrees with the ordered list
  bytes          writing the re-read object reproduces the first file byte for byte
  shipped-read   (7 shipped files) what t2incon() reads equals an own parse of the shipped file

Input space: the product 1..12 variables x timing present/absent x reset on/off x TOUGH2/TOUGHREACT
(permeabilities on all or some blocks) x 4 naming conventions x 3 atmosphere types is enumerated
from the case number; drawn per case: 0..400 blocks named by mulgrid().rectangular (upper / lower
case, enough columns and layers for 2- and 3-digit numeric parts) or by the block_name_list of a
shipped geometry, value styles (pressures, temperatures, fractions, zero, short, negative,
positive with 3-digit exponent, mantissas that round up into the exponent, ties), porosity
absent / 9-digit / arbitrary, nseq/nadd absent / both / one, num_variables given or (<= 4
variables) None.  Two small side populations, kept apart in the key's tag: `toughreact-noperm`
(simulator TOUGHREACT, no block has permeabilities) and `neg3exp` (values that are negative AND
have a 3-digit exponent, which do not fit 20 columns with 13 decimals).  Plus the 7 shipped files
(read, checked against an own parse, then round-tripped with reset off and on).

usage: c13_incons.py <tier> <seed>
"""
import sys, os, json, time, random, math, tempfile, shutil, signal, re, io, contextlib
import multiprocessing as mp
from collections import Counter

REPO = os.environ.get('PYTOUGH_REPO', '/repo')
sys.dont_write_bytecode = True          # never write inside the checkout
sys.path.insert(0, REPO)
import warnings
warnings.filterwarnings('ignore')
import numpy as np
import mulgrids
import t2incons

CASE_TIMEOUT = 5          # seconds per generated case (each takes milliseconds)
SHIPPED_TIMEOUT = 45      # seconds per shipped file (the largest takes about 6)
PER_CLASS_CAP = 3         # failures listed per (category, population); all are counted


# ------------------------------------------------------------------ oracle helpers

def same_decimals(a, b, nd):
    """b equals a printed with nd decimals in scientific notation: they differ by at most half a
    unit of the last decimal (plus a few ulps, the granularity of a itself)."""
    if a is None or b is None:
        return a is None and b is None
    a, b = float(a), float(b)
    if a == b:
        return True
    if a == 0.0 or a != a or b != b:
        return False
    e = math.floor(math.log10(abs(a)))
    return abs(a - b) <= 0.5 * 10.0 ** (e - nd) + 4 * math.ulp(a)


def own_float(s):
    """Own reader of a Fortran-printed real (only used on files, never on the library)."""
    t = s.strip()
    if not t:
        return None
    try:
        return float(t)
    except ValueError:
        pass
    t = t.lower().replace('d', 'e').replace(' ', '')
    try:
        return float(t)
    except ValueError:
        m = re.fullmatch(r'([+-]?[0-9]*\.?[0-9]*)([+-][0-9]+)', t)
        if m:
            return float(m.group(1) + 'e' + m.group(2))
        raise


def own_int(s):
    t = s.strip()
    return int(t) if t else None


def name_canon(name):
    """The simulator reads a name as (a3, i2): canonical representative of the class of names
    it cannot tell apart (same first three characters, last two identical or the same integer)."""
    tail = name[3:]
    try:
        return (name[:3], int(tail))
    except ValueError:
        return (name[:3], tail)


def name_equiv(fname, bname):
    if len(fname) != 5 or len(bname) != 5:
        return False
    return fname == bname or name_canon(fname) == name_canon(bname)


def zero_padded(name):
    """letter-letter-letter-0-digit: a name the simulator prints back with a blank for the 0."""
    return name[3] == '0' and name[4].isdigit() and not name[2].isdigit()


def quirk_free(name):
    """Own characterisation of the names a t2incon object holds after any read: the blank a
    simulator puts in column 4 of digit-blank-digit names is held as '0'."""
    return not (name[2].isdigit() and name[3] == ' ' and name[4].isdigit())


def snapshot(inc):
    """Plain-data copy of everything the property talks about."""
    blocks = []
    for b in inc._blocklist:
        perm = None if b.permeability is None else [float(x) for x in b.permeability]
        blocks.append({'name': b.block, 'variable': [None if v is None else float(v) for v in b.variable],
                       'porosity': None if b.porosity is None else float(b.porosity),
                       'permeability': perm, 'nseq': b.nseq, 'nadd': b.nadd})
    timing = None if inc.timing is None else dict(inc.timing)
    lookup_ok = (len(inc._block) == len(inc._blocklist) and
                 all(inc._block.get(b.block) is b for b in inc._blocklist))
    return {'simulator': inc.simulator, 'timing': timing, 'blocks': blocks, 'lookup_ok': lookup_ok}


def block_input(cfg, blk):
    d = dict(cfg)
    d['block'] = blk
    return d


REPRO = ("inc=t2incon(); inc.simulator=<simulator>; inc.timing=<timing>; "
         "inc[name]=t2blockincon(variable,name,porosity,permeability,nseq,nadd); "
         "inc.write(f, reset=<reset>); t2incon(f, num_variables=<numvar>)")


class Recorder(object):
    def __init__(self):
        self.ev = Counter()
        self.fails = []
        self.distinct = set()

    def fail(self, key, what, inp):
        self.fails.append({'key': key, 'what': what, 'input': inp})


# ------------------------------------------------------------------ contracts

def contract_write_pure(before, after):
    if before != after:
        diffs = [k for k in before if before[k] != after[k]]
        return False, 'write() changed the object (%s)' % ', '.join(diffs)
    return True, ''


def contract_file(snap, text, reset, cfg, rec, tag):
    """Own record-by-record reading of the file against the object that was written."""
    rec.ev['file'] += 1
    lines = text.split('\n')
    keep_timing = snap['timing'] is not None and not reset
    nb = len(snap['blocks'])
    ok = True

    reported = set()

    def bad(cat, what, inp=None):
        word = cat.split(' ')[0]
        if word not in reported:                    # one report per category and case
            reported.add(word)
            rec.fail('%s %s' % (cat, tag), what, inp if inp is not None else cfg)

    if not text.endswith('\n'):
        bad('file-no-final-newline', 'file does not end with a newline')
    for ln in lines:
        if len(ln) > 80:
            bad('file-long-line', 'record longer than 80 columns: %r' % ln)
            break
    head = lines[0]
    if not head.startswith('INCON'):
        bad('file-header', 'first record %r does not start with INCON' % head)
    if keep_timing:
        try:
            nele, st = own_int(head[31:36]), own_float(head[55:67])
        except ValueError:
            nele, st = None, None
        if nele != nb or not same_decimals(snap['timing'].get('sumtim'), st, 6):
            bad('file-header', 'long header %r should carry %d elements and time %r' %
                (head, nb, snap['timing'].get('sumtim')))
    i = 1
    tough_react = snap['simulator'] == 'TOUGHREACT'
    for blk in snap['blocks']:
        if i >= len(lines):
            bad('file-truncated', 'file ends before block %r' % blk['name'], block_input(cfg, blk))
            return
        ln = lines[i].ljust(80)
        i += 1
        fname = ln[0:5]
        if not name_equiv(fname, blk['name']):
            bad('file-name %r' % blk['name'], 'record %r names %r, not the block %r' % (ln.rstrip(), fname, blk['name']),
                block_input(cfg, blk))
            ok = False
        try:
            fseq, fadd, fpor = own_int(ln[5:10]), own_int(ln[10:15]), own_float(ln[15:30])
            fk = [own_float(ln[30 + 15 * k:45 + 15 * k]) for k in range(3)]
        except ValueError as e:
            bad('file-unparsable %r' % blk['name'], 'block record %r: %s' % (ln.rstrip(), e), block_input(cfg, blk))
            return
        if fseq != blk['nseq'] or fadd != blk['nadd']:
            bad('file-nseq-nadd %r' % blk['name'], 'record %r holds nseq/nadd %r/%r, object %r/%r' %
                (ln.rstrip(), fseq, fadd, blk['nseq'], blk['nadd']), block_input(cfg, blk))
        if not same_decimals(blk['porosity'], fpor, 9):
            bad('file-porosity %r' % blk['name'], 'record %r holds porosity %r, object %r' %
                (ln.rstrip(), fpor, blk['porosity']), block_input(cfg, blk))
        want = blk['permeability'] if (tough_react and blk['permeability'] is not None) else [None] * 3
        if not all(same_decimals(w, f, 9) for w, f in zip(want, fk)) or ln[75:].strip():
            bad('file-permeability %r' % blk['name'], 'record %r holds permeabilities %r, object %r' %
                (ln.rstrip(), fk, want), block_input(cfg, blk))
        vals = blk['variable']
        nrec = (len(vals) + 3) // 4
        got = []
        for r in range(nrec):
            if i >= len(lines):
                bad('file-truncated', 'file ends inside block %r' % blk['name'], block_input(cfg, blk))
                return
            ln = lines[i]
            i += 1
            expect_n = min(4, len(vals) - 4 * r)
            padded = ln.ljust(80)
            try:
                fv = [own_float(padded[20 * k:20 * k + 20]) for k in range(4)]
            except ValueError as e:
                bad('file-unparsable %r' % blk['name'], 'variable record %r: %s' % (ln, e), block_input(cfg, blk))
                return
            if any(v is None for v in fv[:expect_n]) or any(v is not None for v in fv[expect_n:]) or padded[80:].strip():
                bad('file-variable-layout %r' % blk['name'], 'variable record %d %r should hold exactly %d values' %
                    (r, ln, expect_n), block_input(cfg, blk))
                ok = False
            got += [v for v in fv if v is not None]
        if len(got) == len(vals):
            for k, (a, b) in enumerate(zip(vals, got)):
                if not same_decimals(a, b, 13):
                    bad('file-variable %r[%d]=%r' % (blk['name'], k, a), 'file holds %r for variable %d = %r' % (b, k, a),
                        block_input(cfg, blk))
                    break
    # trailer
    rest = lines[i:]
    if keep_timing:
        if not rest or not rest[0].startswith('+++'):
            bad('file-trailer', "expected '+++' after the last block, found %r" % rest[:1])
        else:
            tl = (rest[1] if len(rest) > 1 else '').ljust(80)
            w = (6, 6, 3) if tough_react else (5, 5, 5)
            p = [0, w[0], w[0] + w[1], sum(w), sum(w) + 15, sum(w) + 30]
            try:
                f = [own_int(tl[p[0]:p[1]]), own_int(tl[p[1]:p[2]]), own_int(tl[p[2]:p[3]]),
                     own_float(tl[p[3]:p[4]]), own_float(tl[p[4]:p[5]])]
            except ValueError:
                f = None
            t = snap['timing']
            if f is None or [f[0], f[1], f[2]] != [t.get('kcyc'), t.get('iter'), t.get('nm')] or \
               not same_decimals(t.get('tstart'), f[3], 9) or not same_decimals(t.get('sumtim'), f[4], 9):
                bad('file-timing', 'timing record %r does not hold %r' % (tl.rstrip(), t))
    else:
        if not rest or rest[0].strip() or any(r.startswith('+++') for r in rest):
            bad('file-trailer', 'expected a blank record (and no timing) after the last block, found %r' % rest[:3])


def contract_reread(snap, snap1, reset, cfg, rec, tag):
    rec.ev['reread'] += 1

    def bad(cat, what, inp=None):
        rec.fail('%s %s' % (cat, tag), what, inp if inp is not None else cfg)

    b0, b1 = snap['blocks'], snap1['blocks']
    n0, n1 = [b['name'] for b in b0], [b['name'] for b in b1]
    if len(n0) != len(n1):
        bad('block-count', '%d blocks written, %d read back' % (len(n0), len(n1)))
    if n0 != n1:
        cats = set()
        for k in range(max(len(n0), len(n1))):
            x = n0[k] if k < len(n0) else None
            y = n1[k] if k < len(n1) else None
            if x == y:
                continue
            cat = 'block-name-zero-padded' if (x is not None and y is not None and zero_padded(x) and name_equiv(x, y)) \
                else 'block-name'
            if cat not in cats:
                cats.add(cat)
                bad('%s %r' % (cat, x), 'block %d is %r after the round trip, was %r' % (k, y, x),
                    block_input(cfg, b0[k]) if k < len(b0) else cfg)
    if not snap1['lookup_ok']:
        bad('lookup', 'name -> block dictionary disagrees with the ordered block list after reading')
    seen = set()
    for x, y in zip(b0, b1):
        if len(x['variable']) != len(y['variable']):
            cat = 'variable-count'
            if cat not in seen:
                seen.add(cat)
                bad('%s %r' % (cat, x['name']), '%d variables written, %d read back (%r)' %
                    (len(x['variable']), len(y['variable']), y['variable']), block_input(cfg, x))
        else:
            for k, (a, b) in enumerate(zip(x['variable'], y['variable'])):
                if not same_decimals(a, b, 13):
                    cat = 'variable'
                    if cat not in seen:
                        seen.add(cat)
                        bad('%s %r[%d]=%r' % (cat, x['name'], k, a), 'variable %d = %r read back as %r' % (k, a, b),
                            block_input(cfg, x))
                    break
        if not same_decimals(x['porosity'], y['porosity'], 9) and 'porosity' not in seen:
            seen.add('porosity')
            bad('porosity %r %r' % (x['name'], x['porosity']), 'porosity %r read back as %r' % (x['porosity'], y['porosity']),
                block_input(cfg, x))
        px, py = x['permeability'], y['permeability']
        if ((px is None) != (py is None) or (px is not None and
           (len(px) != len(py) or not all(same_decimals(a, b, 9) for a, b in zip(px, py))))) and 'perm' not in seen:
            seen.add('perm')
            bad('permeability %r %r' % (x['name'], px), 'permeability %r read back as %r' % (px, py), block_input(cfg, x))
        if (x['nseq'], x['nadd']) != (y['nseq'], y['nadd']) and 'nseq' not in seen:
            seen.add('nseq')
            bad('nseq-nadd %r %r/%r' % (x['name'], x['nseq'], x['nadd']), 'nseq/nadd %r/%r read back as %r/%r' %
                (x['nseq'], x['nadd'], y['nseq'], y['nadd']), block_input(cfg, x))
    if snap['simulator'] != snap1['simulator']:
        bad('simulator %s' % snap['simulator'], 'simulator %r read back as %r' % (snap['simulator'], snap1['simulator']))
    t0, t1 = snap['timing'], snap1['timing']
    if t0 is not None and not reset:
        okt = t1 is not None and all(t0.get(k) == t1.get(k) for k in ('kcyc', 'iter', 'nm')) and \
            all(same_decimals(t0.get(k), t1.get(k), 9) for k in ('tstart', 'sumtim'))
        if not okt:
            bad('timing-kept %s' % snap['simulator'], 'timing %r read back as %r' % (t0, t1))
    else:
        if t1 is not None:
            bad('timing-reset', 'timing %r appears after writing with timing=%r reset=%r' % (t1, t0, reset))


# ------------------------------------------------------------------ one round trip

def round_trip(inc, reset, numvar, cfg, rec, tag, tmpdir, allow_unchecked_names=False):
    f1 = os.path.join(tmpdir, 'a_%d.incon' % os.getpid())
    f2 = os.path.join(tmpdir, 'b_%d.incon' % os.getpid())
    snap = snapshot(inc)
    try:
        inc.write(f1, reset=reset)
    except Exception as e:
        rec.ev['file'] += 1
        rec.fail('write-exception ' + tag, 'write raises %s: %s' % (type(e).__name__, e), cfg)
        return
    rec.ev['write-pure'] += 1
    ok, detail = contract_write_pure(snap, snapshot(inc))
    if not ok:
        rec.fail('write-impure ' + tag, detail, cfg)
    with open(f1, newline='') as fh:
        text1 = fh.read()
    contract_file(snap, text1, reset, cfg, rec, tag)
    try:
        inc1 = t2incons.t2incon(f1, num_variables=numvar)
    except Exception as e:
        rec.ev['reread'] += 1
        msg = '%s: %s' % (type(e).__name__, e)
        if 'Invalid block name' in str(e):
            rec.fail('read-rejects-name %s' % tag, 'reading the file just written raises ' + msg.replace(f1, '<file>'), cfg)
            try:
                inc1 = t2incons.t2incon(f1, num_variables=numvar, check_blocknames=False)
            except Exception as e2:
                rec.fail('read-exception ' + tag, 'reading (names unchecked) raises %s: %s' % (type(e2).__name__, e2), cfg)
                return
        else:
            rec.fail('read-exception ' + tag, 'reading the file just written raises ' + msg.replace(f1, '<file>'), cfg)
            return
    snap1 = snapshot(inc1)
    contract_reread(snap, snap1, reset, cfg, rec, tag)
    rec.ev['bytes'] += 1
    try:
        inc1.write(f2, reset=reset)
        with open(f2, newline='') as fh:
            text2 = fh.read()
        if text1 != text2:
            l1, l2 = text1.split('\n'), text2.split('\n')
            k = next((i for i, (x, y) in enumerate(zip(l1, l2)) if x != y), min(len(l1), len(l2)))
            rec.fail('bytes-differ ' + tag, 'second write differs at record %d: %r vs %r' %
                     (k, l1[k] if k < len(l1) else None, l2[k] if k < len(l2) else None), cfg)
    except Exception as e:
        rec.fail('rewrite-exception ' + tag, 'writing the re-read object raises %s: %s' % (type(e).__name__, e), cfg)


# ------------------------------------------------------------------ generated cases

_name_cache = {}


def convention_names(conv, atm, case, nx, ny, nz):
    key = (conv, atm, case, nx, ny, nz)
    if key not in _name_cache:
        with contextlib.redirect_stdout(io.StringIO()):
            geo = mulgrids.mulgrid().rectangular([10.] * nx, [10.] * ny, [5.] * nz, convention=conv,
                                                 atmos_type=atm, case=case)
        _name_cache[key] = list(geo.block_name_list)
    return _name_cache[key]


def shipped_geometry_names(k):
    key = ('g', k)
    if key not in _name_cache:
        with contextlib.redirect_stdout(io.StringIO()):
            geo = mulgrids.mulgrid(os.path.join(REPO, 'tests', 'mulgrid', 'g%d.dat' % k))
        _name_cache[key] = list(geo.block_name_list)
    return _name_cache[key]


def gen_value(rnd, style):
    if style == 'pressure':
        return rnd.uniform(0.5, 300.) * 1.e5
    if style == 'temperature':
        return rnd.uniform(1., 350.)
    if style == 'fraction':
        return rnd.random()
    if style == 'zero':
        return 0.0
    if style == 'short':
        return rnd.choice([1.0, 20.0, 1.013e5, 0.5, 10.25, 1.e-6, 1.e6, 15.0, 0.999])
    if style == 'negative':
        return -rnd.uniform(1., 10.) * 10.0 ** rnd.randint(-99, 99)
    if style == 'exp3':                       # positive, three-digit exponent
        e = rnd.choice([-1, 1]) * rnd.randint(100, 290)
        return rnd.uniform(1., 10.) * 10.0 ** e
    if style == 'roundup':                    # mantissa rounding carries into the exponent
        return rnd.choice([9.99999999999996, 9.99999999999995e-5, 9.999999999999999e+99, 0.99999999999999999, 9.99999999999997e8])
    if style == 'negative-roundup':
        return -rnd.choice([9.99999999999996, 9.99999999999996e-10, 9.99999999999996e+98])
    if style == 'tie':                        # 14th decimal is a 5
        return float(('%.13e' % (rnd.uniform(1., 10.) * 10.0 ** rnd.randint(-20, 20))).replace('e', '5e'))
    raise ValueError(style)


VALUE_STYLES = ['pressure', 'temperature', 'fraction', 'zero', 'short', 'negative', 'exp3', 'roundup',
                'negative-roundup', 'tie']


def make_spec(rnd, idx, tier, kind='main'):
    """A JSON-able description of an initial-condition set (this is the reproduction)."""
    big = tier == 'thorough'
    # the configuration product is enumerated from the case number, the rest is drawn
    nvars = 1 + idx % 12
    timing_present = (idx // 12) % 2 == 0
    reset = (idx // 24) % 2 == 1
    react = (idx // 48) % 2 == 1
    conv = (idx // 96) % 4
    atm = (idx // 384) % 3
    case = rnd.choice([None, 'u', 'l'])
    src = 'convention'
    if rnd.random() < 0.12:
        src = 'shipped-geometry'
    nblocks = rnd.choice([0, 1, 2, 3, 4, 7, 12, 25] + ([60, 150, 400] if big else [40]))
    if src == 'convention':
        # enough columns / layers for two- and three-digit numeric parts
        # (convention 1 holds at most 99 nodes, convention 2 at most 999)
        nx, ny, nz = rnd.choice([(3, 2, 3), (4, 3, 12), {0: (6, 5, 11), 1: (10, 8, 3), 2: (12, 9, 3), 3: (6, 5, 11)}[conv]])
        allnames = convention_names(conv, atm, case, nx, ny, nz)
        geo = {'names': 'mulgrid().rectangular', 'convention': conv, 'atmos_type': atm, 'case': case, 'nx': nx, 'ny': ny, 'nz': nz}
    else:
        k = rnd.randint(1, 7)
        allnames = shipped_geometry_names(k)
        geo = {'names': 'tests/mulgrid/g%d.dat block_name_list' % k}
        conv = 'g%d' % k
    if nblocks >= len(allnames):
        names = list(allnames)
    else:
        mode = rnd.choice(['head', 'tail', 'sample'])
        if mode == 'head':
            names = allnames[:nblocks]
        elif mode == 'tail':
            names = allnames[len(allnames) - nblocks:]
        else:
            names = [allnames[i] for i in sorted(rnd.sample(range(len(allnames)), nblocks))]
    styles = [rnd.choice(VALUE_STYLES) for _ in range(nvars)]
    pormode = rnd.choice(['none', 'exact', 'any', 'mixed'])
    seqmode = rnd.choice(['none', 'none', 'both', 'nseq', 'nadd', 'mixed'])
    simulator = 'TOUGHREACT' if react else 'TOUGH2'
    permmode = 'none'
    if simulator == 'TOUGHREACT':
        permmode = rnd.choice(['all', 'all', 'some'])
        if not names:
            simulator = 'TOUGH2'
            permmode = 'none'
    if kind == 'toughreact-noperm':
        simulator, permmode = 'TOUGHREACT', 'none'
    if kind == 'neg3exp':
        styles = [rnd.choice(['neg3exp', 'pressure']) for _ in range(nvars)]
        styles[rnd.randrange(nvars)] = 'neg3exp'
        if not names:
            names = allnames[:2]
    blocks = []
    for j, nm in enumerate(names):
        var = []
        for s in styles:
            if s == 'neg3exp':
                e = rnd.choice([-1, 1]) * rnd.randint(100, 290)
                var.append(-float('%.13e' % rnd.uniform(1.1, 9.9)) * 10.0 ** e)
            else:
                var.append(gen_value(rnd, s))
        pm = pormode if pormode != 'mixed' else rnd.choice(['none', 'exact', 'any'])
        por = None if pm == 'none' else (rnd.choice([0.1, 0.25, 0.0, 0.123456789, 1.0, 0.01]) if pm == 'exact' else rnd.random())
        sm = seqmode if seqmode != 'mixed' else rnd.choice(['none', 'both', 'nseq', 'nadd'])
        nseq = rnd.choice([0, 1, 9, 10, 99999, 123, -1, -9999]) if sm in ('both', 'nseq') else None
        nadd = rnd.choice([0, 1, 5, 100, 99999, -9999]) if sm in ('both', 'nadd') else None
        perm = None
        if permmode == 'all' or (permmode == 'some' and (j == 0 or rnd.random() < 0.5)):
            perm = [rnd.choice([1.e-15, 6.51e-14, 0.0, 1.23456789e-12, rnd.uniform(1., 10.) * 10.0 ** rnd.randint(-20, -9)]) for _ in range(3)]
        blocks.append({'name': nm, 'variable': var, 'porosity': por, 'permeability': perm, 'nseq': nseq, 'nadd': nadd})
    timing = None
    if timing_present:
        wide = simulator == 'TOUGHREACT'
        timing = {'kcyc': rnd.choice([0, 1, 30, 99999] + ([999999, 100000] if wide else [])),
                  'iter': rnd.choice([0, 7, 145, 99999] + ([999999, 123456] if wide else [])),
                  'nm': rnd.choice([0, 1, 34, 999] + ([] if wide else [99999, 1000])),
                  'tstart': rnd.choice([0.0, 1.e9, rnd.uniform(0, 1e12)]),
                  'sumtim': rnd.choice([0.0, 1.06496e16, 52710.494, rnd.uniform(0, 1e17), 1.e-3, 9.9999999996e11])}
    numvar = nvars if (nvars > 4 or rnd.random() < 0.5) else None
    return {'kind': kind, 'id': idx, 'geometry': geo, 'simulator': simulator, 'timing': timing, 'reset': reset,
            'num_variables': numvar, 'nvars': nvars, 'styles': styles, 'blocks': blocks, 'how': REPRO}


def build(spec):
    inc = t2incons.t2incon()
    inc.simulator = spec['simulator']
    for b in spec['blocks']:
        perm = None if b['permeability'] is None else np.array(b['permeability'])
        inc[b['name']] = t2incons.t2blockincon(list(b['variable']), b['name'], b['porosity'], perm, b['nseq'], b['nadd'])
    inc.timing = None if spec['timing'] is None else dict(spec['timing'])
    return inc


def spec_cfg(spec):
    return {'kind': spec['kind'], 'geometry': spec['geometry'], 'simulator': spec['simulator'], 'timing': spec['timing'],
            'reset': spec['reset'], 'num_variables': spec['num_variables'], 'nblocks': len(spec['blocks']),
            'nvars': spec['nvars'], 'how': REPRO}


def spec_tag(spec):
    g = spec['geometry']
    conv = 'conv%s' % g['convention'] if 'convention' in g else g['names'].split('/')[-1].split('.')[0]
    perm = 'perm' if any(b['permeability'] is not None for b in spec['blocks']) else 'noperm'
    t = 'notiming' if spec['timing'] is None else ('timing-reset' if spec['reset'] else 'timing-kept')
    kind = '' if spec['kind'] == 'main' else spec['kind'] + ' '
    return '[%s%s %s %s %s nb=%d nv=%d numvar=%s #%d]' % (kind, conv, spec['simulator'], perm, t, len(spec['blocks']),
                                                         spec['nvars'], spec['num_variables'], spec['id'])


def descriptor(spec):
    b = spec['blocks']
    return (spec['kind'], spec_tag(spec).split(' #')[0],
            tuple(sorted(set(spec['styles']))),
            any(x['porosity'] is None for x in b), any(x['porosity'] is not None for x in b),
            any(x['nseq'] is not None for x in b), any(x['nadd'] is not None for x in b),
            # names the simulator prints differently (digit-0-digit -> digit-blank-digit)
            any(x['name'][2].isdigit() and x['name'][3] == '0' and x['name'][4].isdigit() for x in b))


# ------------------------------------------------------------------ shipped files

SHIPPED = [('AUTOUGH2/1/case1.incon', None, 1), ('AUTOUGH2/2/case2.incon', None, 1), ('AUTOUGH2/3/case3.incon', None, 1),
           ('TOUGH2/1/case1.incon', None, 1), ('TOUGH2/2/INCON', 6, 2), ('TOUGH2/3/test.incon', None, 1),
           ('TOUGHREACT/1/SAVE_1', None, 1)]


def own_parse_shipped(path, nrec):
    """Own reading of a shipped file (nrec variable records per block, known per file)."""
    with open(path) as fh:
        lines = fh.read().split('\n')
    blocks, i, timing, react = [], 1, None, False
    while i < len(lines) and lines[i].strip() and not lines[i].startswith('+++'):
        ln = lines[i].ljust(80)
        i += 1
        k = [own_float(ln[30 + 15 * j:45 + 15 * j]) for j in range(3)]
        perm = k if all(v is not None for v in k) else None
        react = react or perm is not None
        var = []
        for r in range(nrec):
            vl = lines[i].ljust(80)
            i += 1
            var += [v for v in (own_float(vl[20 * j:20 * j + 20]) for j in range(4)) if v is not None]
        blocks.append({'name': ln[0:5], 'variable': var, 'porosity': own_float(ln[15:30]), 'permeability': perm,
                       'nseq': own_int(ln[5:10]), 'nadd': own_int(ln[10:15])})
    if i < len(lines) and lines[i].startswith('+++') and i + 1 < len(lines) and lines[i + 1].strip():
        tl = lines[i + 1].ljust(80)
        w = (6, 6, 3) if react else (5, 5, 5)
        p = [0, w[0], w[0] + w[1], sum(w), sum(w) + 15, sum(w) + 30]
        timing = {'kcyc': own_int(tl[p[0]:p[1]]), 'iter': own_int(tl[p[1]:p[2]]), 'nm': own_int(tl[p[2]:p[3]]),
                  'tstart': own_float(tl[p[3]:p[4]]), 'sumtim': own_float(tl[p[4]:p[5]])}
    return {'simulator': 'TOUGHREACT' if react else 'TOUGH2', 'timing': timing, 'blocks': blocks}


def run_shipped(rel, numvar, nrec, rec, tmpdir):
    path = os.path.join(REPO, 'tests', 'incon', rel)
    cfg = {'file': 'tests/incon/' + rel, 'num_variables': numvar}
    tag = '[shipped %s]' % rel
    rec.ev['shipped-read'] += 1
    try:
        inc = t2incons.t2incon(path, num_variables=numvar)
    except Exception as e:
        rec.fail('shipped-read-exception ' + tag, '%s: %s' % (type(e).__name__, e), cfg)
        return
    snap = snapshot(inc)
    own = own_parse_shipped(path, nrec)
    # duplicates in a file overwrite (dictionary semantics): compare against the last occurrence, in first-seen order
    order, last = [], {}
    for b in own['blocks']:
        key = name_canon(b['name'])
        if key not in last:
            order.append(key)
        last[key] = b
    ownblocks = [last[k] for k in order]
    if len(ownblocks) != len(snap['blocks']):
        rec.fail('shipped-read-count ' + tag, 'own parse finds %d blocks, t2incon %d' % (len(ownblocks), len(snap['blocks'])), cfg)
    for a, b in zip(ownblocks, snap['blocks']):
        same = name_equiv(a['name'], b['name']) and quirk_free(b['name']) and a['variable'] == b['variable'] and \
            a['porosity'] == b['porosity'] and a['permeability'] == b['permeability'] and \
            (a['nseq'], a['nadd']) == (b['nseq'], b['nadd'])
        if not same:
            rec.fail('shipped-read-block %r %s' % (a['name'], tag), 'file block %r read as %r' % (a, b), cfg)
            break
    if own['simulator'] != snap['simulator'] or own['timing'] != snap['timing']:
        rec.fail('shipped-read-trailer ' + tag, 'own parse %r / %r, t2incon %r / %r' %
                 (own['simulator'], own['timing'], snap['simulator'], snap['timing']), cfg)
    for reset in (False, True):
        c = dict(cfg)
        c['reset'] = reset
        round_trip(inc, reset, numvar, c, rec, '[shipped %s reset=%s]' % (rel, reset), tmpdir)
        rec.distinct.add(('shipped', rel, reset))


# ------------------------------------------------------------------ workers

class _Timeout(BaseException):
    pass


class _Deadline(object):
    armed = False


def _alarm(signum, frame):
    if _Deadline.armed:
        raise _Timeout()


def _disarm():
    while True:
        try:
            _Deadline.armed = False
            signal.setitimer(signal.ITIMER_REAL, 0)
            return
        except _Timeout:
            continue


def with_deadline(seconds, fn):
    """Runs fn(); returns False if it did not return in time.  The timer keeps firing (every
    0.1 s after the deadline) because the library's number readers contain bare `except:`
    clauses that swallow an exception raised from a signal handler."""
    signal.signal(signal.SIGALRM, _alarm)
    try:
        try:
            _Deadline.armed = True
            signal.setitimer(signal.ITIMER_REAL, seconds, 0.1)
            fn()
            return True
        finally:
            _disarm()
    except _Timeout:
        _disarm()
        return False


def worker(task):
    kind, payload, tier, seed, tmpdir = task
    rec = Recorder()
    sample = None
    with contextlib.redirect_stdout(io.StringIO()):
        if kind == 'shipped':
            rel, numvar, nrec = payload
            def ship():
                try:
                    run_shipped(rel, numvar, nrec, rec, tmpdir)
                except Exception as e:
                    rec.fail('exception [shipped %s]' % rel, 'unexpected %s: %s' % (type(e).__name__, e),
                             {'file': 'tests/incon/' + rel, 'num_variables': numvar})
            if not with_deadline(SHIPPED_TIMEOUT, ship):
                rec.fail('timeout [shipped %s]' % rel, 'no result after %d s' % SHIPPED_TIMEOUT,
                         {'file': 'tests/incon/' + rel, 'num_variables': numvar})
        else:
            lo, hi, sub = payload
            ntimeouts = 0
            for idx in range(lo, hi):
                rnd = random.Random((seed * 1000003 + idx) * 7 + {'main': 0, 'toughreact-noperm': 1, 'neg3exp': 2}[sub])
                spec = make_spec(rnd, idx, tier, sub)

                def one():
                    try:
                        inc = build(spec)
                        round_trip(inc, spec['reset'], spec['num_variables'], spec_cfg(spec), rec, spec_tag(spec), tmpdir)
                    except Exception as e:
                        import traceback
                        c = spec_cfg(spec)
                        c['blocks'] = spec['blocks'][:3]
                        rec.fail('exception ' + spec_tag(spec), 'unexpected %s: %s (%s)' %
                                 (type(e).__name__, e, traceback.format_exc().strip().split('\n')[-3].strip()), c)
                if not with_deadline(CASE_TIMEOUT, one):
                    ntimeouts += 1
                    c = spec_cfg(spec)
                    c['blocks'] = spec['blocks'][:3]
                    rec.fail('timeout ' + spec_tag(spec), 'write/read/write does not return within %d s' % CASE_TIMEOUT, c)
                rec.distinct.add(descriptor(spec))
                if sample is None and sub == 'main' and idx % 97 == 0 and spec['blocks']:
                    s = spec_cfg(spec)
                    s['first_block'] = spec['blocks'][0]
                    sample = s
                if ntimeouts >= 2:       # keep the harness inside its budget when the code under test hangs
                    rec.fail('timeout-abort [cases %d..%d %s]' % (idx + 1, hi - 1, sub),
                             'two cases of this batch timed out; the rest of the batch was not run', {'batch': [lo, hi, sub]})
                    break
    return dict(rec.ev), rec.fails, rec.distinct, sample


def main():
    tier = sys.argv[1] if len(sys.argv) > 1 else 'quick'
    seed = int(sys.argv[2]) if len(sys.argv) > 2 else 0
    t0 = time.time()
    tmpdir = tempfile.mkdtemp(prefix='pytough-', dir=os.environ.get('PYTOUGH_SCRATCH', '/var/tmp'))
    try:
        nmain = 3456 if tier == 'quick' else 138240
        nside = 60 if tier == 'quick' else 1200
        chunk = 48 if tier == 'quick' else 480
        tasks = [('shipped', s, tier, seed, tmpdir) for s in SHIPPED]
        for lo in range(0, nmain, chunk):
            tasks.append(('gen', (lo, min(lo + chunk, nmain), 'main'), tier, seed, tmpdir))
        for sub in ('toughreact-noperm', 'neg3exp'):
            for lo in range(0, nside, chunk):
                tasks.append(('gen', (lo, min(lo + chunk, nside), sub), tier, seed, tmpdir))
        with mp.Pool(min(16, os.cpu_count() or 1)) as pool:
            results = pool.map(worker, tasks, chunksize=1)
        ev, fails, distinct, samples = Counter(), [], set(), []
        for e, f, d, s in results:
            ev.update(e)
            fails += f
            distinct |= d
            if s is not None and len(samples) < 4:
                samples.append(s)
        def klass(f):
            key = f['key']
            pop = next((p for p in ('toughreact-noperm', 'neg3exp', 'shipped') if '[' + p + ' ' in key), 'main')
            return key.split(' ')[0] + '/' + pop
        shown, percat = [], Counter()
        for f in fails:
            if percat[klass(f)] < PER_CLASS_CAP and len(shown) < 60:
                shown.append(f)
            percat[klass(f)] += 1
        out = {'evaluations': sum(ev.values()), 'distinct': len(distinct), 'failures': shown, 'nfailures': len(fails),
               'samples': samples, 'seconds': time.time() - t0, 'evaluations_by_contract': dict(ev),
               'failures_by_category_and_population': dict(percat)}
    finally:
        shutil.rmtree(tmpdir, ignore_errors=True)
    print('@@JSON@@' + json.dumps(out))


if __name__ == '__main__':
    main()
