"""C03 bounded stand-in: MULgraph geometry file write/read round trip.

Contracts (evaluated on the real mulgrid code, counted separately):
  write-pure  write() leaves the geometry unchanged
  file        the file written holds, record by record (own column tokenizer with an own table of
              the MULgraph layout), the header options, nodes, columns (node order, centre flag and
              centre), connections, layers, the non-default surface elevations and the well
              tracks, in order, in FILE units (metres, or feet = metres / 0.3048 for a FEET
              geometry) to the decimals of the field
  reread      mulgrid(file) gives the same header options, nodes, columns (node order, specified
              centre; an unspecified centre is the centroid of the re-read nodes by an own formula),
              connections, layers (tops follow the bottoms), surfaces, wells, in the same order, in
              METRES, within half a unit of the last decimal the field carries (x 0.3048 for
              feet), identical block_name_list / block_connection_name_list, name dictionaries that
              agree with the lists
  bytes       writing the re-read geometry reproduces the first file byte for byte

Input space: rectangular geometries with random spacings (optionally refined in part and rotated),
the seven shipped geometries and translate / rotate / refine / reduce derivatives, the two shipped
gmsh meshes; 4 naming conventions x 3 atmosphere types x 2 units x 3 block orders; 0..all
columns with surface elevations; 0..N wells with 2..6 points; upper / lower case right-justified
names; coordinates up to the ten-column limit.

Well tracks are compared to the ONE decimal their field (F10.1) carries; everything else to two.
A case is skipped (and counted under `skipped_outside_quantifier`) when a coordinate does not fit
ten columns, or when cutting a column surface and a layer bottom to two decimals would change their
order (that changes which blocks exist, so the derived name lists cannot be the same).

usage: c03_geofile.py <tier> <seed>
"""
import sys, os, json, time, random, math, tempfile, shutil, signal, io, contextlib, traceback
import multiprocessing as mp
from collections import Counter

REPO = os.environ.get('PYTOUGH_REPO', '/repo')
sys.dont_write_bytecode = True          # never write inside the checkout
sys.path.insert(0, REPO)
import warnings
warnings.filterwarnings('ignore')
import numpy as np
import mulgrids

RECT_TIMEOUT = 20         # seconds per generated case (each takes a fraction of a second)
SHIPPED_TIMEOUT = 120     # seconds per shipped-geometry case (each takes a few seconds)
PER_CLASS_CAP = 3         # failures listed per (category, population); all are counted
FT = 0.3048
BLOCK_ORDER_CODE = {None: None, 'layer_column': 0, 'dmplex': 1}     # MULgraph header, own table


# ------------------------------------------------------------------ snapshot of a geometry

def flt(v):
    return None if v is None else float(v)


def snapshot(geo):
    """Plain-data copy of everything the property talks about."""
    s = {}
    s['header'] = {'type': geo.type, 'convention': geo.convention, 'atmosphere_type': geo.atmosphere_type,
                   'atmosphere_volume': flt(geo.atmosphere_volume), 'atmosphere_connection': flt(geo.atmosphere_connection),
                   'unit_type': geo.unit_type, 'unit_scale': flt(geo.unit_scale), 'gdcx': flt(geo.gdcx), 'gdcy': flt(geo.gdcy),
                   'permeability_angle': flt(geo.permeability_angle), 'block_order': geo.block_order}
    s['nodes'] = [[n.name, float(n.pos[0]), float(n.pos[1])] for n in geo.nodelist]
    cols = []
    for c in geo.columnlist:
        cols.append({'name': c.name, 'nodes': [n.name for n in c.node], 'centre_specified': int(c.centre_specified),
                     'centre': [float(c.centre[0]), float(c.centre[1])], 'default_surface': bool(c.default_surface),
                     'surface': flt(c.surface), 'num_layers': int(c.num_layers),
                     'neighbours': sorted(x.name for x in c.neighbour)})
    s['columns'] = cols
    s['connections'] = [[con.column[0].name, con.column[1].name,
                         None if con.node is None else [n.name for n in con.node]] for con in geo.connectionlist]
    s['layers'] = [[l.name, float(l.bottom), float(l.centre), float(l.top)] for l in geo.layerlist]
    s['wells'] = [[w.name, [[float(x) for x in p] for p in w.pos]] for w in geo.welllist]
    s['block_name_list'] = list(geo.block_name_list)
    s['block_connection_name_list'] = [list(c) for c in geo.block_connection_name_list]
    s['dicts_ok'] = {
        'node': len(geo.node) == len(geo.nodelist) and all(geo.node.get(n.name) is n for n in geo.nodelist),
        'column': len(geo.column) == len(geo.columnlist) and all(geo.column.get(c.name) is c for c in geo.columnlist),
        'layer': len(geo.layer) == len(geo.layerlist) and all(geo.layer.get(l.name) is l for l in geo.layerlist),
        'well': len(geo.well) == len(geo.welllist) and all(geo.well.get(w.name) is w for w in geo.welllist),
        'connection': len(geo.connection) == len(geo.connectionlist) and
        all(geo.connection.get((c.column[0].name, c.column[1].name)) is c for c in geo.connectionlist),
        'block_name_index': geo.block_name_index == dict((b, i) for i, b in enumerate(geo.block_name_list)),
    }
    return s


def own_centroid(pts):
    """Centroid of a polygon by a triangle fan about its first vertex."""
    x0, y0 = pts[0]
    if len(pts) < 3:
        return [sum(p[0] for p in pts) / len(pts), sum(p[1] for p in pts) / len(pts)]
    A = cx = cy = 0.0
    for (x1, y1), (x2, y2) in zip(pts[1:-1], pts[2:]):
        a = 0.5 * ((x1 - x0) * (y2 - y0) - (x2 - x0) * (y1 - y0))
        A += a
        cx += a * ((x1 - x0) + (x2 - x0)) / 3.0
        cy += a * ((y1 - y0) + (y2 - y0)) / 3.0
    if A == 0.0:
        return None
    return [x0 + cx / A, y0 + cy / A]


def field_ok(v, decimals=2, width=10):
    """The value fits its F field with all its decimals."""
    return len('%.*f' % (decimals, v)) <= width


def precondition(snap):
    """The quantifier's side conditions, on the geometry about to be written (own arithmetic):
    coordinates within the ten-column limit in file units; no column surface so close to a layer
    bottom that cutting both to the two decimals of the file changes their order (that would
    change which blocks exist)."""
    s = snap['header']['unit_scale']
    for name, x, y in snap['nodes']:
        if not (field_ok(x / s) and field_ok(y / s)):
            return 'node coordinate beyond the 10-column field'
    for c in snap['columns']:
        if c['centre_specified'] and not (field_ok(c['centre'][0] / s) and field_ok(c['centre'][1] / s)):
            return 'column centre beyond the 10-column field'
        if not c['default_surface'] and not field_ok(c['surface'] / s):
            return 'surface beyond the 10-column field'
    for name, bottom, centre, top in snap['layers']:
        if not (field_ok(bottom / s) and field_ok(centre / s)):
            return 'layer elevation beyond the 10-column field'
    for name, pos in snap['wells']:
        if len(name) != 5:
            return 'well name is not 5 characters wide'
        for p in pos:
            if not all(field_ok(v / s, 1) for v in p):
                return 'well coordinate beyond the 10-column field'
    # which layers a column has (surface above the layer bottom) must not depend on the two decimals
    def two(v):
        return float('%.2f' % (v / s))
    bottoms = [(l[1], two(l[1])) for l in snap['layers']]
    seen = {}
    for c in snap['columns']:
        v = c['surface']
        if v not in seen:
            v2 = two(v)
            seen[v] = all((v > b) == (v2 > b2) for b, b2 in bottoms)
        if not seen[v]:
            return 'a surface and a layer bottom change order when cut to two decimals'
    return None


# ------------------------------------------------------------------ own reader of a MULgraph file

class FileError(Exception):
    pass


def f_float(s, what):
    t = s.strip()
    if not t:
        return None
    try:
        return float(t)
    except ValueError:
        raise FileError('%s: %r is not a number' % (what, s))


def f_int(s, what):
    t = s.strip()
    if not t:
        return None
    try:
        return int(t)
    except ValueError:
        raise FileError('%s: %r is not an integer' % (what, s))


def own_parse(text):
    lines = text.split('\n')
    if not text.endswith('\n'):
        raise FileError('file does not end with a newline')
    for ln in lines:
        if len(ln) > 80:
            raise FileError('record longer than 80 columns: %r' % ln)
    h = lines[0].ljust(80)
    out = {'header': {'type': h[0:5], 'convention': f_int(h[5:6], 'convention'), 'atmosphere_type': f_int(h[6:7], 'atmosphere type'),
                      'atmosphere_volume': f_float(h[7:17], 'atmosphere volume'),
                      'atmosphere_connection': f_float(h[17:27], 'atmosphere connection'),
                      'unit': h[27:32], 'gdcx': f_float(h[32:42], 'gdcx'), 'gdcy': f_float(h[42:52], 'gdcy'),
                      'cntype': f_int(h[52:53], 'cntype'), 'permeability_angle': f_float(h[53:63], 'permeability angle'),
                      'block_order': f_int(h[63:65], 'block order'), 'rest': h[65:].strip()},
           'sections': [], 'nodes': [], 'columns': [], 'connections': [], 'layers': [], 'surface': None, 'wells': None}
    i = 1
    while i < len(lines) and lines[i].strip():
        key = lines[i].strip()[0:5].rstrip()
        i += 1
        out['sections'].append(key)
        body = []
        while i < len(lines) and lines[i].strip():
            body.append(lines[i])
            i += 1
        i += 1      # the blank record that ends the section
        if key == 'VERTI':
            for ln in body:
                p = ln.ljust(80)
                out['nodes'].append([p[0:3], f_float(p[3:13], 'node x'), f_float(p[13:23], 'node y')])
        elif key == 'GRID':
            j = 0
            while j < len(body):
                p = body[j].ljust(80)
                nn = f_int(p[4:6], 'column node count')
                if nn is None or j + nn > len(body) - 1:
                    raise FileError('column record %r announces %r nodes, section ends first' % (body[j], nn))
                col = {'name': p[0:3], 'centre_specified': f_int(p[3:4], 'centre flag'), 'num_nodes': nn,
                       'centre': [f_float(p[6:16], 'column centre x'), f_float(p[16:26], 'column centre y')],
                       'nodes': [b.ljust(3)[0:3] for b in body[j + 1:j + 1 + nn]]}
                out['columns'].append(col)
                j += 1 + nn
        elif key == 'CONNE':
            for ln in body:
                p = ln.ljust(80)
                out['connections'].append([p[0:3], p[3:6]])
        elif key == 'LAYER':
            for ln in body:
                p = ln.ljust(80)
                out['layers'].append([p[0:3], f_float(p[3:13], 'layer bottom'), f_float(p[13:23], 'layer centre')])
        elif key in ('SURFA', 'SURF'):
            out['surface'] = []
            for ln in body:
                p = ln.ljust(80)
                out['surface'].append([p[0:3], f_float(p[3:13], 'surface elevation')])
        elif key == 'WELLS':
            out['wells'] = []
            for ln in body:
                p = ln.ljust(80)
                out['wells'].append([p[0:5], f_float(p[5:15], 'well x'), f_float(p[15:25], 'well y'), f_float(p[25:35], 'well z')])
        else:
            raise FileError('unknown section %r' % key)
    return out


# ------------------------------------------------------------------ contracts

class Recorder(object):
    def __init__(self):
        self.ev = Counter()
        self.fails = []
        self.distinct = set()
        self.skipped = Counter()

    def fail(self, key, what, inp):
        self.fails.append({'key': key, 'what': what, 'input': inp})


def close(a, b, tol):
    if a is None or b is None:
        return a is None and b is None
    return abs(a - b) <= tol + 1e-9 * max(1.0, abs(a))


def sig3(a, b):
    """Equal to the three significant figures of an E10.2 field."""
    if a is None or b is None:
        return a is None and b is None
    if a == b:
        return True
    if a == 0:
        return False
    e = math.floor(math.log10(abs(a)))
    return abs(a - b) <= 0.5 * 10.0 ** (e - 2) + 4 * math.ulp(a)


def contract_write_pure(before, after):
    if before != after:
        return False, 'write() changed the geometry (%s)' % ', '.join(k for k in before if before[k] != after[k])
    return True, ''


def contract_file(snap, text, cfg, rec, tag):
    rec.ev['file'] += 1
    reported = set()

    def bad(cat, what):
        if cat.split(' ')[0] not in reported:
            reported.add(cat.split(' ')[0])
            rec.fail('%s %s' % (cat, tag), what, cfg)

    try:
        f = own_parse(text)
    except FileError as e:
        bad('file-unparsable', str(e))
        return
    hd, fh = snap['header'], f['header']
    s = hd['unit_scale']
    tol, wtol = 0.005, 0.05
    want_unit = hd['unit_type'].strip()
    if fh['type'] != 'GENER' or fh['convention'] != hd['convention'] or fh['atmosphere_type'] != hd['atmosphere_type']:
        bad('file-header-flags', 'header %r should carry type GENER, convention %r, atmosphere type %r' %
            (text.split('\n')[0], hd['convention'], hd['atmosphere_type']))
    if not sig3(hd['atmosphere_volume'], fh['atmosphere_volume']) or not sig3(hd['atmosphere_connection'], fh['atmosphere_connection']):
        bad('file-header-atmosphere', 'header holds atmosphere volume / connection %r / %r, geometry %r / %r' %
            (fh['atmosphere_volume'], fh['atmosphere_connection'], hd['atmosphere_volume'], hd['atmosphere_connection']))
    if fh['unit'].strip() != want_unit:
        bad('file-header-unit %r' % hd['unit_type'], 'header unit field is %r for a geometry with unit_type %r' % (fh['unit'], hd['unit_type']))
    if not close(hd['permeability_angle'], fh['permeability_angle'], tol):
        bad('file-header-angle', 'header holds permeability angle %r, geometry %r' % (fh['permeability_angle'], hd['permeability_angle']))
    if fh['block_order'] != BLOCK_ORDER_CODE.get(hd['block_order'], 'unknown'):
        bad('file-header-block-order %s' % hd['block_order'], 'header holds block order flag %r for block order %r' %
            (fh['block_order'], hd['block_order']))
    if not close(hd['gdcx'], fh['gdcx'], tol) or not close(hd['gdcy'], fh['gdcy'], tol):
        bad('file-header-gdc', 'header holds gdcx/gdcy %r/%r, geometry %r/%r' % (fh['gdcx'], fh['gdcy'], hd['gdcx'], hd['gdcy']))
    if fh['rest']:
        bad('file-header-rest', 'unexpected text %r after the header fields' % fh['rest'])
    # sections present and in order
    want_sections = ['VERTI', 'GRID', 'CONNE', 'LAYER']
    nondefault = [c for c in snap['columns'] if not c['default_surface']]
    if nondefault:
        want_sections.append('SURFA')
    if snap['wells']:
        want_sections.append('WELLS')
    got_sections = ['SURFA' if k == 'SURF' else k for k in f['sections']]
    if got_sections != want_sections:
        bad('file-sections', 'file has sections %r, expected %r' % (f['sections'], want_sections))
    # nodes
    if len(f['nodes']) != len(snap['nodes']):
        bad('file-node-count', '%d node records for %d nodes' % (len(f['nodes']), len(snap['nodes'])))
    for (fn, fx, fy), (n, x, y) in zip(f['nodes'], snap['nodes']):
        if fn.strip() != n.strip():
            bad('file-node-name %r' % n, 'node record names %r where node %r is expected' % (fn, n))
        elif not (close(x / s, fx, tol) and close(y / s, fy, tol)):
            bad('file-node-pos %r' % n, 'node %r at (%r, %r) m is recorded as (%r, %r) with unit scale %r' % (n, x, y, fx, fy, s))
    # columns
    if len(f['columns']) != len(snap['columns']):
        bad('file-column-count', '%d column records for %d columns' % (len(f['columns']), len(snap['columns'])))
    for fc, c in zip(f['columns'], snap['columns']):
        if fc['name'].strip() != c['name'].strip():
            bad('file-column-name %r' % c['name'], 'column record names %r where column %r is expected' % (fc['name'], c['name']))
            continue
        if [x.strip() for x in fc['nodes']] != [x.strip() for x in c['nodes']]:
            bad('file-column-nodes %r' % c['name'], 'column %r lists nodes %r, geometry %r' % (c['name'], fc['nodes'], c['nodes']))
        if (fc['centre_specified'] or 0) != c['centre_specified']:
            bad('file-column-centre-flag %r' % c['name'], 'column %r centre flag %r, geometry %r' %
                (c['name'], fc['centre_specified'], c['centre_specified']))
        elif c['centre_specified'] and not (close(c['centre'][0] / s, fc['centre'][0], tol) and close(c['centre'][1] / s, fc['centre'][1], tol)):
            bad('file-column-centre %r' % c['name'], 'column %r centre %r m recorded as %r with unit scale %r' %
                (c['name'], c['centre'], fc['centre'], s))
    # connections
    if [[a.strip(), b.strip()] for a, b in f['connections']] != [[a.strip(), b.strip()] for a, b, _ in snap['connections']]:
        k = next((i for i, (x, y) in enumerate(zip(f['connections'], snap['connections']))
                  if [x[0].strip(), x[1].strip()] != [y[0].strip(), y[1].strip()]), min(len(f['connections']), len(snap['connections'])))
        bad('file-connections #%d' % k, '%d connection records for %d connections; first difference at %d' %
            (len(f['connections']), len(snap['connections']), k))
    # layers
    if len(f['layers']) != len(snap['layers']):
        bad('file-layer-count', '%d layer records for %d layers' % (len(f['layers']), len(snap['layers'])))
    for (fn, fb, fc), (n, b, c, t) in zip(f['layers'], snap['layers']):
        if fn.strip() != n.strip():
            bad('file-layer-name %r' % n, 'layer record names %r where layer %r is expected' % (fn, n))
        elif not close(b / s, fb, tol) or not close(c / s, fc if fc is not None else 0.0, tol):
            bad('file-layer-elevation %r' % n, 'layer %r bottom / centre %r / %r m recorded as %r / %r with unit scale %r' % (n, b, c, fb, fc, s))
    # surface
    fs = f['surface'] or []
    if [x[0].strip() for x in fs] != [c['name'].strip() for c in nondefault]:
        bad('file-surface-columns', 'surface section lists %r, the columns with their own surface are %r' %
            ([x[0] for x in fs][:8], [c['name'] for c in nondefault][:8]))
    else:
        for (fn, fe), c in zip(fs, nondefault):
            if not close(c['surface'] / s, fe, tol):
                bad('file-surface-elevation %r' % c['name'], 'surface %r m of column %r recorded as %r with unit scale %r' %
                    (c['surface'], c['name'], fe, s))
    # wells
    want = [(w, p) for w, pos in snap['wells'] for p in pos]
    fw = f['wells'] or []
    if len(fw) != len(want):
        bad('file-well-count', '%d well records for %d track points' % (len(fw), len(want)))
    for (fn, fx, fy, fz), (w, p) in zip(fw, want):
        if fn != w:
            bad('file-well-name %r' % w, 'well record names %r where %r is expected' % (fn, w))
        elif not (close(p[0] / s, fx, wtol) and close(p[1] / s, fy, wtol) and close(p[2] / s, fz, wtol)):
            bad('file-well-pos %r' % w, 'well %r point %r m recorded as %r with unit scale %r' % (w, p, [fx, fy, fz], s))


def contract_reread(snap, snap1, cfg, rec, tag):
    rec.ev['reread'] += 1
    reported = set()

    def bad(cat, what):
        if cat.split(' ')[0] not in reported:
            reported.add(cat.split(' ')[0])
            rec.fail('%s %s' % (cat, tag), what, cfg)

    h0, h1 = snap['header'], snap1['header']
    s = h0['unit_scale']
    tol, wtol = 0.005 * s, 0.05 * s
    for k in ('type', 'convention', 'atmosphere_type', 'block_order'):
        if h0[k] != h1[k]:
            bad('header-%s %r' % (k, h0[k]), '%s %r read back as %r' % (k, h0[k], h1[k]))
    if h0['unit_type'] != h1['unit_type'] or h1['unit_scale'] != {'': 1.0, 'FEET ': FT}.get(h0['unit_type']):
        bad('header-unit %r' % h0['unit_type'], 'unit_type %r (scale %r) read back as %r (scale %r)' %
            (h0['unit_type'], h0['unit_scale'], h1['unit_type'], h1['unit_scale']))
    for k in ('atmosphere_volume', 'atmosphere_connection'):
        if not sig3(h0[k], h1[k]):
            bad('header-%s %r' % (k, h0[k]), '%s %r read back as %r' % (k, h0[k], h1[k]))
    if not close(h0['permeability_angle'], h1['permeability_angle'], 0.005):
        bad('header-permeability_angle %r' % h0['permeability_angle'], 'permeability angle %r read back as %r' %
            (h0['permeability_angle'], h1['permeability_angle']))
    for k in ('gdcx', 'gdcy'):
        if not close(h0[k], h1[k], 0.005):
            bad('header-%s %r' % (k, h0[k]), '%s %r read back as %r' % (k, h0[k], h1[k]))
    # nodes
    n0, n1 = snap['nodes'], snap1['nodes']
    if [n[0] for n in n0] != [n[0] for n in n1]:
        k = next((i for i, (x, y) in enumerate(zip(n0, n1)) if x[0] != y[0]), min(len(n0), len(n1)))
        bad('node-names #%d' % k, '%d nodes written, %d read back; first difference at %d: %r vs %r' %
            (len(n0), len(n1), k, n0[k][0] if k < len(n0) else None, n1[k][0] if k < len(n1) else None))
    for (n, x, y), (m, u, v) in zip(n0, n1):
        if n == m and not (close(x, u, tol) and close(y, v, tol)):
            bad('node-pos %r' % n, 'node %r at (%r, %r) m read back at (%r, %r) m (unit scale %r)' % (n, x, y, u, v, s))
    pos1 = dict((n, (x, y)) for n, x, y in n1)
    # columns
    c0, c1 = snap['columns'], snap1['columns']
    if [c['name'] for c in c0] != [c['name'] for c in c1]:
        k = next((i for i, (x, y) in enumerate(zip(c0, c1)) if x['name'] != y['name']), min(len(c0), len(c1)))
        bad('column-names #%d' % k, '%d columns written, %d read back; first difference at %d: %r vs %r' %
            (len(c0), len(c1), k, c0[k]['name'] if k < len(c0) else None, c1[k]['name'] if k < len(c1) else None))
    for a, b in zip(c0, c1):
        if a['name'] != b['name']:
            continue
        if a['nodes'] != b['nodes']:
            bad('column-nodes %r' % a['name'], 'column %r nodes %r read back as %r' % (a['name'], a['nodes'], b['nodes']))
        if a['centre_specified'] != b['centre_specified']:
            bad('column-centre-flag %r' % a['name'], 'column %r centre_specified %r read back as %r' %
                (a['name'], a['centre_specified'], b['centre_specified']))
        elif a['centre_specified']:
            if not (close(a['centre'][0], b['centre'][0], tol) and close(a['centre'][1], b['centre'][1], tol)):
                bad('column-centre %r' % a['name'], 'column %r specified centre %r read back as %r (unit scale %r)' %
                    (a['name'], a['centre'], b['centre'], s))
        elif all(n in pos1 for n in b['nodes']):
            cen = own_centroid([pos1[n] for n in b['nodes']])
            ext = max(max(abs(pos1[n][0] - pos1[b['nodes'][0]][0]), abs(pos1[n][1] - pos1[b['nodes'][0]][1])) for n in b['nodes'])
            if cen is not None and not (close(cen[0], b['centre'][0], 1e-6 * (1 + ext)) and close(cen[1], b['centre'][1], 1e-6 * (1 + ext))):
                bad('column-centroid %r' % a['name'], 'column %r (centre not specified) has centre %r, the centroid of its nodes is %r' %
                    (a['name'], b['centre'], cen))
        if a['default_surface'] != b['default_surface']:
            bad('surface-default %r' % a['name'], 'column %r default_surface %r read back as %r' %
                (a['name'], a['default_surface'], b['default_surface']))
        if not close(a['surface'], b['surface'], tol):
            bad('surface-elevation %r' % a['name'], 'column %r surface %r m read back as %r m (unit scale %r)' %
                (a['name'], a['surface'], b['surface'], s))
        if a['num_layers'] != b['num_layers']:
            bad('column-num-layers %r' % a['name'], 'column %r has %r layers, %r after reading' % (a['name'], a['num_layers'], b['num_layers']))
    # connections
    k0, k1 = snap['connections'], snap1['connections']
    if [c[:2] for c in k0] != [c[:2] for c in k1]:
        k = next((i for i, (x, y) in enumerate(zip(k0, k1)) if x[:2] != y[:2]), min(len(k0), len(k1)))
        bad('connections #%d' % k, '%d connections written, %d read back; first difference at %d: %r vs %r' %
            (len(k0), len(k1), k, k0[k][:2] if k < len(k0) else None, k1[k][:2] if k < len(k1) else None))
    else:
        for x, y in zip(k0, k1):
            if x[2] != y[2]:
                bad('connection-nodes %s:%s' % (x[0], x[1]), 'connection %r nodes %r read back as %r' % (x[:2], x[2], y[2]))
                break
    # neighbours of the geometry read = the columns across its connections (own derivation)
    nb = dict((c['name'], set()) for c in c1)
    for x in k1:
        if x[0] in nb and x[1] in nb:
            nb[x[0]].add(x[1])
            nb[x[1]].add(x[0])
    for c in c1:
        if sorted(nb[c['name']]) != c['neighbours']:
            bad('column-neighbours %r' % c['name'], 'after reading, column %r has neighbours %r but connections to %r' %
                (c['name'], c['neighbours'], sorted(nb[c['name']])))
    # layers
    l0, l1 = snap['layers'], snap1['layers']
    if [l[0] for l in l0] != [l[0] for l in l1]:
        k = next((i for i, (x, y) in enumerate(zip(l0, l1)) if x[0] != y[0]), min(len(l0), len(l1)))
        bad('layer-names #%d' % k, '%d layers written, %d read back; first difference at %d: %r vs %r' %
            (len(l0), len(l1), k, l0[k][0] if k < len(l0) else None, l1[k][0] if k < len(l1) else None))
    for x, y in zip(l0, l1):
        if x[0] == y[0] and not (close(x[1], y[1], tol) and close(x[2], y[2], tol) and close(x[3], y[3], tol)):
            bad('layer-elevation %r' % x[0], 'layer %r bottom/centre/top %r read back as %r (unit scale %r)' % (x[0], x[1:], y[1:], s))
    for k in range(len(l1)):
        want_top = l1[k][1] if k == 0 else l1[k - 1][1]
        if l1[k][3] != want_top:
            bad('layer-top %r' % l1[k][0], 'layer %r top %r is not the bottom %r of the layer above' % (l1[k][0], l1[k][3], want_top))
    # wells
    w0, w1 = snap['wells'], snap1['wells']
    if [w[0] for w in w0] != [w[0] for w in w1]:
        bad('well-names', 'wells %r read back as %r' % ([w[0] for w in w0], [w[0] for w in w1]))
    for (a, p), (b, q) in zip(w0, w1):
        if a != b:
            continue
        if len(p) != len(q):
            bad('well-track-length %r' % a, 'well %r has %d track points, %d after reading' % (a, len(p), len(q)))
        elif not all(close(u, v, wtol) for x, y in zip(p, q) for u, v in zip(x, y)):
            bad('well-pos %r' % a, 'well %r track %r read back as %r (unit scale %r)' % (a, p, q, s))
    # derived name lists
    for k in ('block_name_list', 'block_connection_name_list'):
        if snap[k] != snap1[k]:
            a, b = snap[k], snap1[k]
            j = next((i for i, (x, y) in enumerate(zip(a, b)) if x != y), min(len(a), len(b)))
            bad('%s #%d' % (k, j), '%s: %d names before, %d after; first difference at %d: %r vs %r' %
                (k, len(a), len(b), j, a[j] if j < len(a) else None, b[j] if j < len(b) else None))
    for k, ok in snap1['dicts_ok'].items():
        if not ok:
            bad('dictionary-%s' % k, 'the %s dictionary of the geometry read disagrees with its list' % k)


def round_trip(geo, cfg, rec, tag, tmpdir):
    f1 = os.path.join(tmpdir, 'a_%d.dat' % os.getpid())
    f2 = os.path.join(tmpdir, 'b_%d.dat' % os.getpid())
    snap = snapshot(geo)
    why = precondition(snap)
    if why is not None:
        rec.skipped[why] += 1
        return False
    try:
        geo.write(f1)
    except Exception as e:
        rec.ev['file'] += 1
        rec.fail('write-exception ' + tag, 'write raises %s: %s' % (type(e).__name__, e), cfg)
        return True
    geo.filename = ''
    rec.ev['write-pure'] += 1
    ok, detail = contract_write_pure(snap, snapshot(geo))
    if not ok:
        rec.fail('write-impure ' + tag, detail, cfg)
    with open(f1, newline='') as fh:
        text1 = fh.read()
    contract_file(snap, text1, cfg, rec, tag)
    try:
        geo1 = mulgrids.mulgrid(f1)
    except Exception as e:
        rec.ev['reread'] += 1
        rec.fail('read-exception ' + tag, 'reading the file just written raises %s: %s (%s)' %
                 (type(e).__name__, e, traceback.format_exc().strip().split('\n')[-3].strip()), cfg)
        return True
    contract_reread(snap, snapshot(geo1), cfg, rec, tag)
    rec.ev['bytes'] += 1
    try:
        geo1.write(f2)
        with open(f2, newline='') as fh:
            text2 = fh.read()
        if text1 != text2:
            l1, l2 = text1.split('\n'), text2.split('\n')
            k = next((i for i, (x, y) in enumerate(zip(l1, l2)) if x != y), min(len(l1), len(l2)))
            rec.fail('bytes-differ ' + tag, 'second write differs at record %d: %r vs %r' %
                     (k, l1[k] if k < len(l1) else None, l2[k] if k < len(l2) else None), cfg)
    except Exception as e:
        rec.fail('rewrite-exception ' + tag, 'writing the re-read geometry raises %s: %s' % (type(e).__name__, e), cfg)
    return True


# ------------------------------------------------------------------ generated geometries

CONFIGS = [(conv, atm, unit, order) for conv in range(4) for atm in range(3) for unit in ('', 'FEET ')
           for order in (None, 'layer_column', 'dmplex')]          # 72


def spacing(rnd, n, style):
    if style == 'int':
        return [float(rnd.randint(1, 500)) for _ in range(n)]
    if style == 'dec2':
        return [round(rnd.uniform(0.5, 900.), 2) for _ in range(n)]
    if style == 'equal':
        return [rnd.choice([10., 100., 250.5])] * n
    return [rnd.uniform(0.5, 2000.) for _ in range(n)]


def make_rect_spec(rnd, idx, tier):
    conv, atm, unit, order = CONFIGS[idx % 72]
    big = tier == 'thorough' and rnd.random() < 0.1
    nx, ny = (rnd.randint(1, 7), rnd.randint(1, 7)) if not big else (rnd.randint(6, 12), rnd.randint(6, 12))
    if conv == 1:        # at most 99 two-character node names
        while (nx + 1) * (ny + 1) > 99:
            nx, ny = max(1, nx - 1), max(1, ny - 1)
    nz = rnd.randint(1, 8) if not big else rnd.randint(8, 30)
    style = rnd.choice(['int', 'dec2', 'equal', 'any', 'any'])
    dx, dy = spacing(rnd, nx, style), spacing(rnd, ny, style)
    dz = [max(1.0, v) for v in spacing(rnd, nz, rnd.choice(['int', 'dec2', 'equal', 'any']))]
    s = FT if unit else 1.0
    okind = rnd.choice(['zero', 'moderate', 'moderate', 'negative', 'limit-high', 'limit-low', 'any'])
    hi, lo = 9999999.99 * s, -999999.99 * s           # ten columns, two decimals, in file units
    if okind == 'zero':
        origin = [0., 0., 0.]
    elif okind == 'moderate':
        origin = [round(rnd.uniform(0, 3e6), 2), round(rnd.uniform(0, 3e6), 2), round(rnd.uniform(-500, 3000), 1)]
    elif okind == 'negative':
        origin = [-round(rnd.uniform(0, 2e5), 2), -round(rnd.uniform(0, 2e5), 2), -round(rnd.uniform(0, 1000), 2)]
    elif okind == 'limit-high':   # the largest vertex sits on the largest number the field holds
        origin = [hi - sum(dx), hi - sum(dy), hi]
    elif okind == 'limit-low':    # the smallest on the most negative one
        origin = [lo, lo, lo + sum(dz)]
    else:
        origin = [rnd.uniform(-2e5, 2.9e6), rnd.uniform(-2e5, 2.9e6), rnd.uniform(-1000, 5000)]
    ncol = nx * ny
    spec = {'kind': 'rect', 'id': idx, 'convention': conv, 'atmos_type': atm, 'unit_type': unit, 'block_order': order,
            'case': [None, 'u', 'l'][(idx // 72) % 3], 'dx': dx, 'dy': dy, 'dz': dz, 'origin': origin, 'origin_kind': okind,
            'atmos_volume': rnd.choice([1.e25, 1.e25, 1.e20, 1.0e30, rnd.uniform(1, 10) * 10.0 ** rnd.randint(10, 40)]),
            'atmos_connection': rnd.choice([1.e-6, 1.e-6, 1.e-5, rnd.uniform(1, 10) * 10.0 ** rnd.randint(-9, -3)]),
            'permeability_angle': rnd.choice([0.0, 0.0, 45.0, -30.5, round(rnd.uniform(-180, 180), 2), rnd.uniform(-180, 180)]),
            'gdc': rnd.choice([None, None, None, [round(rnd.uniform(-1, 1), 2), round(rnd.uniform(-1, 1), 2)]])}
    # refinement of part of the mesh (triangles appear), rotation (arbitrary decimals everywhere)
    spec['refine'] = sorted(rnd.sample(range(ncol), rnd.randint(1, max(1, ncol // 3)))) \
        if (ncol >= 4 and conv in (0, 3) and okind not in ('limit-high', 'limit-low') and rnd.random() < 0.25) else []
    spec['rotate'] = round(rnd.uniform(-180, 180), 1) if (okind in ('zero', 'moderate', 'negative') and rnd.random() < 0.3) else None
    # surfaces: none, some, all
    frac = rnd.choice([0.0, 0.0, 0.3, 0.7, 1.0])
    surf = []
    for i in range(ncol):
        if rnd.random() < frac:
            kind = rnd.choice(['mid', 'mid', 'mid', 'bottom', 'top', 'above'])
            if kind == 'mid':
                surf.append([i, 'mid', rnd.randrange(nz), rnd.uniform(0.1, 0.9)])
            elif kind == 'bottom':
                surf.append([i, 'bottom', rnd.randrange(max(1, nz - 1)), 0.])
            elif kind == 'top':
                surf.append([i, 'top', 0, 0.])
            else:
                surf.append([i, 'above', 0, rnd.uniform(0.5, 50.) if okind != 'limit-high' else 0.])
    spec['surface'] = surf
    spec['centres'] = sorted(rnd.sample(range(ncol), rnd.randint(0, ncol))) if rnd.random() < 0.3 else []
    wells = []
    for k in range(rnd.choice([0, 0, 1, 2, 5])):
        name = rnd.choice(['WL%3d', 'w%4d', '  W%2d', 'AB-%02d', 'well%d'])
        name = (name % (k + 1))[:5].rjust(5)
        npts = rnd.randint(2, 6)
        x0 = origin[0] + rnd.uniform(0, 1) * sum(dx)
        y0 = origin[1] + rnd.uniform(0, 1) * sum(dy)
        z = origin[2]
        pos = []
        for j in range(npts):
            p = [x0, y0, z]
            if rnd.random() < 0.5:
                p = [round(v, 1) for v in p]
            pos.append(p)
            x0 -= rnd.uniform(0, 30.)
            y0 -= rnd.uniform(0, 30.)
            z -= rnd.uniform(1., sum(dz) / npts)
        wells.append({'name': name, 'pos': pos})
    spec['wells'] = wells
    return spec


def build_rect(spec):
    geo = mulgrids.mulgrid().rectangular(spec['dx'], spec['dy'], spec['dz'], convention=spec['convention'],
                                         atmos_type=spec['atmos_type'], origin=list(spec['origin']), justify='r',
                                         case=spec['case'], block_order=spec['block_order'])
    geo.unit_type = spec['unit_type']
    geo.atmosphere_volume = spec['atmos_volume']
    geo.atmosphere_connection = spec['atmos_connection']
    geo.permeability_angle = spec['permeability_angle']
    if spec['gdc']:
        geo.gdcx, geo.gdcy = spec['gdc']
    if spec['refine']:
        geo.refine([geo.columnlist[i] for i in spec['refine']])
    for w in spec['wells']:
        geo.add_well(mulgrids.well(w['name'], [np.array(p, dtype=float) for p in w['pos']]))
    if spec['rotate'] is not None:
        geo.rotate(spec['rotate'], wells=True)
    lays = geo.layerlist
    resolved = []
    for i, kind, k, a in spec['surface']:
        col = geo.columnlist[i % geo.num_columns]
        lay = lays[1 + k]
        if kind == 'mid':
            v = lay.bottom + a * (lay.top - lay.bottom)
        elif kind == 'bottom':
            v = lay.bottom
        elif kind == 'top':
            v = lays[0].bottom
        else:
            v = lays[0].bottom + a
        col.surface = v
        geo.set_column_num_layers(col)
        resolved.append([col.name, float(v)])
    spec['surface_resolved'] = resolved
    for i in spec['centres']:
        col = geo.columnlist[i % geo.num_columns]
        c = col.centre + np.array([0.37, -0.21]) * (1 + (i % 3))
        col.centre = c
        col.centre_specified = 1
    geo.setup_block_name_index()
    geo.setup_block_connection_name_index()
    return geo


def rect_tag(spec):
    return '[rect conv%d atm%d %s %s case=%s %dx%dx%d origin=%s%s%s surf=%d wells=%d #%d]' % (
        spec['convention'], spec['atmos_type'], spec['unit_type'].strip() or 'metres', spec['block_order'], spec['case'],
        len(spec['dx']), len(spec['dy']), len(spec['dz']), spec['origin_kind'], ' refined' if spec['refine'] else '',
        ' rotated' if spec['rotate'] is not None else '', len(spec['surface']), len(spec['wells']), spec['id'])


def rect_descriptor(spec):
    return ('rect', spec['convention'], spec['atmos_type'], spec['unit_type'], spec['block_order'], spec['case'],
            spec['origin_kind'], bool(spec['refine']), spec['rotate'] is not None,
            0 if not spec['surface'] else (2 if len(spec['surface']) == len(spec['dx']) * len(spec['dy']) else 1),
            tuple(sorted(set(x[1] for x in spec['surface']))), min(len(spec['wells']), 2), bool(spec['centres']), bool(spec['gdc']))


REPRO_RECT = ("geo=mulgrid().rectangular(dx,dy,dz,convention,atmos_type,origin,justify='r',case,block_order); geo.unit_type=unit_type; "
              "atmosphere_volume/connection, permeability_angle, gdcx/gdcy set; geo.refine(columns refine); wells added; "
              "geo.rotate(rotate,wells=True); column surfaces = surface_resolved (then set_column_num_layers); centres shifted and "
              "centre_specified=1 for columns `centres`; geo.write(f); mulgrid(f)")


# ------------------------------------------------------------------ shipped geometries and derivatives

def make_shipped_specs(tier, seed):
    rnd = random.Random(seed * 7919 + 17)
    specs = []
    for g in range(1, 8):
        specs.append({'kind': 'shipped', 'g': g, 'op': 'none', 'atm': None, 'unit_type': '', 'block_order': None})
    ops = ['translate', 'rotate', 'refine', 'reduce', 'refine+rotate', 'reduce+rotate']
    nper = 3 if tier == 'quick' else 40
    for g in range(1, 8):
        for k in range(nper):
            if tier == 'quick' and g in (2, 4) and k > 0:
                continue
            op = ops[(k + g) % len(ops)] if tier == 'quick' else rnd.choice(ops)
            specs.append({'kind': 'shipped', 'g': g, 'op': op, 'atm': rnd.choice([None, 0, 1, 2]),
                          'unit_type': rnd.choice(['', 'FEET ']), 'block_order': rnd.choice([None, 'layer_column', 'dmplex']),
                          'angle': round(rnd.uniform(-180, 180), 1), 'shift': [round(rnd.uniform(-500, 500), 2) for _ in range(3)],
                          'pick': rnd.randrange(10 ** 6), 'nwells': rnd.choice([0, 0, 2])})
    for i, s in enumerate(specs):
        s['id'] = i
    gm = []
    # (from_gmsh only builds letter-named meshes: conventions 0 and 3)
    for fn in ('gmsh2_2.msh', 'gmsh4_1.msh'):
        for conv in (0, 3):
            for rep in range(1 if tier == 'quick' else 6):
                gm.append({'kind': 'gmsh', 'file': fn, 'convention': conv, 'atmos_type': rnd.randrange(3),
                           'unit_type': rnd.choice(['', 'FEET ']), 'block_order': rnd.choice([None, 'layer_column', 'dmplex']),
                           'layers': [round(rnd.uniform(1, 200), 2) for _ in range(rnd.randint(1, 6))],
                           'top_elevation': round(rnd.uniform(-100, 1000), 2), 'id': len(specs) + len(gm)})
    return specs + gm


def build_shipped(spec):
    """Returns the geometry or a string saying why the configuration does not apply."""
    geo = mulgrids.mulgrid(os.path.join(REPO, 'tests', 'mulgrid', 'g%d.dat' % spec['g']))
    rnd = random.Random(spec.get('pick', 0))
    op = spec['op']
    detail = {}
    if 'refine' in op:
        cand = [c for c in geo.columnlist if c.num_nodes in (3, 4) and all(n.num_nodes in (3, 4) for n in c.neighbour)]
        sub = rnd.sample(cand, min(len(cand), rnd.randint(1, 15)))
        detail['refine'] = [c.name for c in sub]
        if sub:
            geo.refine(sub)
    if 'reduce' in op:
        b = geo.bounds
        cx = 0.5 * (b[0][0] + b[1][0])
        keep = [c for c in geo.columnlist if (c.centre[0] < cx) == (rnd.random() < 0.9)]
        if len(keep) < 3:
            keep = geo.columnlist[:max(3, geo.num_columns // 2)]
        detail['reduce'] = '%d of %d columns kept' % (len(keep), geo.num_columns)
        geo.reduce(keep)
    if 'rotate' in op:
        geo.rotate(spec['angle'], wells=True)
    if op == 'translate':
        geo.translate(spec['shift'], wells=True)
    if spec['unit_type']:
        # bring the geometry near the origin so that its coordinates in feet fit ten columns
        b = geo.bounds
        shift = [-round(float(b[0][0]), 2), -round(float(b[0][1]), 2), 0.]
        detail['translate_for_feet'] = shift
        geo.translate(shift, wells=True)
        geo.unit_type = spec['unit_type']
    for k in range(spec.get('nwells', 0)):
        c = geo.columnlist[rnd.randrange(geo.num_columns)]
        top = geo.layerlist[0].bottom
        pos = [np.array([c.centre[0] - 3.3 * j, c.centre[1] + 1.7 * j, top - 55.5 * j]) for j in range(rnd.randint(2, 6))]
        geo.add_well(mulgrids.well(('XW%3d' % k), pos))
    if spec['atm'] is not None:
        geo.atmosphere_type = spec['atm']
    if spec['block_order'] is not None:
        if spec['block_order'] == 'dmplex' and any(c.num_nodes not in (3, 4) for c in geo.columnlist):
            return 'dmplex block order needs 3- or 4-node columns'
        geo.block_order = spec['block_order']
    geo.setup_block_name_index()
    geo.setup_block_connection_name_index()
    spec['detail'] = detail
    return geo


def build_gmsh(spec):
    geo = mulgrids.mulgrid().from_gmsh(os.path.join(REPO, 'tests', 'mulgrid', spec['file']), spec['layers'],
                                       convention=spec['convention'], atmos_type=spec['atmos_type'],
                                       top_elevation=spec['top_elevation'], block_order=spec['block_order'])
    geo.unit_type = spec['unit_type']
    return geo


def shipped_tag(spec):
    if spec['kind'] == 'gmsh':
        return '[gmsh %s conv%d atm%d %s %s #%d]' % (spec['file'], spec['convention'], spec['atmos_type'],
                                                    spec['unit_type'].strip() or 'metres', spec['block_order'], spec['id'])
    return '[g%d %s atm=%s %s %s #%d]' % (spec['g'], spec['op'], spec['atm'], spec['unit_type'].strip() or 'metres',
                                         spec['block_order'], spec['id'])


# ------------------------------------------------------------------ workers

class _Timeout(BaseException):
    pass


class _Deadline(object):
    armed = False


def _alarm(signum, frame):
    if _Deadline.armed:
        raise _Timeout()


def _disarm():
    while True:
        try:
            _Deadline.armed = False
            signal.setitimer(signal.ITIMER_REAL, 0)
            return
        except _Timeout:
            continue


def with_deadline(seconds, fn):
    """Runs fn(); returns False if it did not return in time (the timer keeps firing every 0.1 s
    after the deadline, in case library code swallows the exception in a bare `except:`)."""
    signal.signal(signal.SIGALRM, _alarm)
    try:
        try:
            _Deadline.armed = True
            signal.setitimer(signal.ITIMER_REAL, seconds, 0.1)
            fn()
            return True
        finally:
            _disarm()
    except _Timeout:
        _disarm()
        return False


def small(spec):
    """The reproduction, without the bulky parts."""
    d = dict(spec)
    for k in ('dx', 'dy', 'dz'):
        if k in d and len(d[k]) > 12:
            d[k] = d[k][:12] + ['... %d values' % len(d[k])]
    if 'surface' in d:
        d.pop('surface')
        if len(d.get('surface_resolved', [])) > 12:
            d['surface_resolved'] = d['surface_resolved'][:12] + ['... %d columns' % len(spec['surface_resolved'])]
    return d


def worker(task):
    kind, payload, tier, seed, tmpdir = task
    rec = Recorder()
    samples = []
    with contextlib.redirect_stdout(io.StringIO()):
        if kind == 'rect':
            lo, hi = payload
            ntimeouts = 0
            for idx in range(lo, hi):
                rnd = random.Random(seed * 1000003 + idx)
                spec = make_rect_spec(rnd, idx, tier)
                tag = rect_tag(spec)

                def one():
                    try:
                        geo = build_rect(spec)
                    except Exception as e:
                        rec.ev['build'] += 1
                        rec.fail('build-exception ' + tag, 'constructing the geometry raises %s: %s (%s)' %
                                 (type(e).__name__, e, traceback.format_exc().strip().split('\n')[-3].strip()), small(spec))
                        return
                    cfg = small(spec)
                    cfg['how'] = REPRO_RECT
                    try:
                        if round_trip(geo, cfg, rec, tag, tmpdir):
                            rec.distinct.add(rect_descriptor(spec))
                            if idx % 61 == 0 and len(samples) < 1:
                                samples.append({'case': tag, 'blocks': geo.block_name_list[:4], 'nblocks': geo.num_blocks})
                    except Exception as e:
                        rec.fail('exception ' + tag, 'unexpected %s: %s (%s)' %
                                 (type(e).__name__, e, traceback.format_exc().strip().split('\n')[-3].strip()), cfg)
                if not with_deadline(RECT_TIMEOUT, one):
                    ntimeouts += 1
                    rec.fail('timeout ' + tag, 'build/write/read/write does not return within %d s' % RECT_TIMEOUT, small(spec))
                    if ntimeouts >= 2:
                        rec.fail('timeout-abort [rect cases %d..%d]' % (idx + 1, hi - 1),
                                 'two cases of this batch timed out; the rest of the batch was not run', {'batch': [lo, hi]})
                        break
        else:
            spec = payload
            tag = shipped_tag(spec)

            def one():
                try:
                    geo = build_gmsh(spec) if spec['kind'] == 'gmsh' else build_shipped(spec)
                except Exception as e:
                    rec.ev['build'] += 1
                    rec.fail('build-exception ' + tag, 'constructing the geometry raises %s: %s (%s)' %
                             (type(e).__name__, e, traceback.format_exc().strip().split('\n')[-3].strip()), spec)
                    return
                if isinstance(geo, str):
                    rec.skipped[geo] += 1
                    return
                try:
                    if round_trip(geo, spec, rec, tag, tmpdir):
                        rec.distinct.add(tag.rsplit(' #', 1)[0])
                        if spec['id'] % 5 == 0:
                            samples.append({'case': tag, 'columns': geo.num_columns, 'blocks': geo.num_blocks, 'detail': spec.get('detail')})
                except Exception as e:
                    rec.fail('exception ' + tag, 'unexpected %s: %s (%s)' %
                             (type(e).__name__, e, traceback.format_exc().strip().split('\n')[-3].strip()), spec)
            if not with_deadline(SHIPPED_TIMEOUT, one):
                rec.fail('timeout ' + tag, 'build/write/read/write does not return within %d s' % SHIPPED_TIMEOUT, spec)
    return dict(rec.ev), rec.fails, rec.distinct, samples, dict(rec.skipped)


def main():
    tier = sys.argv[1] if len(sys.argv) > 1 else 'quick'
    seed = int(sys.argv[2]) if len(sys.argv) > 2 else 0
    t0 = time.time()
    tmpdir = tempfile.mkdtemp(prefix='pytough-', dir=os.environ.get('PYTOUGH_SCRATCH', '/var/tmp'))
    try:
        nrect = 72 * 9 if tier == 'quick' else 72 * 360
        chunk = 18 if tier == 'quick' else 120
        tasks = [('shipped', s, tier, seed, tmpdir) for s in make_shipped_specs(tier, seed)]
        # the big shipped geometries first, so that they do not end up as stragglers
        tasks.sort(key=lambda t: -{2: 3, 4: 3}.get(t[1].get('g'), 1))
        for lo in range(0, nrect, chunk):
            tasks.append(('rect', (lo, min(lo + chunk, nrect)), tier, seed, tmpdir))
        with mp.Pool(min(16, os.cpu_count() or 1)) as pool:
            results = pool.map(worker, tasks, chunksize=1)
        ev, fails, distinct, samples, skipped = Counter(), [], set(), [], Counter()
        for e, f, d, s, k in results:
            ev.update(e)
            fails += f
            distinct |= d
            skipped.update(k)
            samples += s
        samples = samples[:3] + samples[-3:] if len(samples) > 6 else samples
        def klass(f):
            key = f['key']
            pop = key[key.index('[') + 1:].split(' ')[0] if '[' in key else ''
            return key.split(' ')[0] + '/' + pop
        shown, percat = [], Counter()
        for f in fails:
            if percat[klass(f)] < PER_CLASS_CAP and len(shown) < 60:
                shown.append(f)
            percat[klass(f)] += 1
        out = {'evaluations': sum(ev.values()), 'distinct': len(distinct), 'failures': shown, 'nfailures': len(fails),
               'samples': samples, 'seconds': time.time() - t0, 'evaluations_by_contract': dict(ev),
               'failures_by_category_and_population': dict(percat), 'skipped_outside_quantifier': dict(skipped)}
    finally:
        shutil.rmtree(tmpdir, ignore_errors=True)
    print('@@JSON@@' + json.dumps(out))


if __name__ == '__main__':
    main()
