"""C19 bounded stand-in: mulgrid.block_mapping / column_mapping / layer_mapping, t2incon.transfer_from and
t2data.transfer_from evaluated on the real library over generated pairs of geometries, with a brute-force
nearest-centre oracle.

Oracle (independent of the code under test): nearest source column / layer by exhaustive distance comparison
(every source column / layer whose distance equals the minimum up to rounding is accepted, so ties never decide
the verdict); the "first layer below ground" is found by scanning the layer list; the expected initial
conditions are read from the source through that oracle mapping; expected atmosphere states are computed from
the 3 x 3 table of the property statement.

usage: c19_transfer.py <tier> <seed>
"""
import sys, os, io, json, time, random, math, signal, shutil, tempfile, traceback, glob, contextlib
import warnings
warnings.filterwarnings('ignore')
REPO = os.environ.get('PYTOUGH_REPO', '/repo')
sys.path.insert(0, REPO)
import numpy as np
from mulgrids import *
from t2grids import *
from t2incons import *
from t2data import *
import multiprocessing as mp

tier = sys.argv[1] if len(sys.argv) > 1 else 'quick'
seed = int(sys.argv[2]) if len(sys.argv) > 2 else 0
TASK_TIMEOUT = 300
DEFAULT_ATM = [1.013e5, 20.]
TABLEGENS = [' AIR', 'COM1', 'COM2', 'COM3', 'COM4', 'COM5', 'HEAT', 'MASS', 'NACL', 'TRAC', ' VOL']


SCRATCH = ['/var/tmp']      # main() puts its own scratch directory here (inherited by the forked workers)


class TaskTimeout(Exception):
    pass


def _alarm(signum, frame):
    raise TaskTimeout()


# --------------------------------------------------------------------------------------------------
# geometry descriptions (JSON-able) and their construction with the real library

def logu(rnd, lo, hi):
    return math.exp(rnd.uniform(math.log(lo), math.log(hi)))


def rect_desc(rnd, nmax=7, nzmax=7, conv=None, extent=None, ztop=None, depth=None):
    nx, ny, nz = rnd.randint(1, nmax), rnd.randint(1, nmax), rnd.randint(1, nzmax)
    if conv is None: conv = rnd.randint(0, 3)
    if (nx + 1) * (ny + 1) > 99 and conv == 1: conv = 0
    ex = extent if extent else (logu(rnd, 50, 5000), logu(rnd, 50, 5000))

    def split(total, n):
        if rnd.random() < 0.4: return [total / n] * n
        w = [rnd.uniform(0.3, 1.7) for _ in range(n)]
        return [total * x / sum(w) for x in w]
    d = depth if depth else logu(rnd, 20, 2000)
    return dict(kind='rect', dx=split(ex[0], nx), dy=split(ex[1], ny), dz=split(d, nz), convention=conv,
                origin=[0., 0., ztop if ztop is not None else 0.], surface=None, angle=0.)


def add_surface(rnd, desc, mode):
    """mode: 'flat', 'low' (some columns lose their upper layers), 'slope'."""
    if mode == 'flat': return desc
    nx, ny, nz = len(desc['dx']), len(desc['dy']), len(desc['dz'])
    depth = sum(desc['dz'][:-1])      # the bottom layer stays
    surf = []
    gx, gy = rnd.uniform(-1, 1), rnd.uniform(-1, 1)
    for j in range(ny):
        for i in range(nx):
            if mode == 'low':
                s = -depth * rnd.choice([0., 0., 0.3, 0.6, 0.9, 1.0]) * rnd.random()
            else:
                f = 0.5 + 0.5 * (gx * ((i + 0.5) / nx - 0.5) + gy * ((j + 0.5) / ny - 0.5))
                s = -depth * min(1., max(0., f))
            surf.append(desc['origin'][2] + s)
    d = dict(desc); d['surface'] = surf
    return d


def build_geo(desc, atmos_type):
    """Builds a fresh geometry object from its description with the given atmosphere type."""
    if desc['kind'] == 'rect':
        geo = mulgrid().rectangular(desc['dx'], desc['dy'], desc['dz'], convention=desc['convention'],
                                    atmos_type=atmos_type, origin=[0., 0., desc['origin'][2]])
        if desc['surface'] is not None:
            for col, s in zip(geo.columnlist, desc['surface']):
                col.surface = s
                geo.set_column_num_layers(col)
            geo.setup_block_name_index(); geo.setup_block_connection_name_index()
        if desc.get('angle'): geo.rotate(desc['angle'], np.zeros(2))
        if desc['origin'][0] or desc['origin'][1]:
            geo.translate(np.array([desc['origin'][0], desc['origin'][1], 0.]))
    elif desc['kind'] == 'file':
        geo = mulgrid(os.path.join(REPO, 'tests', 'mulgrid', desc['file']))
        if atmos_type is not None and geo.atmosphere_type != atmos_type:
            geo.atmosphere_type = atmos_type
            geo.setup_block_name_index(); geo.setup_block_connection_name_index()
    else:
        raise ValueError(desc['kind'])
    for op in desc.get('ops', []):
        if op[0] == 'refine':
            cols = [geo.columnlist[i] for i in op[1] if i < geo.num_columns]
            geo.refine(cols)
        elif op[0] == 'refine_layers':
            lays = [geo.layerlist[i] for i in op[1] if 0 < i < geo.num_layers]
            geo.refine_layers(lays, factor=op[2])
        elif op[0] == 'shift':
            geo.translate(np.array(op[1]))
        elif op[0] == 'lower':
            # lower the surface of the listed columns by the given amounts (never below the bottom layer)
            floor = geo.layerlist[-1].top
            for i, dz in zip(op[1], op[2]):
                if i < geo.num_columns:
                    col = geo.columnlist[i]
                    col.surface = max(floor, col.surface - dz)
                    geo.set_column_num_layers(col)
            geo.setup_block_name_index(); geo.setup_block_connection_name_index()
    return geo


def tag_of(desc):
    if desc['kind'] == 'rect':
        t = 'rect%dx%dx%d/c%d' % (len(desc['dx']), len(desc['dy']), len(desc['dz']), desc['convention'])
        if desc['surface'] is not None: t += '/surf'
    else:
        t = desc['file']
    for op in desc.get('ops', []): t += '+' + op[0]
    return t


# --------------------------------------------------------------------------------------------------
# brute-force oracle

class Oracle(object):
    """Nearest-centre mapping target -> source by exhaustive search, with tie sets."""

    def __init__(self, src, tgt):
        self.src, self.tgt = src, tgt
        sc = np.array([c.centre for c in src.columnlist])
        self.colset = {}
        for col in tgt.columnlist:
            d = np.sqrt(((sc - np.array(col.centre)) ** 2).sum(axis=1))
            dmin = d.min()
            tol = 1.e-9 * (dmin + 1.) + 1.e-12 * float(np.abs(sc).max() + 1.)
            self.colset[col.name] = [src.columnlist[i] for i in np.where(d <= dmin + tol)[0]]
        slays = src.layerlist[1:]
        lc = np.array([0.5 * (l.top + l.bottom) for l in slays])
        self.layset = {}
        for lay in tgt.layerlist[1:]:
            d = np.abs(lc - 0.5 * (lay.top + lay.bottom))
            dmin = d.min()
            tol = 1.e-9 * (dmin + 1.) + 1.e-12 * float(np.abs(lc).max() + 1.)
            self.layset[lay.name] = [slays[i] for i in np.where(d <= dmin + tol)[0]]
        self.srcblocks = set(src.block_name_list)
        self.src_atm = src.block_name_list[:src.num_atmosphere_blocks]

    def ground_layer(self, col):
        """first source layer (from the top) with ground in it for this column"""
        for lay in self.src.layerlist[1:]:
            if lay.bottom < col.surface: return lay
        return None

    def underground(self, layname, colname):
        """acceptable source blocks for the target block in (layer, column)"""
        out = set()
        for C in self.colset[colname]:
            for L in self.layset[layname]:
                if C.surface <= L.bottom: L = self.ground_layer(C)
                if L is not None: out.add(self.src.block_name(L.name, C.name))
        return out

    def target_blocks(self):
        """(name, kind, layer name, column name) of every block of the target, by own enumeration"""
        tgt = self.tgt
        out = []
        a = tgt.layerlist[0].name
        if tgt.atmosphere_type == 0:
            out.append((tgt.block_name(a, tgt.atmosphere_column_name), 'atm', a, None))
        elif tgt.atmosphere_type == 1:
            for col in tgt.columnlist: out.append((tgt.block_name(a, col.name), 'atm', a, col.name))
        for lay in tgt.layerlist[1:]:
            for col in tgt.columnlist:
                if col.surface > lay.bottom: out.append((tgt.block_name(lay.name, col.name), 'ug', lay.name, col.name))
        return out

    def atmosphere(self, colname):
        """acceptable source atmosphere blocks for the target atmosphere block over colname (None: the single one)"""
        src = self.src
        if src.atmosphere_type == 0: return set(self.src_atm)
        if src.atmosphere_type == 1:
            if colname is None: return set(self.src_atm)      # any of them 'corresponds' to a single target block
            return set(src.block_name(src.layerlist[0].name, C.name) for C in self.colset[colname])
        return None   # source has no atmosphere: nothing required


# --------------------------------------------------------------------------------------------------
# contracts

def contract_block_mapping(src, tgt, orc):
    """src.block_mapping(tgt, True): total on the target's blocks, values exist in the source, nearest column, nearest
    layer, above-surface correction, atmosphere onto atmosphere; returns (ok, category, detail, mapping, colmapping)"""
    try:
        mapping, colmap = src.block_mapping(tgt, True)
    except TaskTimeout: raise
    except Exception as e:
        tb = traceback.extract_tb(sys.exc_info()[2])[-1]
        return False, 'mapping-exception', 'block_mapping raised %s: %s (%s:%d)' % (type(e).__name__, e, os.path.basename(tb.filename), tb.lineno), None, None
    blocks = orc.target_blocks()
    names = [b[0] for b in blocks]
    if set(names) != set(tgt.block_name_list):
        return False, 'harness-blocklist', 'own block enumeration differs from block_name_list', mapping, colmap
    missing = [n for n in names if n not in mapping]
    if missing:
        return False, 'mapping-not-total', 'target blocks without an image: %r' % missing[:3], mapping, colmap
    nameset = set(names)
    extra = [n for n in mapping if n not in nameset]
    if extra:
        return False, 'mapping-extra-keys', 'keys that are not target blocks: %r' % extra[:3], mapping, colmap
    for col in tgt.columnlist:
        got = colmap.get(col.name)
        ok = [C.name for C in orc.colset[col.name]]
        if got not in ok:
            C = src.column[got] if got in src.column else None
            return False, 'column-not-nearest', 'target column %r (centre %r) -> source column %r (centre %r); nearest is %r (centre %r)' % (
                col.name, [float(v) for v in col.centre], got, None if C is None else [float(v) for v in C.centre],
                ok[0], [float(v) for v in orc.colset[col.name][0].centre]), mapping, colmap
    for name, kind, layname, colname in blocks:
        got = mapping[name]
        if kind == 'ug':
            if got not in orc.srcblocks:
                return False, 'image-not-in-source', 'underground block %r -> %r, not a block of the source' % (name, got), mapping, colmap
            exp = orc.underground(layname, colname)
            if got not in exp:
                return False, 'block-not-nearest', 'block %r (layer %r, column %r) -> %r, expected %r' % (name, layname, colname, got, sorted(exp)[:4]), mapping, colmap
        else:
            exp = orc.atmosphere(colname)
            if exp is not None and got not in exp:
                return False, 'atmosphere-image', 'atmosphere block %r -> %r, expected one of %r' % (name, got, sorted(exp)[:4]), mapping, colmap
    return True, '', '', mapping, colmap


def contract_layer_mapping(src, tgt, orc):
    """src.layer_mapping(tgt): nearest layer centre, never the atmosphere layer; atmosphere layer -> atmosphere layer"""
    lm = src.layer_mapping(tgt)
    if lm.get(tgt.layerlist[0].name) != src.layerlist[0].name:
        return False, 'atmosphere layer maps to %r' % lm.get(tgt.layerlist[0].name)
    for lay in tgt.layerlist[1:]:
        ok = [l.name for l in orc.layset[lay.name]]
        if lm.get(lay.name) not in ok:
            return False, 'layer %r (centre %r) -> %r, nearest is %r' % (lay.name, float(lay.centre), lm.get(lay.name), ok)
    return True, ''


def contract_self_identity(geo):
    """mapping a geometry onto itself is the identity"""
    m = geo.block_mapping(geo)
    bad = [(k, v) for k, v in m.items() if k != v]
    if bad: return False, '%d blocks not mapped to themselves, e.g. %r -> %r' % (len(bad), bad[0][0], bad[0][1])
    if set(m) != set(geo.block_name_list): return False, 'keys differ from the block list'
    return True, ''


def make_incon(geo, nvar, rnd_offset=0.):
    inc = t2incon()
    for i, blk in enumerate(geo.block_name_list):
        var = [1.e5 + 7. * i + rnd_offset, 20. + 0.01 * i, 0.1 + 1.e-5 * i, 1.e-3 + 1.e-7 * i][:nvar]
        por = (0.05 + 1.e-5 * i) if i % 3 == 0 else None
        inc[blk] = t2blockincon(var, blk, porosity=por)
    return inc


def snapshot(inc):
    return [(b.block, tuple(b.variable), b.porosity, None if b.permeability is None else tuple(b.permeability)) for b in inc._blocklist]


def contract_incon_transfer(src, tgt, orc, nvar, explicit):
    """t2incon.transfer_from: every target block has exactly the state of its mapped source block; atmosphere by the
    3 x 3 table; source unaltered.  explicit=True passes an oracle-made mapping (so the atmosphere table is reached
    whatever block_mapping does)."""
    sinc = make_incon(src, nvar)
    before = snapshot(sinc)
    state = dict((b[0], b) for b in before)
    blocks = orc.target_blocks()
    kw = {}
    if explicit:
        mp_, cm = {}, {}
        for col in tgt.columnlist: cm[col.name] = orc.colset[col.name][0].name
        for name, kind, layname, colname in blocks:
            if kind == 'ug': mp_[name] = sorted(orc.underground(layname, colname))[0]
            else:
                a = orc.atmosphere(colname)
                mp_[name] = sorted(a)[0] if a else name
        kw = dict(mapping=mp_, colmapping=cm)
    ninc = t2incon()
    try:
        ninc.transfer_from(sinc, src, tgt, **kw)
    except TaskTimeout: raise
    except Exception as e:
        tb = traceback.extract_tb(sys.exc_info()[2])[-1]
        return False, 'incon-exception', 'transfer_from raised %s: %s (%s:%d)' % (type(e).__name__, e, os.path.basename(tb.filename), tb.lineno)
    if snapshot(sinc) != before:
        return False, 'incon-source-altered', 'the source initial conditions changed during the transfer'
    got = dict((b.block, b) for b in ninc._blocklist)
    names = [b[0] for b in blocks]
    if len(ninc._blocklist) != len(got): return False, 'incon-duplicate', 'duplicate blocks in the result'
    missing = [n for n in names if n not in got]
    if missing: return False, 'incon-missing', 'target blocks without initial conditions: %r' % missing[:3]
    nameset = set(names)
    extra = [n for n in got if n not in nameset]
    if extra: return False, 'incon-extra', 'initial conditions for blocks that are not in the target: %r' % extra[:3]
    satm = [state[n] for n in orc.src_atm]
    for name, kind, layname, colname in blocks:
        b = got[name]
        val = (tuple(b.variable), b.porosity)
        if kind == 'ug':
            cands = [mp_[name]] if explicit else orc.underground(layname, colname)
            exp = [(state[n][1], state[n][2]) for n in cands if n in state]
            if val not in exp:
                return False, 'incon-state', 'block %r has %r, expected the state of %r: %r' % (name, val, sorted(cands)[:3], exp[:3])
        else:
            st, tt = src.atmosphere_type, tgt.atmosphere_type
            if st == 2:
                if not np.allclose(b.variable, DEFAULT_ATM, rtol=1e-12):
                    return False, 'incon-atm-default', 'atmosphere block %r has %r, expected the default %r' % (name, list(b.variable), DEFAULT_ATM)
            elif st == 0:
                if val != (satm[0][1], satm[0][2]):
                    return False, 'incon-atm-copy', 'atmosphere block %r has %r, expected the source atmosphere state %r' % (name, val, satm[0][1:3])
            elif tt == 0:   # st == 1: average
                mean = np.mean(np.array([s[1] for s in satm]), axis=0)
                if len(b.variable) != len(mean) or not np.allclose(b.variable, mean, rtol=1e-10):
                    return False, 'incon-atm-average', 'atmosphere block %r has %r, expected the average %r' % (name, list(b.variable), list(mean))
            else:           # st == 1, tt == 1: the block over the nearest column
                cands = [mp_[name]] if explicit and False else orc.atmosphere(colname)
                if explicit: cands = [src.block_name(src.layerlist[0].name, cm[colname])]
                exp = [(state[n][1], state[n][2]) for n in cands]
                if val not in exp:
                    return False, 'incon-atm-column', 'atmosphere block %r has %r, expected the state of %r' % (name, val, sorted(cands)[:3])
    return True, '', ''


# ---- t2data.transfer_from -------------------------------------------------------------------------

def make_model(rnd, geo, nvar):
    """A source model on geo: rock types, generators at top / bottom / interior, with and without tables."""
    dat = t2data()
    dat.title = 'C19 source'
    dat.grid = t2grid().fromgeo(geo)
    rocks = [rocktype(name='rock%d' % i, porosity=0.1 + 0.01 * i, permeability=[1.e-15 * (i + 1)] * 3) for i in range(3)]
    for r in rocks: dat.grid.add_rocktype(r)
    for i, blk in enumerate(dat.grid.blocklist):
        if not blk.atmosphere: blk.rocktype = rocks[(i * 7) % 3]
    natm = geo.num_atmosphere_blocks
    ug = geo.block_name_list[natm:]
    gens = []
    cols = list(geo.columnlist)
    rnd.shuffle(cols)

    def table(gen, n, enth):
        gen.ltab = n
        gen.time = [float(k) * 1.e6 for k in range(n)]
        gen.rate = [rnd.uniform(-5., 5.) for _ in range(n)]
        if enth:
            gen.itab = '1'
            gen.enthalpy = [rnd.uniform(1.e5, 1.e6) for _ in range(n)]
    top_cat, bot_cat = 'rn'.rjust(geo.layername_length), 'ht'.rjust(geo.layername_length)
    dat._c19_cats = (top_cat, bot_cat)
    # top generators ('rn' rain, category in the generator name), one per chosen column, on the surface block
    for col in cols[:max(1, len(cols) // 2)]:
        lay = geo.column_surface_layer(col)
        g = t2generator(name=geo.block_name(top_cat, col.name), block=geo.block_name(lay.name, col.name),
                        type=rnd.choice(['MASS', 'COM1']), gx=rnd.uniform(0.1, 3.), ex=rnd.uniform(5.e4, 1.e5))
        if rnd.random() < 0.3: table(g, rnd.randint(2, 4), False)
        gens.append(g)
    # bottom generators ('ht' heat)
    for col in cols[:max(1, len(cols) // 3)]:
        g = t2generator(name=geo.block_name(bot_cat, col.name), block=geo.block_name(geo.layerlist[-1].name, col.name),
                        type='HEAT', gx=rnd.uniform(1.e3, 1.e5))
        gens.append(g)
    # interior generators with free names; two on one block; table with enthalpy; a type that is not scaled
    k = 0
    for blk in rnd.sample(ug, min(len(ug), 5)):
        k += 1
        g = t2generator(name='wel%2d' % k, block=blk, type=rnd.choice(['MASS', 'MASS', 'DELV', 'COM2', 'HEAT']),
                        gx=rnd.uniform(-20., 20.), ex=rnd.uniform(1.e5, 1.e6), hg=rnd.choice([0., 1.e5]))
        if k % 2 == 0: table(g, rnd.randint(2, 5), k % 4 == 0)
        gens.append(g)
        if k == 1:
            gens.append(t2generator(name='dup 1', block=blk, type='MASS', gx=1.5, ex=2.e5))
    for g in gens: dat.add_generator(g)
    # incons inside the data file for a few blocks
    for i, blk in enumerate(ug[:4]):
        dat.incon[blk] = [None, [1.e5 + i, 20. + i][:max(1, min(2, nvar))]]
    return dat


def gen_record(g):
    f = lambda v: None if v is None else [float(x) for x in v]
    return (g.block, g.name, g.type, float(g.gx or 0.), float(g.ex or 0.), float(g.hg or 0.), float(g.fg or 0.), g.ltab or 0,
            (g.itab or '').strip(), f(g.time) or [], f(g.rate) or [], f(g.enthalpy) or [])


def records_close(a, b):
    if a[:3] != b[:3] or a[7] != b[7] or a[8] != b[8]: return False
    for x, y in zip(a[3:7], b[3:7]):
        if abs(x - y) > 1.e-12 * max(1., abs(x)): return False
    for x, y in zip(a[9:], b[9:]):
        if len(x) != len(y) or any(abs(p - q) > 1.e-12 * max(1., abs(p)) for p, q in zip(x, y)): return False
    return True


def contract_model_identical(rnd, desc, atm, nvar, rename, preserve, tmpdir, with_incon_file):
    """t2data.transfer_from onto an identical geometry preserves every generator and the total generation (and rock
    assignments / in-file initial conditions; the incon file written alongside equals the source file)"""
    geo, geo2 = build_geo(desc, atm), build_geo(desc, atm)
    src = make_model(rnd, geo, nvar)
    before = [gen_record(g) for g in src.generatorlist]
    kw = dict(top_generator=[src._c19_cats[0]], bottom_generator=[src._c19_cats[1]], rename_generators=rename,
              preserve_generation_totals=preserve)
    if with_incon_file:
        sinc = make_incon(geo, nvar)
        sfn, tfn = os.path.join(tmpdir, 'src.incon'), os.path.join(tmpdir, 'tgt.incon')
        sinc.write(sfn)
        kw.update(sourceinconfilename=sfn, inconfilename=tfn)
    new = t2data()
    try:
        new.transfer_from(src, geo, geo2, **kw)
    except TaskTimeout: raise
    except Exception as e:
        tb = traceback.extract_tb(sys.exc_info()[2])[-1]
        return False, 'model-exception', 'transfer_from raised %s: %s (%s:%d)' % (type(e).__name__, e, os.path.basename(tb.filename), tb.lineno)
    if [gen_record(g) for g in src.generatorlist] != before:
        return False, 'model-source-altered', 'the source generators changed during the transfer'
    after = [gen_record(g) for g in new.generatorlist]
    if len(after) != len(before):
        return False, 'generator-count', '%d generators after the transfer, %d before' % (len(after), len(before))
    rest = list(after)
    for r in before:
        # with rename_generators the interior generators are named after their column: only the name may differ
        hit = [q for q in rest if records_close(r, q)]
        if not hit and rename and r[1][:3] in ('wel', 'dup'):
            hit = [q for q in rest if records_close((r[0], q[1]) + r[2:], q)]
        if not hit:
            near = [q for q in after if q[0] == r[0]][:2]
            return False, 'generator-changed', 'generator %r is not preserved; generators on that block afterwards: %r' % (r, near)
        rest.remove(hit[0])
    for typ in set(r[2] for r in before):
        t0 = sum(r[3] for r in before if r[2] == typ); t1 = sum(r[3] for r in after if r[2] == typ)
        r0 = sum(sum(r[10]) for r in before if r[2] == typ); r1 = sum(sum(r[10]) for r in after if r[2] == typ)
        if abs(t0 - t1) > 1.e-9 * max(1., abs(t0)) or abs(r0 - r1) > 1.e-9 * max(1., abs(r0)):
            return False, 'generation-total', 'total %s generation %r (tables %r) after, %r (%r) before' % (typ, t1, r1, t0, r0)
    keys = set((g.block, g.name) for g in new.generatorlist)
    if set(new.generator.keys()) != keys:
        return False, 'generator-lookup', 'generator lookup keys differ from the generator list'
    for b, b2 in zip(src.grid.blocklist, new.grid.blocklist):
        if b.name != b2.name or b.rocktype.name != b2.rocktype.name:
            return False, 'rocktype-changed', 'block %r rock %r -> block %r rock %r' % (b.name, b.rocktype.name, b2.name, b2.rocktype.name)
    if set(new.incon.keys()) != set(src.incon.keys()) or any(new.incon[k] != src.incon[k] for k in src.incon):
        return False, 'datafile-incon-changed', 'in-file initial conditions differ: %r vs %r' % (sorted(new.incon)[:3], sorted(src.incon)[:3])
    if with_incon_file:
        a, b = t2incon(sfn), t2incon(tfn)
        if snapshot(a) != snapshot(b):
            sa, sb = snapshot(a), snapshot(b)
            diff = [(x, y) for x, y in zip(sa, sb) if x != y][:1]
            return False, 'incon-file-changed', 'incon file written for an identical geometry differs from the source file: %d vs %d blocks, first difference %r' % (len(sa), len(sb), diff)
    return True, '', ''


def contract_model_refined(rnd, desc, rdesc, atm, nvar, preserve):
    """t2data.transfer_from onto a refinement: no exception, every generator sits on a block of the new grid, and with
    preserve_generation_totals the totals of the scaled (table-capable) generator types are kept"""
    geo, geo2 = build_geo(desc, atm), build_geo(rdesc, atm)
    src = make_model(rnd, geo, nvar)
    new = t2data()
    try:
        new.transfer_from(src, geo, geo2, top_generator=[src._c19_cats[0]], bottom_generator=[src._c19_cats[1]],
                          preserve_generation_totals=preserve)
    except TaskTimeout: raise
    except Exception as e:
        tb = traceback.extract_tb(sys.exc_info()[2])[-1]
        return False, 'model-exception', 'transfer_from raised %s: %s (%s:%d)' % (type(e).__name__, e, os.path.basename(tb.filename), tb.lineno)
    names = set(geo2.block_name_list)
    bad = [g for g in new.generatorlist if g.block not in names]
    if bad: return False, 'generator-block-missing', 'generator %r on block %r which is not in the target' % (bad[0].name, bad[0].block)
    if set((g.block, g.name) for g in new.generatorlist) != set(new.generator.keys()):
        return False, 'generator-lookup', 'generator lookup keys differ from the generator list'
    if preserve:
        for typ in set(g.type for g in src.generatorlist):
            if typ not in TABLEGENS: continue
            t0 = sum(float(g.gx or 0.) for g in src.generatorlist if g.type == typ)
            t1 = sum(float(g.gx or 0.) for g in new.generatorlist if g.type == typ)
            r0 = sum(sum(g.rate or []) for g in src.generatorlist if g.type == typ)
            r1 = sum(sum(g.rate or []) for g in new.generatorlist if g.type == typ)
            if abs(t0 - t1) > 1.e-9 * max(1., abs(t0)) or abs(r0 - r1) > 1.e-9 * max(1., abs(r0)):
                return False, 'generation-total-refined', 'total %s generation %r (tables %r) after, %r (%r) before' % (typ, t1, r1, t0, r0)
    return True, '', ''


# --------------------------------------------------------------------------------------------------
# tasks

def gen_tasks(rnd):
    tasks = []
    npairs = {'quick': 100, 'thorough': 2000}.get(tier, 120)
    nmodels = {'quick': 150, 'thorough': 3000}.get(tier, 150)
    combos = [(a, b) for a in (0, 1, 2) for b in (0, 1, 2)]
    for i in range(npairs):
        kind = ['coarse-fine', 'refine', 'refine-layers', 'shifted', 'surfaced', 'coarse-fine', 'rotated'][i % 7]
        if kind == 'coarse-fine':
            ex = (logu(rnd, 50, 5000), logu(rnd, 50, 5000)); depth = logu(rnd, 20, 2000)
            s = rect_desc(rnd, extent=ex, depth=depth)
            t = rect_desc(rnd, extent=(ex[0] * rnd.uniform(0.6, 1.3), ex[1] * rnd.uniform(0.6, 1.3)), depth=depth * rnd.uniform(0.6, 1.4),
                          ztop=rnd.choice([0., rnd.uniform(-0.2, 0.2) * depth]))
            t['origin'][0], t['origin'][1] = rnd.uniform(-0.2, 0.2) * ex[0], rnd.uniform(-0.2, 0.2) * ex[1]
            s = add_surface(rnd, s, rnd.choice(['flat', 'low', 'slope'])); t = add_surface(rnd, t, rnd.choice(['flat', 'low', 'slope']))
        elif kind == 'rotated':
            ex = (logu(rnd, 50, 5000), logu(rnd, 50, 5000)); depth = logu(rnd, 20, 2000)
            s = add_surface(rnd, rect_desc(rnd, extent=ex, depth=depth), rnd.choice(['flat', 'low']))
            t = rect_desc(rnd, extent=ex, depth=depth); t['angle'] = rnd.uniform(-30., 30.)
        else:
            s = add_surface(rnd, rect_desc(rnd, nmax=6, nzmax=6, conv=rnd.choice([0, 2, 3])), rnd.choice(['flat', 'low', 'slope']))
            t = json.loads(json.dumps(s))
            ncol, nlay = len(s['dx']) * len(s['dy']), len(s['dz'])
            if kind == 'refine':
                t['ops'] = [['refine', sorted(rnd.sample(range(ncol), rnd.randint(1, ncol)))]]
            elif kind == 'refine-layers':
                t['ops'] = [['refine_layers', sorted(rnd.sample(range(1, nlay + 1), rnd.randint(1, nlay))), rnd.choice([2, 3])]]
            elif kind == 'shifted':
                t['ops'] = [['shift', [rnd.uniform(-0.6, 0.6) * s['dx'][0], rnd.uniform(-0.6, 0.6) * s['dy'][0],
                                        rnd.choice([0., rnd.uniform(-0.6, 0.6) * s['dz'][0]])]]]
            elif kind == 'surfaced':
                cols = sorted(rnd.sample(range(ncol), rnd.randint(1, ncol)))
                t['ops'] = [['lower', cols, [rnd.uniform(0., sum(s['dz'])) for _ in cols]]]
            if rnd.random() < 0.5: s, t = t, s        # both directions
        nvar = rnd.randint(1, 4)
        for (a, b) in combos:
            tasks.append(dict(task='pair', kind=kind, src=s, tgt=t, satm=a, tatm=b, nvar=nvar, pair=i))
    # the shipped geometries: themselves, each other where they overlap, refinements
    files = [os.path.basename(f) for f in sorted(glob.glob(os.path.join(REPO, 'tests', 'mulgrid', 'g?.dat'))) if not f.endswith('~')]
    fd = lambda f, ops=None: dict(kind='file', file=f, ops=ops or [])
    shipped = []
    for f in files:
        shipped.append((fd(f), fd(f), 'self'))
    for a, b in (('g1.dat', 'g2.dat'), ('g2.dat', 'g1.dat'), ('g3.dat', 'g1.dat'), ('g1.dat', 'g3.dat'), ('g3.dat', 'g2.dat')):
        if a in files and b in files: shipped.append((fd(a), fd(b), 'overlap'))
    for f in ('g7.dat', 'g5.dat', 'g6.dat', 'g3.dat'):
        if f in files:
            shipped.append((fd(f), fd(f, [['refine', list(range(0, 60, 2))]]), 'refine'))
            shipped.append((fd(f, [['refine_layers', [2, 3, 5], 2]]), fd(f), 'refine-layers'))
            shipped.append((fd(f), fd(f, [['lower', list(range(0, 100, 3)), [50. + 13. * k for k in range(34)]]]), 'surfaced'))
    for k, (s, t, kind) in enumerate(shipped):
        small = s['file'] == 'g7.dat' and t['file'] == 'g7.dat'
        if tier == 'thorough' or small: cs = combos
        elif kind == 'self': cs = [(None, None)]
        else: cs = [(None, None), (k % 3, (k + 1) % 3)]
        for (a, b) in cs:
            tasks.append(dict(task='pair', kind='shipped-' + kind, src=s, tgt=t, satm=a, tatm=b, nvar=1 + k % 4, pair=1000 + k))
    for i in range(nmodels):
        d = add_surface(rnd, rect_desc(rnd, nmax=5, nzmax=5), rnd.choice(['flat', 'low', 'slope']))
        ncol = len(d['dx']) * len(d['dy'])
        t = dict(task='model', desc=d, atm=rnd.choice([0, 1, 2]), nvar=rnd.randint(1, 4), rename=rnd.random() < 0.3,
                 preserve=rnd.random() < 0.5, incon_file=rnd.random() < 0.4, model=i, seed=rnd.randrange(10 ** 9))
        # t2incon() refuses to read convention-3 block names (letters in the last two places): that is the incon
        # file's affair (C13), so the file variant is run where the file can be read back
        if d['convention'] == 3: t['incon_file'] = False
        if i % 3 == 2 and d['convention'] != 1:
            r = json.loads(json.dumps(d))
            r['ops'] = [['refine', sorted(rnd.sample(range(ncol), rnd.randint(1, ncol)))]] if i % 2 else \
                [['refine_layers', list(range(1, len(d['dz']) + 1)), 2]]
            t['refined'] = r
        tasks.append(t)
    return tasks


CONTRACTS = ['block_mapping', 'layer_mapping', 'self_identity', 'incon_transfer', 'incon_transfer_explicit_mapping',
             'model_identical', 'model_refined']


def run_body(t, tmpdir, fails, counts, desc, stage):
    """Evaluates every contract of one task; returns a sample description."""
    sample = None
    if t['task'] == 'pair':
        inp = dict(t)
        src, tgt = build_geo(t['src'], t['satm']), build_geo(t['tgt'], t['tatm'])
        base = 'satm=%d tatm=%d %s src=%s tgt=%s pair=%d' % (src.atmosphere_type, tgt.atmosphere_type, t['kind'],
                                                            tag_of(t['src']), tag_of(t['tgt']), t['pair'])

        def fail(cat, what):
            fails.append({'key': '%s %s' % (cat, base), 'what': what, 'input': inp})
        orc = Oracle(src, tgt)
        stage[0] = 'block_mapping'
        counts['block_mapping'] += 1
        ok, cat, what, mapping, colmap = contract_block_mapping(src, tgt, orc)
        if not ok: fail(cat, what)
        stage[0] = 'layer_mapping'
        counts['layer_mapping'] += 1
        ok, what = contract_layer_mapping(src, tgt, orc)
        if not ok: fail('layer-not-nearest', what)
        if t['satm'] == t['tatm'] or t['satm'] is None:
            stage[0] = 'self_identity'
            for g, nm in ((src, 'src'), (tgt, 'tgt')):
                counts['self_identity'] += 1
                ok, what = contract_self_identity(g)
                if not ok: fail('self-not-identity(%s)' % nm, what)
        stage[0] = 'incon_transfer'
        counts['incon_transfer'] += 1
        ok, cat, what = contract_incon_transfer(src, tgt, orc, t['nvar'], False)
        if not ok: fail(cat, what)
        counts['incon_transfer_explicit_mapping'] += 1
        ok, cat, what = contract_incon_transfer(src, tgt, orc, t['nvar'], True)
        if not ok: fail(cat + '(explicit-mapping)', what)
        nabove = 0
        # how often the above-surface correction is in play (for the case descriptor)
        for name, kind, layname, colname in orc.target_blocks():
            if kind == 'ug' and any(C.surface <= L.bottom for C in orc.colset[colname] for L in orc.layset[layname]):
                nabove += 1
        desc.append(('pair', t['kind'], tag_of(t['src']), tag_of(t['tgt']), src.atmosphere_type, tgt.atmosphere_type, t['nvar'], nabove > 0))
        sample = {'case': base, 'source_blocks': src.num_blocks, 'target_blocks': tgt.num_blocks,
                  'target_blocks_needing_above_surface_correction': nabove}
    else:
        rnd = random.Random(t['seed'])
        base = 'atm=%d conv=%d nvar=%d rename=%s preserve=%s inconfile=%s geo=%s model=%d' % (
            t['atm'], t['desc']['convention'], t['nvar'], t['rename'], t['preserve'], t['incon_file'], tag_of(t['desc']), t['model'])
        inp = dict(t)

        def fail(cat, what):
            fails.append({'key': '%s %s' % (cat, base), 'what': what, 'input': inp})
        stage[0] = 'model_identical'
        counts['model_identical'] += 1
        ok, cat, what = contract_model_identical(rnd, t['desc'], t['atm'], t['nvar'], t['rename'], t['preserve'], tmpdir, t['incon_file'])
        if not ok: fail(cat, what)
        if 'refined' in t:
            stage[0] = 'model_refined'
            counts['model_refined'] += 1
            ok, cat, what = contract_model_refined(rnd, t['desc'], t['refined'], t['atm'], t['nvar'], t['preserve'])
            if not ok: fail(cat + '(refined:%s)' % t['refined']['ops'][0][0], what)
        desc.append(('model', tag_of(t['desc']), t['atm'], t['rename'], t['preserve'], t['incon_file'], 'refined' in t))
    return sample


def run_task(t):
    fails, counts, desc = [], dict((c, 0) for c in CONTRACTS), []
    tmpdir = tempfile.mkdtemp(prefix='task-', dir=SCRATCH[0])
    signal.signal(signal.SIGALRM, _alarm)
    signal.alarm(TASK_TIMEOUT)
    sample = None
    stage = ['build']
    try:
        with contextlib.redirect_stdout(io.StringIO()):       # refine() prints when it skips a selection
            sample = run_body(t, tmpdir, fails, counts, desc, stage)
    except TaskTimeout:
        fails.append({'key': 'timeout %s %s' % (stage[0], json.dumps(t, sort_keys=True)[:120]), 'what': 'no result within %d s' % TASK_TIMEOUT, 'input': t})
    except Exception:
        fails.append({'key': 'harness-error %s %s' % (stage[0], t.get('kind', t['task'])), 'what': traceback.format_exc()[-700:], 'input': t})
    finally:
        signal.alarm(0)
        shutil.rmtree(tmpdir, ignore_errors=True)
    return fails, counts, desc, sample


class HarnessDeadline(Exception):
    pass


def _deadline(signum, frame):
    raise HarnessDeadline()


def _worker_init():
    # the parent's SIGTERM handler must not be inherited: Pool.terminate() relies on SIGTERM killing a worker outright
    signal.signal(signal.SIGTERM, signal.SIG_DFL)


def main():
    t0 = time.time()
    SCRATCH[0] = tempfile.mkdtemp(prefix='pytough-', dir=os.environ.get('PYTOUGH_SCRATCH', '/var/tmp'))
    signal.signal(signal.SIGTERM, lambda *a: sys.exit(1))      # so that the scratch directory goes even when killed
    rnd = random.Random(seed)
    tasks = gen_tasks(rnd)
    failures, counts, distinct, samples = [], dict((c, 0) for c in CONTRACTS), set(), []
    pool = mp.Pool(min(16, os.cpu_count() or 1), initializer=_worker_init)
    signal.signal(signal.SIGALRM, _deadline)
    signal.alarm({'quick': 280, 'thorough': 870}.get(tier, 280))      # whatever happens, report within the budget
    hung = False
    try:
        for fails, cnt, desc, sample in pool.imap(run_task, tasks, chunksize=1):
            failures.extend(fails)
            for k, v in cnt.items(): counts[k] += v
            distinct.update(desc)
            if sample is not None and len(samples) < 4 and sample.get('target_blocks_needing_above_surface_correction', 1) > 0:
                samples.append(sample)
    except HarnessDeadline:
        failures.append({'key': 'timeout harness-deadline', 'what': 'the harness did not finish within its wall-clock budget; results are partial',
                         'input': {'tier': tier, 'seed': seed}})
    finally:
        signal.alarm(30)
        try:
            pool.terminate(); pool.join()
        except HarnessDeadline:
            hung = True
        finally:
            signal.alarm(0)
        shutil.rmtree(SCRATCH[0], ignore_errors=True)
    # one of each category first (smallest input), then the rest
    def size(f):
        return len(json.dumps(f['input']))
    groups = {}
    for f in sorted(failures, key=lambda f: (size(f), f['key'])):
        i = f['input']
        groups.setdefault((f['key'].split(' ')[0], i.get('satm'), i.get('tatm')), []).append(f)
    ordered, rank = [], 0
    while len(ordered) < len(failures):
        for k in sorted(groups, key=lambda k: tuple(str(x) for x in k)):
            if rank < len(groups[k]): ordered.append(groups[k][rank])
        rank += 1
    out = {'evaluations': sum(counts.values()), 'distinct': len(distinct),
           'failures': ordered[:int(os.environ.get('C19_MAXFAIL', '60'))], 'nfailures': len(failures), 'samples': samples,
           'seconds': time.time() - t0, 'per_contract': counts, 'failure_classes': len(groups)}
    print('@@JSON@@' + json.dumps(out))
    if hung:
        sys.stdout.flush(); os._exit(0)


if __name__ == '__main__':
    main()
