"""C14 bounded stand-in: value / monotonicity / tolerance clauses of IAPWS-97 on dense grids.
usage: c14_grid.py <tier> <seed>"""
import sys, os, json, time, random, math
sys.path.insert(0, os.environ.get('PYTOUGH_REPO', '/repo'))
import warnings; warnings.filterwarnings('ignore')
import numpy as np
from scipy.optimize import brentq
import IAPWS97 as W

tier = sys.argv[1] if len(sys.argv) > 1 else 'quick'
seed = int(sys.argv[2]) if len(sys.argv) > 2 else 0
rnd = random.Random(seed)
t0 = time.time()
failures, evaluations, distinct, samples = [], 0, set(), []
N = 120 if tier == 'quick' else 600

def fail(key, what, inp):
    if len(failures) < 60: failures.append({'key': key, 'what': what, 'input': inp})

# ---- saturation line: exact inverses on the closed interval, both end points
ts = list(np.linspace(0.01, W.tcritical, 40 * N)) + [0.01, W.tcritical] + [W.tcritical - 10.0 ** (-k) for k in range(1, 13)] + [rnd.uniform(0.01, W.tcritical) for _ in range(20 * N)]
for t in ts:
    t = float(t)
    evaluations += 1
    p = W.sat(t)
    back = W.tsat(p) if p is not None else None
    if p is None or back is None or abs(back - t) > 1e-7:
        cat = 'sat-tsat-near-critical' if t >= 373.9459 else 'sat-tsat'
        fail('%s t=%r' % (cat, t), 'sat(%r) = %r, tsat(sat(t)) = %r (pcritical %r)' % (t, p, back, W.pcritical), {'t': t})
distinct.add('saturation t->p->t')
ps = list(np.exp(np.linspace(math.log(611.213), math.log(W.pcritical), 20 * N))) + [611.213, W.pcritical]
for p in ps:
    p = float(min(max(p, 611.213), W.pcritical))
    evaluations += 1
    t = W.tsat(p)
    back = W.sat(t) if t is not None else None
    if t is None or back is None or abs(back - p) > 1e-9 * p:
        fail('tsat-sat p=%r' % p, 'tsat(%r) = %r, sat(tsat(p)) = %r' % (p, t, back), {'p': p})
distinct.add('saturation p->t->p')
# ---- b23
for t in list(np.linspace(350., 590., 20 * N)) + [350., 590.]:
    evaluations += 1
    p = W.b23p(t); back = W.b23t(p)
    if back is None or abs(back - t) > 1e-6:
        fail('b23 t=%r' % t, 'b23t(b23p(%r)) = %r' % (t, back), {'t': t})
    back2 = W.b23p(W.b23t(p)) if back is not None else None
    if back2 is None or abs(back2 - p) > 1e-6 * p:
        fail('b23p-b23t p=%r' % p, 'b23p(b23t(%r)) = %r' % (p, back2), {'p': p})
distinct.add('b23')
# ---- region 1: density rises with pressure, viscosity positive, classifier
for t in np.linspace(0.01, 350., N):
    psat = W.sat(t)
    plist = np.linspace(psat * (1 + 1e-9), 100.e6, 40)
    prev = None
    for p in plist:
        evaluations += 1
        r = W.cowat(t, p)
        if r is None or not (r[0] > 0) or not math.isfinite(r[1]):
            fail('cowat-value t=%r p=%r' % (t, p), 'cowat = %r' % (r,), {'t': t, 'p': p}); continue
        if prev is not None and not r[0] > prev:
            fail('cowat-monotone t=%r p=%r' % (t, p), 'density %r does not rise with pressure (previous %r)' % (r[0], prev), {'t': t, 'p': p})
        prev = r[0]
        if not W.visc(r[0], t) > 0:
            fail('visc1 t=%r p=%r' % (t, p), 'viscosity %r' % W.visc(r[0], t), {'t': t, 'p': p})
        if p > psat * (1 + 1e-6) and W.region(t, p) != 1:
            fail('region1 t=%r p=%r' % (t, p), 'region(%r, %r) = %r, expected 1' % (t, p, W.region(t, p)), {'t': t, 'p': p})
distinct.add('region 1 grid')
# ---- region 2
for t in list(np.linspace(0.01, 800., N)) + [350., 350.0001, 590., 590.0001, 800.]:
    pmax = W.sat(t) * (1 - 1e-9) if t <= 350. else (W.b23p(t) * (1 - 1e-9) if t <= 590. else 100.e6)
    pmax = min(pmax, 100.e6)
    prev = None
    for p in np.exp(np.linspace(math.log(10.), math.log(pmax), 40)):
        p = float(min(p, pmax))
        evaluations += 1
        r = W.supst(t, p)
        if r is None or not (r[0] > 0) or not math.isfinite(r[1]):
            fail('supst-value t=%r p=%r' % (t, p), 'supst = %r' % (r,), {'t': t, 'p': p}); continue
        if prev is not None and not r[0] > prev:
            fail('supst-monotone t=%r p=%r' % (t, p), 'density %r does not rise with pressure (previous %r)' % (r[0], prev), {'t': t, 'p': p})
        prev = r[0]
        if not W.visc(r[0], t) > 0:
            fail('visc2 t=%r p=%r' % (t, p), 'viscosity %r' % W.visc(r[0], t), {'t': t, 'p': p})
        if p < pmax * (1 - 1e-6) and W.region(t, p) != 2:
            fail('region2 t=%r p=%r' % (t, p), 'region(%r, %r) = %r, expected 2' % (t, p, W.region(t, p)), {'t': t, 'p': p})
distinct.add('region 2 grid')
# ---- region 3: pressure rises with density above the critical temperature; classifier; boundaries
for t in list(np.linspace(W.tcritical + 0.5, 590., N // 2)):
    prev = None
    for d in np.linspace(120., 700., 40):
        evaluations += 1
        p, u = W.super(d, t)
        if prev is not None and not p > prev:
            fail('super-monotone t=%r d=%r' % (t, d), 'pressure %r does not rise with density (previous %r)' % (p, prev), {'t': t, 'd': d})
        prev = p
        if not W.visc(d, t) > 0:
            fail('visc3 t=%r d=%r' % (t, d), 'viscosity %r' % W.visc(d, t), {'t': t, 'd': d})
        if W.b23p(t) * (1 + 1e-6) < p <= 100.e6 and W.region(t, p) != 3:
            fail('region3 t=%r p=%r' % (t, p), 'region(%r, %r) = %r, expected 3' % (t, p, W.region(t, p)), {'t': t, 'p': p})
distinct.add('region 3 grid')
for t in [350.0001, 355., 360., 370., 373., 380., 388.]:   # sub-critical and near-critical part of region 3
    for frac in (1.01, 1.2, 2.0):
        p = W.b23p(t) * frac
        if p <= 100.e6:
            evaluations += 1
            if W.region(t, p) != 3:
                fail('region3 t=%r p=%r' % (t, p), 'region(%r, %r) = %r, expected 3' % (t, p, W.region(t, p)), {'t': t, 'p': p})
# ---- boundary consistency (IAPWS-97 requirements: |dv/v| <= 0.05 %, |dh| <= 0.2 kJ/kg)
def d3_for(p, t, lo, hi):
    return brentq(lambda d: W.super(d, t)[0] - p, lo, hi, xtol=1e-10)
for p in np.linspace(W.sat(350.) * 1.001, 100.e6, N // 4):
    evaluations += 1
    d1, u1 = W.cowat(350., p)
    try:
        d3 = d3_for(p, 350., d1 * 0.9, d1 * 1.1)
    except Exception as e:
        fail('boundary13 p=%r' % p, 'no region-3 density near the region-1 density: %s' % e, {'p': p}); continue
    u3 = W.super(d3, 350.)[1]
    h1, h3 = u1 + p / d1, u3 + p / d3
    if abs(d3 - d1) / d1 > 5e-4 or abs(h1 - h3) > 200.:
        fail('boundary13 p=%r' % p, 'region 1 (d=%r,h=%r) vs region 3 (d=%r,h=%r) at 350 C' % (d1, h1, d3, h3), {'p': p})
for t in np.linspace(350.0, 590., N // 4):
    evaluations += 1
    p = min(W.b23p(t), 100.e6)
    d2, u2 = W.supst(t, p)
    try:
        d3 = d3_for(p, t, d2 * 0.9, d2 * 1.1)
    except Exception as e:
        fail('boundary23 t=%r' % t, 'no region-3 density near the region-2 density: %s' % e, {'t': t}); continue
    u3 = W.super(d3, t)[1]
    h2, h3 = u2 + p / d2, u3 + p / d3
    if abs(d3 - d2) / d2 > 5e-4 or abs(h2 - h3) > 200.:
        fail('boundary23 t=%r' % t, 'region 2 (d=%r,h=%r) vs region 3 (d=%r,h=%r) on b23' % (d2, h2, d3, h3), {'t': t})
distinct.add('boundary 1/3'); distinct.add('boundary 2/3')
# ---- classifier outside the box
for (t, p) in [(0.0, 1e5), (800.1, 1e5), (100., -1.), (100., 100.1e6), (-5., 1e5)]:
    evaluations += 1
    if W.region(t, p) is not None:
        fail('region-outside t=%r p=%r' % (t, p), 'region = %r outside the range' % W.region(t, p), {'t': t, 'p': p})
for _ in range(2000 if tier == 'quick' else 50000):
    evaluations += 1
    t, p = rnd.uniform(0.01, 800.), rnd.uniform(0., 100.e6)
    r = W.region(t, p)
    want = None
    if t <= 350.: want = 1 if p > W.sat(t) else 2
    elif t <= 590.: want = 3 if p > W.b23p(t) else 2
    else: want = 2
    near = (t <= 350. and abs(p - W.sat(t)) < 1e-6 * p) or (350. < t <= 590. and abs(p - W.b23p(t)) < 1e-6 * p) or abs(t - 350.) < 1e-6 or abs(t - 590.) < 1e-6
    if r != want and not near:
        fail('region-random t=%r p=%r' % (t, p), 'region = %r, the valid equation is region %r' % (r, want), {'t': t, 'p': p})
distinct.add('classifier random')
samples = [{'t': 100., 'sat': W.sat(100.), 'tsat(sat)': W.tsat(W.sat(100.))}, {'cowat(20,1e5)': list(W.cowat(20., 1e5))}]
print('@@JSON@@' + json.dumps({'evaluations': evaluations, 'distinct': len(distinct), 'failures': failures,
                               'nfailures': len(failures), 'samples': samples, 'seconds': time.time() - t0}))
