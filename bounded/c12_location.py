"""C12 bounded stand-in: point and line location in a geometry, evaluated on the real library code
(mulgrid.column_containing_point with every search aid, block_name_containing_point,
block_contains_point, column_track) against an independent oracle: own winding-number
point-in-polygon with an exhaustive search over all columns, own layer / surface bookkeeping for the
3-D block, own segment-polygon clipping plus dense sampling along the line for the track.

Geometries: rectangular with spacings over three decades (plain and rotated), the shipped irregular
geometries tests/mulgrid/g1..g7.dat, rotated copies and partial refinements of them.

usage: c12_location.py <tier> <seed>
"""
import sys, os, json, time, math, random, signal
import multiprocessing as mp
import warnings
warnings.filterwarnings('ignore')
REPO = os.environ.get('PYTOUGH_REPO', '/repo')
sys.path.insert(0, REPO)
import numpy as np
from mulgrids import mulgrid

TASK_TIMEOUT = 600
CONTRACTS = ['column_plain', 'column_guess_right', 'column_guess_neighbour', 'column_guess_far', 'column_bounds_rectangle',
             'column_bounds_polygon', 'column_subset', 'column_qtree', 'column_guess_qtree', 'column_subset_guess',
             'column_bounds_guess_qtree', 'column_subset_qtree', 'column_scattered_subset_qtree', 'column_contains_result',
             'block_3d', 'block_3d_qtree', 'block_3d_blockmap', 'block_contains_point',
             'track_shape', 'track_spurious_column', 'track_missing_column', 'track_point_on_line', 'track_entry_exit',
             'track_order', 'track_abut', 'track_length_sum', 'track_dense_sampling']
TWO_PI = 2.0 * math.pi
ROUNDING_RATIO = 5.e-4    # see line_contracts: bound of the known crossing-merge rounding defect

# ----------------------------------------------------------------------------------------------
# independent oracle

class Oracle(object):
    """plain-array copy of the stored data of a geometry (node positions, column node lists, surfaces,
    layer bottoms, connection pairs); nothing computed by the library is used."""

    def __init__(self, geo):
        self.ncol = geo.num_columns
        polys = [np.array([[float(n.pos[0]), float(n.pos[1])] for n in c.node]) for c in geo.columnlist]
        allp = np.vstack(polys)
        self.ref = 0.5 * (allp.min(axis=0) + allp.max(axis=0))       # local origin, to keep round-off small
        self.lo, self.hi = allp.min(axis=0), allp.max(axis=0)
        self.extent = float(max(self.hi - self.lo))
        self.maxcoord = float(np.abs(allp).max())
        self.polys = [p - self.ref for p in polys]
        # a geometric (run-independent) numbering of the columns for the input generators: refine() names and orders
        # its new columns differently from run to run
        cen = [p.mean(axis=0) for p in self.polys]
        self.canon = sorted(range(self.ncol), key=lambda j: (round(float(cen[j][0]), 6), round(float(cen[j][1]), 6)))
        self.rank = dict((j, r) for r, j in enumerate(self.canon))
        x1, y1, x2, y2, owner, starts = [], [], [], [], [], []
        for i, p in enumerate(self.polys):
            starts.append(len(x1))
            q = np.roll(p, -1, axis=0)
            x1 += list(p[:, 0]); y1 += list(p[:, 1]); x2 += list(q[:, 0]); y2 += list(q[:, 1])
            owner += [i] * len(p)
        self.x1, self.y1, self.x2, self.y2 = map(np.array, (x1, y1, x2, y2))
        self.owner, self.starts = np.array(owner), np.array(starts)
        self.cmin = np.array([p.min(axis=0) for p in self.polys])
        self.cmax = np.array([p.max(axis=0) for p in self.polys])
        self.maxside = np.array([max(np.hypot(*(np.roll(p, -1, axis=0) - p).T)) for p in self.polys])
        self.nodes = np.array([[float(n.pos[0]), float(n.pos[1])] for n in geo.nodelist]) - self.ref
        idx = dict((id(c), i) for i, c in enumerate(geo.columnlist))
        self.nbr = [set() for _ in range(self.ncol)]
        for cn in geo.connectionlist:
            a, b = idx[id(cn.column[0])], idx[id(cn.column[1])]
            self.nbr[a].add(b); self.nbr[b].add(a)
        self.surface = [None if c.surface is None else float(c.surface) for c in geo.columnlist]
        self.bottom = [float(l.bottom) for l in geo.layerlist]
        self.layname = [l.name for l in geo.layerlist]
        self.colname = [c.name for c in geo.columnlist]
        self.conv = geo.convention
        # tolerances (see module doc of the property: points within a small tolerance of an edge are excluded)
        self.edge_tol = 1.e-6 * self.extent
        self.ptol = 1.e-7 * self.extent + 64 * 2.3e-16 * self.maxcoord
        self.ztol = 1.e-6 * max(self.bottom[0] - self.bottom[-1], 1.0)

    # -- point in polygon by winding number (sum of subtended angles), all columns at once
    def _winding(self, P, esel=None):
        x1, y1, x2, y2 = (self.x1, self.y1, self.x2, self.y2) if esel is None else \
            (self.x1[esel], self.y1[esel], self.x2[esel], self.y2[esel])
        ax, ay = x1[None, :] - P[:, 0, None], y1[None, :] - P[:, 1, None]
        bx, by = x2[None, :] - P[:, 0, None], y2[None, :] - P[:, 1, None]
        return np.arctan2(ax * by - ay * bx, ax * bx + ay * by)

    def containing(self, P):
        """P: (m,2) local coordinates -> list of arrays of column indices containing each point"""
        out = []
        m = max(1, int(4.e5 // len(self.x1)))
        for s in range(0, len(P), m):
            ang = self._winding(P[s:s + m])
            w = np.add.reduceat(ang, self.starts, axis=1)
            ins = np.abs(w) > math.pi
            for r in ins: out.append(np.nonzero(r)[0])
        return out

    def containing_among(self, P, cols):
        """same, restricted to the listed columns; returns an (m, len(cols)) boolean matrix"""
        esel = np.concatenate([np.arange(self.starts[c], self.starts[c] + len(self.polys[c])) for c in cols])
        st = np.cumsum([0] + [len(self.polys[c]) for c in cols])[:-1]
        res = []
        m = max(1, int(4.e5 // len(esel)))
        for s in range(0, len(P), m):
            ang = self._winding(P[s:s + m], esel)
            res.append(np.abs(np.add.reduceat(ang, st, axis=1)) > math.pi)
        return np.vstack(res)

    def edge_distance(self, P):
        """distance of each point to the nearest column edge (segment)"""
        out = np.empty(len(P))
        sx, sy = self.x2 - self.x1, self.y2 - self.y1
        s2 = sx * sx + sy * sy
        m = max(1, int(4.e5 // len(self.x1)))
        for s in range(0, len(P), m):
            px, py = P[s:s + m, 0, None] - self.x1[None, :], P[s:s + m, 1, None] - self.y1[None, :]
            t = np.clip((px * sx + py * sy) / s2, 0., 1.)
            out[s:s + m] = np.sqrt((px - t * sx) ** 2 + (py - t * sy) ** 2).min(axis=1)
        return out

    def random_column(self, rs): return self.canon[rs.randint(self.ncol)]

    def sample_poly(self, ci):
        """global polygon of column ci, starting at its lowest-leftmost vertex (run-independent)"""
        p = self.polys[ci]
        k = min(range(len(p)), key=lambda j: (round(float(p[j][0]), 6), round(float(p[j][1]), 6)))
        p = np.roll(p, -k, axis=0)
        if (p[1][0] - p[0][0]) * (p[2][1] - p[0][1]) - (p[1][1] - p[0][1]) * (p[2][0] - p[0][0]) < 0: p = np.vstack([p[:1], p[:0:-1]])
        return p + self.ref

    def in_poly(self, ci, p):
        poly = self.polys[ci]
        a = poly - p
        b = np.roll(a, -1, axis=0)
        w = np.arctan2(a[:, 0] * b[:, 1] - a[:, 1] * b[:, 0], a[:, 0] * b[:, 0] + a[:, 1] * b[:, 1]).sum()
        return abs(w) > math.pi

    # -- 3-D
    def block_of(self, ci, z):
        """(layer index, status): the layer whose block in column ci contains elevation z.
        status: 'in', 'below', 'above-ground', 'near' (within tolerance of a boundary / surface: excluded)"""
        b, s = self.bottom, self.surface[ci]
        if s is None: s = b[0]
        if abs(z - s) <= self.ztol or any(abs(z - v) <= self.ztol for v in b): return None, 'near'
        if z < b[-1]: return None, 'below'
        if z > s: return None, 'above-ground'
        if not s > b[-1]: return None, 'below'
        if z > b[0]: return 1, 'in'          # surface above the top of the top layer: the top block reaches up to it
        for k in range(1, len(b)):
            if b[k] < z < b[k - 1]: return k, 'in'
        return None, 'near'

    def block_name(self, k, ci):
        lay, col = self.layname[k], self.colname[ci]
        if self.conv in (0, 3): nm = col[0:3] + lay[0:2]
        elif self.conv == 1: nm = lay[0:3] + col[0:2]
        else: nm = lay[0:2] + col[0:3]
        if nm[2].isdigit() and nm[4].isdigit() and nm[3] == ' ': nm = nm[0:3] + '0' + nm[4]
        return nm

    # -- segment / polygon clipping
    def clip(self, A, B):
        """{column: [(t0, t1), ...]} parameter intervals of the segment A->B inside each column (own clipping:
        edge crossings by cross products, interval membership by the winding test at the midpoints)"""
        r = B - A
        lo, hi = np.minimum(A, B), np.maximum(A, B)
        cand = np.nonzero((self.cmin[:, 0] <= hi[0]) & (self.cmax[:, 0] >= lo[0]) &
                          (self.cmin[:, 1] <= hi[1]) & (self.cmax[:, 1] >= lo[1]))[0]
        res = {}
        for ci in cand:
            p = self.polys[ci]
            q = np.roll(p, -1, axis=0)
            s = q - p
            den = r[0] * s[:, 1] - r[1] * s[:, 0]
            w = p - A
            ok = np.abs(den) > 1e-300
            den = np.where(ok, den, 1.0)
            t = (w[:, 0] * s[:, 1] - w[:, 1] * s[:, 0]) / den
            u = (w[:, 0] * r[1] - w[:, 1] * r[0]) / den
            ts = sorted(set([0.0, 1.0] + [float(x) for x, uu, o in zip(t, u, ok) if o and -1e-12 <= uu <= 1 + 1e-12 and 0.0 < x < 1.0]))
            iv = []
            for t0, t1 in zip(ts[:-1], ts[1:]):
                if self.in_poly(ci, A + 0.5 * (t0 + t1) * r):
                    if iv and abs(iv[-1][1] - t0) < 1e-15: iv[-1] = (iv[-1][0], t1)
                    else: iv.append((t0, t1))
            if iv: res[int(ci)] = iv
        return res, cand

    def runs_along_edge(self, A, B):
        """True if some column edge lies (within the edge tolerance) on the line through A, B"""
        r = B - A
        L = math.hypot(r[0], r[1])
        d1 = np.abs((self.x1 - A[0]) * r[1] - (self.y1 - A[1]) * r[0]) / L
        d2 = np.abs((self.x2 - A[0]) * r[1] - (self.y2 - A[1]) * r[0]) / L
        return bool(np.any((d1 < 10 * self.edge_tol) & (d2 < 10 * self.edge_tol)))


# ----------------------------------------------------------------------------------------------
# geometries

def log_spacing(rnd, n):
    style = rnd.choice(['decades', 'decades', 'graded', 'uniform'])
    if style == 'decades': return [round(10 ** rnd.uniform(0, 3), 3) for _ in range(n)]
    if style == 'uniform': return [round(10 ** rnd.uniform(0, 3), 2)] * n
    d0, f = rnd.uniform(1, 5), rnd.uniform(1.3, 2.2)
    half = [d0 * f ** i for i in range((n + 1) // 2)]
    return [round(v, 4) for v in (half[::-1] + half)[:n]]        # fine in the middle, coarse outside


def wellfield_spec(rnd, j):
    """a regional grid of R-sized columns with a patch of r-sized columns (R/r = 25 .. 400) in it: the setting in which
    long lines start near, or run far towards, very small columns"""
    R, r = rnd.choice([500., 1000., 2000.]), rnd.choice([5., 10., 20.])
    ax, bx, mx = rnd.randint(2, 8), rnd.randint(3, 9), rnd.randint(4, 10)
    ay, by, my = rnd.randint(1, 4), rnd.randint(1, 4), rnd.randint(3, 7)
    origin = rnd.choice([[0., 0., 0.], [round(rnd.uniform(-1e4, 1e4), 1), round(rnd.uniform(-1e4, 1e4), 1), 0.], [2765984.77, 6261546.23, 880.]])
    return {'kind': 'rect', 'id': 1000 + j, 'dx': [R] * ax + [r] * mx + [R] * bx, 'dy': [R] * ay + [r] * my + [R] * by, 'dz': [50., 100., 200.],
            'origin': origin, 'convention': rnd.choice([0, 2]), 'atmos_type': rnd.randint(0, 2), 'surfaces': False, 'rotate': None,
            'wellfield': {'x0': origin[0] + R * ax, 'x1': origin[0] + R * ax + r * mx, 'y0': origin[1] + R * ay, 'y1': origin[1] + R * ay + r * my,
                          'r': r, 'R': R}, 'seed': rnd.randrange(1 << 30)}


def make_geo(spec):
    rnd = random.Random(spec['seed'])
    if spec['kind'] == 'rect':
        geo = mulgrid().rectangular(spec['dx'], spec['dy'], spec['dz'], origin=spec['origin'], convention=spec['convention'],
                                    atmos_type=spec['atmos_type'])
    else:
        geo = mulgrid(os.path.join(REPO, 'tests', 'mulgrid', spec['file']))
        if spec.get('fix'):
            # g3.dat is shipped with 20 connections missing and an orphan node (it is the test input of check()):
            # make it a valid geometry first (check(fix) does not refresh the neighbour sets, hence the second call)
            geo.check(fix=True, silent=True)
            geo.identify_neighbours()
    if spec.get('refine'):
        geo.refine([c for c in geo.columnlist[spec['refine']['offset']::spec['refine']['every']]])
    if spec.get('surfaces'):
        b = [float(l.bottom) for l in geo.layerlist]
        for col in sorted(geo.columnlist, key=lambda c: (round(float(c.centre[0]), 6), round(float(c.centre[1]), 6))):
            u = rnd.random()
            if u < 0.25: continue
            if u < 0.45: s = b[0] + rnd.uniform(0.05, 1.5) * (b[0] - b[1])
            else:
                k = rnd.randint(1, len(b) - 1)
                s = b[k] + rnd.uniform(0.1, 0.9) * (b[k - 1] - b[k])
            col.surface = s
            geo.set_column_num_layers(col)
        geo.setup_block_name_index()
        geo.setup_block_connection_name_index()
    if spec.get('rotate') is not None: geo.rotate(spec['rotate'])
    return geo


def geo_tag(spec):
    if spec['kind'] == 'rect':
        return '%s#%d[%dx%d%s]' % ('wellfield' if spec.get('wellfield') else 'rect', spec['id'], len(spec['dx']), len(spec['dy']),
                                   ' rot%g' % spec['rotate'] if spec.get('rotate') is not None else '')
    return '%s%s%s%s' % (spec['file'][:-4], ' rot%g' % spec['rotate'] if spec.get('rotate') is not None else '',
                         ' refined%d/%d' % (spec['refine']['offset'], spec['refine']['every']) if spec.get('refine') else '',
                         ' surf' if spec.get('surfaces') else '')


# ----------------------------------------------------------------------------------------------
# the task: one geometry, a chunk of points and lines

class Res(object):
    def __init__(self, tag, spec):
        self.tag, self.spec = tag, spec
        self.evals = dict((c, 0) for c in CONTRACTS)
        self.failures, self.percat, self.nfail = [], {}, 0
        self.distinct = set()
        self.skipped = {}

    def fail(self, cat, item, what, inp):
        self.nfail += 1
        n = self.percat.get(cat, 0)
        self.percat[cat] = n + 1
        if n < 2:
            d = {'geometry': self.spec}
            d.update(inp)
            self.failures.append({'key': '%s %s %s' % (cat, self.tag, item), 'what': what, 'input': d})

    def skip(self, why): self.skipped[why] = self.skipped.get(why, 0) + 1


def gen_points(O, rs, n):
    """candidate 2-D points (global coordinates), with the generator class of each"""
    pts, kinds = [], []
    span = O.hi - O.lo
    for _ in range(n):
        u = rs.rand()
        if u < 0.35:
            p = O.lo - 0.15 * span + rs.rand(2) * 1.3 * span; k = 'bbox'
        elif u < 0.65:
            poly = O.sample_poly(O.random_column(rs))
            w = rs.dirichlet(np.ones(len(poly))); p = (w[:, None] * poly).sum(axis=0); k = 'in-column'
        elif u < 0.80:
            nd = O.sample_poly(O.random_column(rs))[0]           # same y (or x) as a vertex: the half-open crossing rule
            p = O.lo + rs.rand(2) * span
            if rs.rand() < 0.7: p[1] = nd[1]
            else: p[0] = nd[0]
            k = 'vertex-aligned'
        elif u < 0.92:
            ci = O.random_column(rs)
            poly = O.sample_poly(ci)
            v = poly[rs.randint(len(poly))]
            ang = rs.rand() * TWO_PI
            p = v + O.maxside[ci] * 10 ** rs.uniform(-4, -1) * np.array([math.cos(ang), math.sin(ang)]); k = 'near-vertex'
        else:
            p = O.lo - 3 * span + rs.rand(2) * 7 * span; k = 'far-outside'
        pts.append(p); kinds.append(k)
    return np.array(pts), kinds


def point_contracts(geo, O, R, rs, npoints, aids):
    cols = geo.columnlist
    P, kinds = gen_points(O, rs, npoints)
    Ploc = P - O.ref
    dist = O.edge_distance(Ploc)
    cont = O.containing(Ploc)
    qtree, bpoly, brect = aids['qtree'], aids['bpoly'], aids['brect']
    bmap = aids['blockmap']
    for i in range(len(P)):
        if dist[i] < O.edge_tol: R.skip('point within tolerance of an edge'); continue
        if len(cont[i]) > 1: R.skip('point in overlapping columns (geometry not a tiling there)'); continue
        pos = P[i].copy()
        ti = int(cont[i][0]) if len(cont[i]) else None
        truth = cols[ti] if ti is not None else None
        R.distinct.add((R.tag, kinds[i], ti is not None))
        item = 'point (%r, %r)' % (float(pos[0]), float(pos[1]))
        # the aids
        far = cols[O.random_column(rs)]
        if ti is not None and O.nbr[ti]: nb = cols[sorted(O.nbr[ti], key=O.rank.get)[rs.randint(len(O.nbr[ti]))]]
        else: nb = cols[O.random_column(rs)]
        sub_idx = set(O.canon[j] for j in np.nonzero(rs.rand(O.ncol) < 0.3)[0].tolist())
        if ti is not None: sub_idx.add(ti)
        if not sub_idx: sub_idx.add(0)
        subset = [cols[j] for j in sorted(sub_idx)]
        calls = [('column_plain', {}),
                 ('column_guess_neighbour', {'guess': nb}),
                 ('column_guess_far', {'guess': far}),
                 ('column_bounds_rectangle', {'bounds': brect}),
                 ('column_bounds_polygon', {'bounds': bpoly}),
                 ('column_subset', {'columns': subset}),
                 ('column_qtree', {'qtree': qtree}),
                 ('column_guess_qtree', {'guess': nb, 'qtree': qtree}),
                 ('column_subset_guess', {'columns': subset, 'guess': cols[sorted(sub_idx, key=O.rank.get)[rs.randint(len(sub_idx))]]}),
                 ('column_bounds_guess_qtree', {'bounds': bpoly, 'guess': far, 'qtree': qtree})]
        if truth is not None: calls.insert(1, ('column_guess_right', {'guess': truth}))
        if i % 8 == 0:
            # a quadtree over a column subset: a contiguous patch around the answer, and the scattered subset
            start = ti if ti is not None else O.random_column(rs)
            patch, frontier = set([start]), [start]
            while frontier and len(patch) < 40:
                j = frontier.pop(0)
                for q in sorted(O.nbr[j]):
                    if q not in patch: patch.add(q); frontier.append(q)
            patchcols = [cols[j] for j in sorted(patch)]
            calls.append(('column_subset_qtree', {'columns': patchcols, 'qtree': geo.column_quadtree(patchcols)}))
            calls.append(('column_scattered_subset_qtree', {'columns': subset, 'qtree': geo.column_quadtree(subset)}))
        for cname, kw in calls:
            if cname == 'column_bounds_polygon' and bpoly is None: continue
            if cname == 'column_bounds_guess_qtree' and bpoly is None: kw = {'bounds': brect, 'guess': far, 'qtree': qtree}
            R.evals[cname] += 1
            try:
                got = geo.column_containing_point(pos, **kw)
            except Exception as e:
                R.fail(cname.replace('_', '-') + '-exception', item, 'raises %s: %s' % (type(e).__name__, e),
                       {'point': [float(pos[0]), float(pos[1])], 'aid': cname})
                continue
            if got is not truth:
                R.fail(cname.replace('_', '-'), item, 'returns %s, exhaustive search over all columns gives %s (distance to nearest edge %.3g)' %
                       (None if got is None else repr(got.name), None if truth is None else repr(truth.name), dist[i]),
                       {'point': [float(pos[0]), float(pos[1])], 'aid': cname,
                        'aid_args': dict((k, (v.name if hasattr(v, 'name') else '...')) for k, v in kw.items()),
                        'expected': None if truth is None else truth.name, 'observed': None if got is None else got.name})
            if got is not None:
                R.evals['column_contains_result'] += 1
                gi = next((j for j, c in enumerate(cols) if c is got), None)
                if gi is None or not O.in_poly(gi, Ploc[i]):
                    R.fail('column-does-not-contain-point', item, 'reported column %r does not contain the point' % got.name,
                           {'point': [float(pos[0]), float(pos[1])], 'aid': cname})
        # 3-D
        b = O.bottom
        smax = max([s for s in O.surface if s is not None] + [b[0]])
        for rep in range(2):
            if ti is not None and rep == 1:
                s = O.surface[ti] if O.surface[ti] is not None else b[0]
                ks = [k for k in range(1, len(b)) if b[k] < s] or [len(b) - 1]
                k = ks[0]
                z = rs.uniform(min(b[k], s - 1.), max(b[k - 1], s) + 0.3 * (b[k - 1] - b[k]))     # around the ground surface
                zk = 'around-surface'
            else:
                z = rs.uniform(b[-1] - 0.1 * (b[0] - b[-1]), smax + 0.1 * (b[0] - b[-1])); zk = 'uniform'
            if ti is None: want, status = None, 'outside-columns'
            else:
                k, status = O.block_of(ti, z)
                if status == 'near': R.skip('elevation within tolerance of a layer boundary / surface'); continue
                want = O.block_name(k, ti) if k is not None else None
            R.distinct.add((R.tag, '3d', zk, status))
            p3 = np.array([pos[0], pos[1], z])
            item3 = 'point (%r, %r, %r)' % (float(pos[0]), float(pos[1]), float(z))
            suffix = '-above-surface' if status == 'above-ground' else ''
            for cname, kw in (('block_3d', {}), ('block_3d_qtree', {'qtree': qtree}), ('block_3d_blockmap', {'blockmap': bmap})):
                R.evals[cname] += 1
                exp = want if cname != 'block_3d_blockmap' or want is None else bmap.get(want, want)
                try:
                    got = geo.block_name_containing_point(p3, **kw)
                except Exception as e:
                    R.fail(cname.replace('_', '-') + '-exception', item3, 'raises %s: %s' % (type(e).__name__, e), {'point': p3.tolist()})
                    continue
                if got != exp:
                    R.fail(cname.replace('_', '-') + suffix, item3,
                           'returns %r, expected %r (%s; column surface %r, layer bottoms nearby %r)' %
                           (got, exp, status, None if ti is None else O.surface[ti], [v for v in b if abs(v - z) < 2 * (b[0] - b[1])][:4]),
                           {'point': p3.tolist(), 'expected': exp, 'observed': got, 'column': None if ti is None else O.colname[ti],
                            'column_surface': None if ti is None else O.surface[ti]})
            # block_contains_point: true for the block found by the oracle, false for the blocks above / below and next door
            if ti is not None:
                probes = []
                if want is not None:
                    probes.append((want, True, '-raised-top' if z > b[0] else ''))
                    if k + 1 < len(b): probes.append((O.block_name(k + 1, ti), False, ''))
                    if k - 1 >= 1 and z < b[0]: probes.append((O.block_name(k - 1, ti), False, ''))
                    if O.nbr[ti]: probes.append((O.block_name(k, sorted(O.nbr[ti])[0]), False, ''))
                elif status == 'above-ground':
                    s = O.surface[ti]
                    ks = [kk for kk in range(1, len(b)) if b[kk] < s]
                    if ks: probes.append((O.block_name(ks[0], ti), False, '-above-surface'))
                for bn, exp, sfx in probes:
                    R.evals['block_contains_point'] += 1
                    try: got = bool(geo.block_contains_point(bn, p3))
                    except Exception as e:
                        R.fail('block-contains-point-exception', item3, 'raises %s: %s' % (type(e).__name__, e), {'point': p3.tolist(), 'block': bn})
                        continue
                    if got != exp:
                        R.fail('block-contains-point' + sfx, item3 + ' block %r' % bn, 'block_contains_point(%r) is %r, expected %r (%s)' % (bn, got, exp, status),
                               {'point': p3.tolist(), 'block': bn, 'column_surface': O.surface[ti]})


def gen_wellfield_line(O, rs, wf):
    """long lines that start (or end) a few small-column widths outside the fine patch, or inside it, and cross it"""
    r, R = wf['r'], wf['R']
    kind = ['start-before-patch', 'start-in-patch', 'end-after-patch', 'start-far-through-patch'][rs.randint(4)]
    yin = rs.uniform(wf['y0'] + 0.3 * r, wf['y1'] - 0.3 * r)
    ang = rs.uniform(-0.03, 0.03) if rs.rand() < 0.7 else rs.uniform(-0.6, 0.6)
    d = np.array([math.cos(ang), math.sin(ang)])
    if rs.rand() < 0.3:                      # the same along y
        xin = rs.uniform(wf['x0'] + 0.3 * r, wf['x1'] - 0.3 * r)
        near, d = np.array([xin, wf['y0'] - rs.uniform(2., 8.) * r]), np.array([math.sin(ang), math.cos(ang)])
        inside = np.array([xin, rs.uniform(wf['y0'], wf['y1'])])
    else:
        near = np.array([wf['x0'] - rs.uniform(2., 8.) * r, yin])
        inside = np.array([rs.uniform(wf['x0'], wf['x1']), yin])
    length = rs.uniform(5., 20.) * R * (1000. / R) ** 0.5 if R != 1000. else rs.uniform(8000., 20000.)
    if kind == 'start-before-patch': A, B = near, near + length * d
    elif kind == 'start-in-patch': A, B = inside, inside + length * d
    elif kind == 'end-after-patch': A, B = near + (rs.uniform(2., 8.) * r + (wf['x1'] - wf['x0'])) * 2 * d - length * d, near + (rs.uniform(10., 30.) * r + (wf['x1'] - wf['x0'])) * d
    else: A, B = inside - rs.uniform(0.3, 0.9) * length * d, inside + rs.uniform(0.1, 0.5) * length * d
    if rs.rand() < 0.25: A, B = B, A
    return A, B, 'wellfield-' + kind


def gen_line(O, rs, wf=None):
    if wf is not None and rs.rand() < 0.6: return gen_wellfield_line(O, rs, wf)
    span = O.hi - O.lo

    def endpoint(kind):
        if kind == 'in':
            poly = O.sample_poly(O.random_column(rs))
            w = rs.dirichlet(np.ones(len(poly))); return (w[:, None] * poly).sum(axis=0)
        if kind == 'box': return O.lo - 0.2 * span + rs.rand(2) * 1.4 * span
        return O.lo - 2 * span + rs.rand(2) * 5 * span
    u = rs.rand()
    if u < 0.3: k = ('in', 'in')
    elif u < 0.5: k = ('in', 'box')
    elif u < 0.65: k = ('box', 'in')
    elif u < 0.8: k = ('box', 'box')
    elif u < 0.9: k = ('far', 'far')
    elif u < 0.95: k = ('far', 'in')
    else: k = ('short', 'short')
    if k[0] == 'short':
        ci = O.random_column(rs)
        poly = O.sample_poly(ci)
        w = rs.dirichlet(np.ones(len(poly))); A = (w[:, None] * poly).sum(axis=0)
        ang = rs.rand() * TWO_PI
        B = A + O.maxside[ci] * rs.uniform(0.05, 3.) * np.array([math.cos(ang), math.sin(ang)])
    else:
        A, B = endpoint(k[0]), endpoint(k[1])
    return A, B, '%s-%s' % k


def line_contracts(geo, O, R, rs, nlines, ndense):
    cols = geo.columnlist
    colindex = dict((id(c), i) for i, c in enumerate(cols))
    for _ in range(nlines):
        A, B, lk = gen_line(O, rs, R.spec.get('wellfield'))
        L = float(np.hypot(*(B - A)))
        if L < 100 * O.ptol: R.skip('degenerate line'); continue
        Al, Bl = A - O.ref, B - O.ref
        if (O.edge_distance(np.array([Al, Bl])) < O.edge_tol).any(): R.skip('line end point within tolerance of an edge'); continue
        if O.runs_along_edge(Al, Bl): R.skip('line runs along a column edge'); continue
        clip, cand = O.clip(Al, Bl)
        item = 'line (%r, %r)-(%r, %r)' % (float(A[0]), float(A[1]), float(B[0]), float(B[1]))
        inp = {'line': [A.tolist(), B.tolist()]}
        ptol = O.ptol
        clen = dict((ci, sum(t1 - t0 for t0, t1 in iv) * L) for ci, iv in clip.items())
        inside_len = sum(clen.values())
        thr = dict((int(ci), 1.e-3 * O.maxside[ci]) for ci in set(clip) | set(int(c) for c in cand))
        # a non-convex column entered twice cannot be represented by one (column, entry, exit) item: such lines get their
        # own failure categories
        rv = '-revisited-column' if any(len(iv) > 1 for iv in clip.values()) else ''
        R.distinct.add((R.tag, 'line', lk, min(len(clip), 5), inside_len < L - ptol, rv))
        R.evals['track_shape'] += 1
        try:
            track = geo.column_track([A.copy(), B.copy()])
        except Exception as e:
            R.fail('track-exception', item, 'raises %s: %s' % (type(e).__name__, e), inp); continue
        ok = isinstance(track, list) and all(len(t) == 3 and id(t[0]) in colindex and np.shape(t[1]) == (2,) and np.shape(t[2]) == (2,) for t in track)
        tcols = [colindex.get(id(t[0])) for t in track] if ok else []
        if not ok or len(set(tcols)) != len(tcols):
            R.fail('track-shape', item, 'track is not a list of (column, entry, exit) with distinct columns: %r' % ([t[0].name for t in track] if ok else track,), inp)
            continue
        r = (Bl - Al) / L
        ents, exts = [], []
        for t in track:
            pin, pout = np.array(t[1], dtype=float) - O.ref, np.array(t[2], dtype=float) - O.ref
            ents.append((float(np.dot(pin - Al, r)), float(abs((pin - Al)[0] * r[1] - (pin - Al)[1] * r[0]))))
            exts.append((float(np.dot(pout - Al, r)), float(abs((pout - Al)[0] * r[1] - (pout - Al)[1] * r[0]))))
        names = [t[0].name for t in track]
        # listed columns are really crossed
        for ci, nm in zip(tcols, names):
            R.evals['track_spurious_column'] += 1
            if ci not in clip:
                R.fail('track-spurious-column', item + ' column %r' % nm, 'column %r is listed but the line does not cross it' % nm, inp)
        # every crossed column is listed, except clips shorter than 1e-3 x its longest side.
        # Sub-class '-rounding': the recorded defect of geometry.line_polygon_intersections (crossings are merged when their
        # distances from the line start, divided by the distance of one of them, round to the same 3 decimals) can only lose
        # a column whose clipped length is at most 5e-4 of the distance of its far end from the line start (measured maximum
        # on the unchanged tree: 4.8e-4 of the distance of the near end).  Any other missing column keeps the plain category.
        listed = set(tcols)
        rounding_missing = set()
        for ci in clip:
            if clen[ci] > 1.05 * thr[ci] + 2 * ptol:
                R.evals['track_missing_column'] += 1
                if ci not in listed:
                    t0, t1 = clip[ci][0][0] * L, clip[ci][-1][1] * L
                    ratio = clen[ci] / max(t1, 1.0)
                    sub = ''
                    if ratio <= ROUNDING_RATIO and len(clip[ci]) == 1:
                        sub = '-rounding'
                        rounding_missing.add(ci)
                    R.fail('track-missing-column' + sub, item + ' column %r' % O.colname[ci],
                           'column %r is crossed over a length of %.6g (longest side %.6g, i.e. %.3g x the drop threshold), %.6g from the start of the line (length / distance = %.3g), but is not in the track' %
                           (O.colname[ci], clen[ci], O.maxside[ci], clen[ci] / thr[ci], t0, ratio),
                           dict(inp, column=O.colname[ci], clipped_length=clen[ci], distance_from_start=t0, length_over_distance=ratio))
        # points on the line, equal to the clipped entry / exit
        for j, (ci, nm) in enumerate(zip(tcols, names)):
            R.evals['track_point_on_line'] += 1
            if ents[j][1] > ptol or exts[j][1] > ptol or ents[j][0] < -ptol or exts[j][0] > L + ptol:
                R.fail('track-point-off-line', item + ' column %r' % nm, 'entry / exit of %r lie %.3g / %.3g off the line (at %.6g / %.6g of %.6g along it)' %
                       (nm, ents[j][1], exts[j][1], ents[j][0], exts[j][0], L), inp)
            if ci in clip and len(clip[ci]) == 1:
                R.evals['track_entry_exit'] += 1
                e0, e1 = clip[ci][0][0] * L, clip[ci][0][1] * L
                if abs(ents[j][0] - e0) > ptol or abs(exts[j][0] - e1) > ptol:
                    R.fail('track-entry-exit', item + ' column %r' % nm, 'column %r: entry / exit at %.9g / %.9g along the line, clipping gives %.9g / %.9g' %
                           (nm, ents[j][0], exts[j][0], e0, e1), dict(inp, column=nm))
        # ordered along the line
        R.evals['track_order'] += 1
        bad = [j for j in range(len(track)) if exts[j][0] < ents[j][0] - ptol or (j > 0 and ents[j][0] < ents[j - 1][0] - ptol)]
        if bad:
            R.fail('track-order' + rv, item, 'entries not ordered along the line at index %d: entry distances %r' % (bad[0], [round(e[0], 6) for e in ents][:12]), inp)
        # consecutive segments abut (a gap is legitimate only over dropped short clips / stretches outside the domain)
        keep = [(t0 * L, t1 * L) for ci, iv in clip.items() if clen[ci] > 1.05 * thr[ci] + 2 * ptol and ci not in rounding_missing for t0, t1 in iv]
        keep_rounding = [(t0 * L, t1 * L) for ci in rounding_missing for t0, t1 in clip[ci]]
        for j in range(1, len(track)):
            R.evals['track_abut'] += 1
            g0, g1 = exts[j - 1][0], ents[j][0]
            if g1 - g0 < -ptol:
                R.fail('track-overlap' + rv, item + ' columns %r/%r' % (names[j - 1], names[j]), 'segment of %r ends at %.9g, that of %r starts at %.9g: overlap of %.3g' %
                       (names[j - 1], g0, names[j], g1, g0 - g1), inp)
            elif g1 - g0 > ptol:
                covered = sum(max(0., min(g1, b1) - max(g0, b0)) for b0, b1 in keep)
                covered_r = sum(max(0., min(g1, b1) - max(g0, b0)) for b0, b1 in keep_rounding)
                if covered > 2 * ptol:
                    R.fail('track-gap' + rv, item + ' columns %r/%r' % (names[j - 1], names[j]), 'gap of %.6g between the segments of %r and %r, of which %.6g lies in columns that may not be dropped (and %.6g in columns lost to the crossing-merge rounding)' %
                           (g1 - g0, names[j - 1], names[j], covered, covered_r), inp)
                elif covered_r > 2 * ptol:
                    R.fail('track-gap-rounding' + rv, item + ' columns %r/%r' % (names[j - 1], names[j]), 'gap of %.6g between the segments of %r and %r, all of it explained by columns lost to the crossing-merge rounding (%.6g)' %
                           (g1 - g0, names[j - 1], names[j], covered_r), inp)
        # lengths add up to the length inside the domain, up to the dropped clips
        R.evals['track_length_sum'] += 1
        total = sum(x[0] - e[0] for e, x in zip(ents, exts))
        droppable = sum(clen[ci] for ci in clip if clen[ci] <= 1.05 * thr[ci] + 2 * ptol)
        slack = (len(clip) + 2) * ptol
        if not (inside_len - droppable - slack <= total <= inside_len + slack):
            lost = sum(clen[ci] for ci in rounding_missing)
            sub = '-rounding' if rounding_missing and (inside_len - lost - droppable - slack <= total <= inside_len - lost + slack) else ''
            R.fail('track-length-sum' + sub + rv, item, 'segment lengths add up to %.9g; length of the line inside the domain is %.9g (of which at most %.3g in droppable corner clips, %.6g in columns lost to the crossing-merge rounding)' %
                   (total, inside_len, droppable, lost), dict(inp, observed=total, expected=inside_len, lost_to_rounding=lost))
        # dense sampling along the line: every column hit over more than the threshold must be listed (DESIGN oracle)
        if ndense and len(cand):
            R.evals['track_dense_sampling'] += 1
            ts = (np.arange(ndense) + 0.5) / ndense
            S = Al[None, :] + ts[:, None] * (Bl - Al)[None, :]
            hit = O.containing_among(S, list(cand))
            cnt = hit.sum(axis=0)
            for jj, ci in enumerate(cand):
                ci = int(ci)
                est = cnt[jj] * L / ndense
                if est > 1.05 * thr[ci] + 2 * ptol + 2 * L / ndense and ci not in listed:
                    R.fail('track-dense-missing-column' + ('-rounding' if ci in rounding_missing else ''), item + ' column %r' % O.colname[ci],
                           '%d of %d sample points along the line fall in column %r (about %.6g of length) but it is not in the track' %
                           (cnt[jj], ndense, O.colname[ci], est), dict(inp, column=O.colname[ci]))
                # consistency of the two oracles
                if abs(est - clen.get(ci, 0.0)) > 3 * L / ndense + ptol:
                    R.skip('ORACLE DISAGREEMENT clipping vs sampling')


class TaskTimeout(Exception): pass


def _alarm(signum, frame): raise TaskTimeout()


def run_task(task):
    spec, chunk, npoints, nlines, ndense, seed = task
    tag = geo_tag(spec)
    R = Res(tag, spec)
    t0 = time.time()
    signal.signal(signal.SIGALRM, _alarm)
    signal.alarm(TASK_TIMEOUT)
    sample = None
    try:
        geo = make_geo(spec)
        O = Oracle(geo)
        rs = np.random.RandomState((seed * 7919 + chunk * 104729 + spec['seed']) % (2 ** 31 - 1))
        bmap = {}
        names = geo.block_name_list[geo.num_atmosphere_blocks:]
        for j, n in enumerate(names[::3]): bmap[n] = 'Z%04d' % (j % 10000)
        try: bpoly = geo.boundary_polygon
        except Exception: bpoly = None
        if bpoly is not None and len(bpoly) < 3: bpoly = None
        aids = {'qtree': geo.column_quadtree(), 'bpoly': bpoly, 'brect': geo.bounds, 'blockmap': bmap}
        if npoints > 0: point_contracts(geo, O, R, rs, npoints, aids)
        if nlines > 0: line_contracts(geo, O, R, rs, nlines, ndense)
        sizes = np.sort(O.maxside)
        sample = {'geometry': tag, 'chunk': chunk, 'columns': O.ncol, 'column_size_range': [float(sizes[0]), float(sizes[-1])],
                  'points': npoints, 'lines': nlines, 'skipped': R.skipped, 'seconds': round(time.time() - t0, 2)}
    except TaskTimeout:
        R.fail('timeout', 'chunk %d' % chunk, 'no result within %d s' % TASK_TIMEOUT, {})
    except Exception as e:
        import traceback
        tb = traceback.extract_tb(sys.exc_info()[2])
        where = '%s:%d' % (os.path.basename(tb[-1][0]), tb[-1][1]) if tb else '?'
        R.fail('harness-or-build-exception-%s' % type(e).__name__, 'at %s' % where, '%s: %s' % (type(e).__name__, e), {'chunk': chunk})
    finally:
        signal.alarm(0)
    return {'evals': R.evals, 'failures': R.failures, 'nfail': R.nfail, 'distinct': sorted(map(repr, R.distinct)),
            'sample': sample, 'skipped': R.skipped}


def main():
    tier = sys.argv[1] if len(sys.argv) > 1 else 'quick'
    seed = int(sys.argv[2]) if len(sys.argv) > 2 else 0
    rnd = random.Random(seed)
    t0 = time.time()
    quick = tier == 'quick'
    specs = []          # (spec, total points, total lines, chunk size in points)
    # shipped geometries: (points, lines, chunk) per tier
    plan = {1: (200, 40, 50, 2400, 300, 150), 2: (60, 10, 15, 1200, 80, 40), 3: (160, 30, 40, 2200, 240, 110),
            4: (45, 8, 15, 1000, 60, 40), 5: (200, 40, 50, 2400, 300, 150), 6: (200, 40, 50, 2400, 300, 150),
            7: (300, 60, 100, 3000, 400, 200)}
    for gi in range(1, 8):
        qp, ql, qc, tp, tl, tc = plan[gi]
        specs.append(({'kind': 'file', 'file': 'g%d.dat' % gi, 'fix': gi == 3, 'seed': rnd.randrange(1 << 30)}, qp if quick else tp, ql if quick else tl, qc if quick else tc))
    # rotated / refined / re-surfaced copies
    variants = [(7, {'rotate': 30.}), (7, {'refine': {'every': 5, 'offset': 1}, 'surfaces': True}), (5, {'rotate': -77.3, 'surfaces': True}),
                (5, {'refine': {'every': 9, 'offset': 2}}), (6, {'refine': {'every': 11, 'offset': 0}, 'rotate': 12.5}), (1, {'rotate': 90.}),
                (3, {'rotate': 211.}), (1, {'surfaces': True})]
    if not quick:
        variants += [(2, {'rotate': 45.}), (4, {'refine': {'every': 40, 'offset': 3}}), (2, {'refine': {'every': 40, 'offset': 0}}),
                     (7, {'refine': {'every': 2, 'offset': 0}, 'rotate': round(rnd.uniform(-180, 180), 2)}),
                     (5, {'rotate': round(rnd.uniform(-180, 180), 2)}), (6, {'rotate': round(rnd.uniform(-180, 180), 2), 'surfaces': True}),
                     (3, {'surfaces': True, 'rotate': round(rnd.uniform(-180, 180), 2)}), (4, {'rotate': 180.})]
    for gi, extra in variants:
        sp = {'kind': 'file', 'file': 'g%d.dat' % gi, 'fix': gi == 3, 'seed': rnd.randrange(1 << 30)}
        sp.update(extra)
        big = gi in (2, 4)
        if quick: specs.append((sp, 30 if big else 60, 6 if big else 15, 15 if big else 30))
        else: specs.append((sp, 300 if big else 750, 24 if big else 100, 30 if big else 125))
    # rectangular, column sizes over three decades
    for j in range(10 if quick else 60):
        nx, ny = rnd.randint(2, 12), rnd.randint(1, 10)
        sp = {'kind': 'rect', 'id': j, 'dx': log_spacing(rnd, nx), 'dy': log_spacing(rnd, ny), 'dz': [round(10 ** rnd.uniform(0, 2.5), 2) for _ in range(rnd.randint(1, 6))],
              'origin': rnd.choice([[0., 0., 0.], [round(rnd.uniform(-1e4, 1e4), 1), round(rnd.uniform(-1e4, 1e4), 1), round(rnd.uniform(-500, 1500), 1)], [2765984.77, 6261546.23, 880.]]),
              'convention': rnd.randint(0, 3), 'atmos_type': rnd.randint(0, 2), 'surfaces': rnd.random() < 0.7,
              'rotate': rnd.choice([None, None, 45., round(rnd.uniform(-180, 180), 2)]), 'seed': rnd.randrange(1 << 30)}
        specs.append((sp, 50 if quick else 120, 20 if quick else 50, 50 if quick else 60))
    # regional grid + wellfield patch (columns 25 .. 400 times smaller), long lines starting near the small columns
    for j in range(4 if quick else 24):
        specs.append((wellfield_spec(rnd, j), 30 if quick else 90, 30 if quick else 120, 30 if quick else 45))
    tasks = []
    for sp, npts, nlines, chunk in specs:
        nchunks = max(1, (npts + chunk - 1) // chunk)
        for c in range(nchunks):
            p = min(chunk, npts - c * chunk)
            l = nlines // nchunks + (1 if c < nlines % nchunks else 0)
            ncols_guess = {'g2.dat': 1036, 'g4.dat': 1334}.get(sp.get('file'), 300)
            ndense = (1500 if ncols_guess < 1000 else 800) if quick else 10000
            tasks.append((sp, c, p, l, ndense, seed))
    cost = lambda t: -({'g2.dat': 20, 'g4.dat': 30}.get(t[0].get('file'), 1) * (3 if t[0].get('refine') else 1) * (t[2] + 3 * t[3]))
    order = sorted(range(len(tasks)), key=lambda i: (cost(tasks[i]), i))
    results = [None] * len(tasks)
    with mp.Pool(min(16, os.cpu_count() or 1), maxtasksperchild=20) as pool:
        for i, res in zip(order, pool.imap(run_task, [tasks[i] for i in order], chunksize=1)):
            results[i] = res
    evals = dict((c, 0) for c in CONTRACTS)
    failures, nfail, distinct, samples, skipped = [], 0, set(), [], {}
    for res in results:
        for c, n in res['evals'].items(): evals[c] += n
        failures += res['failures']
        nfail += res['nfail']
        distinct.update(res['distinct'])
        for k, v in res['skipped'].items(): skipped[k] = skipped.get(k, 0) + v
    seen = set()
    for res in results:
        s = res['sample']
        if s and s['geometry'] not in seen and len(samples) < 8:
            seen.add(s['geometry']); samples.append(s)
    # one record per (category, geometry) first, at most 60, spread over the categories
    bycat = {}
    for f in failures: bycat.setdefault(f['key'].split()[0], []).append(f)
    out = []
    while len(out) < 60 and any(bycat.values()):
        for cat in sorted(bycat):
            if bycat[cat] and len(out) < 60: out.append(bycat[cat].pop(0))
    cats = {}
    for f in failures: cats[f['key'].split()[0]] = cats.get(f['key'].split()[0], 0) + 1
    samples.append({'evaluations_per_contract': evals, 'tasks': len(tasks), 'geometries': len(specs), 'skipped_inputs': skipped,
                    'failure_records_per_category': cats})
    print('@@JSON@@' + json.dumps({'evaluations': sum(evals.values()), 'distinct': len(distinct), 'failures': out,
                                   'nfailures': len(failures), 'item_failures': nfail, 'samples': samples, 'seconds': time.time() - t0}))


if __name__ == '__main__':
    main()
