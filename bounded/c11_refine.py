"""C11 bounded stand-in: refining / bisecting / splitting / triangulating / decomposing columns and refining
layers, on the REAL mulgrid code, checked with an oracle that owns its geometry (shoelace area, crossing-number
point-in-polygon, point-to-segment distance, edge table).

Contracts (plain functions, counted separately):
  contract_area       total plan area unchanged (own shoelace over node positions AND the library's stored column areas)
  contract_positive   every column counter-clockwise with positive area (no degenerate piece)
  contract_volume     total rock volume unchanged (own column formula AND sum of block_volume over block_name_list)
  contract_tiling     every sampled point of every changed old column lies in exactly one new column; that column
                      lies inside the old one and inherits its surface elevation and layer count
  contract_conform    no node in the interior of another column's side; no two used nodes at one position;
                      columns share a side <=> a connection joins them (own edge table; library's
                      missing_connections / extra_connections agree); no orphan nodes created
  contract_progress   the selection really was refined / decomposed / split (a no-op would pass everything else)
  contract_layers     refine_layers: every selected layer becomes `factor` equal layers, others are kept, the
                      atmosphere layer keeps its name, lookups agree, column layer counts match their surfaces

usage: c11_refine.py <tier> <seed>
Columns are addressed by their rank in a canonical geometric order (vertex mean x, y).
"""
import sys, os, json, time, random, itertools, signal, contextlib, traceback, zlib, math
sys.path.insert(0, os.environ.get('PYTOUGH_REPO', '/repo'))
import warnings
warnings.filterwarnings('ignore')
import numpy as np
import mulgrids
from mulgrids import mulgrid, node, column, connection, layer, well

REPO = os.environ.get('PYTOUGH_REPO', '/repo')
DEVNULL = open(os.devnull, 'w')
OP_TIMEOUT = 60

# ---------------------------------------------------------------------------------------------
# own geometry

def shoelace(P):
    """signed area of polygon P (k,2); > 0 iff counter-clockwise"""
    P = np.asarray(P, dtype=float)
    Q = P - P[0]
    x, y = Q[:, 0], Q[:, 1]
    return 0.5 * float(np.sum(x * np.roll(y, -1) - np.roll(x, -1) * y))


def pip(pts, P):
    """crossing-number point in polygon, vectorised over pts (m,2). Each side is evaluated with its end points in a
    canonical order so that two polygons sharing a side decide identically for points near it."""
    pts = np.asarray(pts, dtype=float)
    P = np.asarray(P, dtype=float)
    inside = np.zeros(len(pts), dtype=bool)
    k = len(P)
    px, py = pts[:, 0], pts[:, 1]
    for i in range(k):
        a, b = P[i], P[(i + 1) % k]
        if (a[1], a[0]) > (b[1], b[0]): a, b = b, a       # a is the lower end
        if a[1] == b[1]: continue
        cond = (py >= a[1]) & (py < b[1])
        if not cond.any(): continue
        xi = a[0] + (py - a[1]) * (b[0] - a[0]) / (b[1] - a[1])
        inside ^= cond & (px < xi)
    return inside


def seg_dist(pts, a, b):
    """distance of pts (m,2) to segment ab, and the parameter of the foot point"""
    pts = np.asarray(pts, dtype=float)
    d = b - a
    L2 = float(d[0] * d[0] + d[1] * d[1])
    if L2 == 0.0: return np.hypot(pts[:, 0] - a[0], pts[:, 1] - a[1]), np.zeros(len(pts))
    t = ((pts[:, 0] - a[0]) * d[0] + (pts[:, 1] - a[1]) * d[1]) / L2
    tc = np.clip(t, 0.0, 1.0)
    return np.hypot(pts[:, 0] - (a[0] + tc * d[0]), pts[:, 1] - (a[1] + tc * d[1])), t


def poly_dist(pts, P):
    """distance of pts to the boundary of polygon P"""
    out = None
    k = len(P)
    for i in range(k):
        d, _ = seg_dist(pts, P[i], P[(i + 1) % k])
        out = d if out is None else np.minimum(out, d)
    return out


def sample_in(P, m, rs):
    """m points uniformly inside polygon P, kept away from its boundary by a hair (rejection sampling)"""
    P = np.asarray(P, dtype=float)
    lo, hi = P.min(axis=0), P.max(axis=0)
    scale = float(max(hi - lo))
    out = []
    n = 0
    tries = 0
    while n < m and tries < 60:
        tries += 1
        c = lo + rs.rand(max(2 * m, 16), 2) * (hi - lo)
        ok = pip(c, P)
        if ok.any():
            c = c[ok]
            c = c[poly_dist(c, P) > 1e-7 * scale]
            out.append(c); n += len(c)
    if not out: return np.zeros((0, 2))
    return np.vstack(out)[:m]


def ckey(c):
    n = max(len(c.node), 1)
    return (round(sum(float(p.pos[0]) for p in c.node) / n, 6), round(sum(float(p.pos[1]) for p in c.node) / n, 6), len(c.node),
            tuple(sorted((round(float(p.pos[0]), 6), round(float(p.pos[1]), 6)) for p in c.node)))


def canon(geo): return sorted(geo.columnlist, key=ckey)


def col_edges(c):
    n = len(c.node)
    return [(c.node[i], c.node[(i + 1) % n]) for i in range(n)]


def edge_table(geo):
    edges = {}
    for c in geo.columnlist:
        for a, b in col_edges(c): edges.setdefault(frozenset((id(a), id(b))), []).append(c)
    return edges


def adjacency(geo):
    adj = dict((id(c), set()) for c in geo.columnlist)
    for cs in edge_table(geo).values():
        for a, b in itertools.combinations(cs, 2):
            adj[id(a)].add(id(b)); adj[id(b)].add(id(a))
    return adj


# ---------------------------------------------------------------------------------------------
# snapshots and contracts

def own_volume(geo):
    """rock volume: each column reaches from the bottom of the lowest layer up to its surface"""
    if len(geo.layerlist) < 2: return 0.0
    bottom = min(l.bottom for l in geo.layerlist[1:])
    return sum(shoelace([n.pos for n in c.node]) * max(0.0, c.surface - bottom) for c in geo.columnlist)


def lib_volume(geo):
    tot = 0.0
    for blk in geo.block_name_list[geo.num_atmosphere_blocks:]:
        lay = geo.layer[geo.layer_name(blk)]
        col = geo.column[geo.column_name(blk)]
        tot += geo.block_volume(lay, col)
    return tot


class Snap(object):
    def __init__(self, geo):
        self.cols = [(id(c), c.name, np.array([n.pos for n in c.node], dtype=float), c.surface, c.num_layers, [id(n) for n in c.node]) for c in geo.columnlist]
        self.area_own = sum(shoelace(p) for _, _, p, _, _, _ in self.cols)
        self.area_lib = float(geo.area)
        self.vol_own = own_volume(geo)
        try: self.vol_lib = lib_volume(geo)
        except Exception as e: self.vol_lib = 'raises %s: %s' % (type(e).__name__, e)
        self.nonconf = nonconformities(geo)
        self.orphans = own_orphans(geo)
        self.nlayers = len(geo.layerlist)


def own_orphans(geo):
    used = set(id(n) for c in geo.columnlist for n in c.node)
    return set(n.name for n in geo.nodelist if id(n) not in used)


def close(a, b, tol=1e-9):
    return abs(a - b) <= tol * max(1.0, abs(a), abs(b))


def contract_area(before, geo):
    out = []
    a_own = sum(shoelace([n.pos for n in c.node]) for c in geo.columnlist)
    a_lib = float(geo.area)
    if not close(a_own, before.area_own): out.append('sum of polygon areas %.12g, before %.12g' % (a_own, before.area_own))
    if not close(a_lib, before.area_lib): out.append('geo.area %.12g, before %.12g' % (a_lib, before.area_lib))
    if not out and not close(a_lib, a_own): out.append('geo.area %.12g but the polygons cover %.12g' % (a_lib, a_own))
    return (not out), out


def contract_positive(geo):
    """every column is a counter-clockwise polygon of positive area (no degenerate / inverted piece)"""
    bad = []
    for c in geo.columnlist:
        P = np.array([n.pos for n in c.node], dtype=float)
        per = float(np.sum(np.hypot(*(np.roll(P, -1, axis=0) - P).T)))
        if not shoelace(P) > 1e-10 * per * per: bad.append((c.name, [n.name for n in c.node]))
    return (not bad), ['columns %r are degenerate or inverted (area <= 0)' % (bad[:4],)] if bad else []


def contract_volume(before, geo):
    out = []
    v_own = own_volume(geo)
    if not close(v_own, before.vol_own): out.append('rock volume (own formula) %.12g, before %.12g' % (v_own, before.vol_own))
    try:
        v_lib = lib_volume(geo)
        if isinstance(before.vol_lib, float):
            if not close(v_lib, before.vol_lib): out.append('sum of block volumes %.12g, before %.12g' % (v_lib, before.vol_lib))
            elif not out and not close(v_lib, v_own): out.append('sum of block volumes %.12g but the columns hold %.12g' % (v_lib, v_own))
    except Exception as e:
        out.append('summing block_volume over block_name_list raises %s: %s' % (type(e).__name__, e))
    return (not out), out


def contract_tiling(before, geo, npts, rs, check_unchanged):
    """points of each changed old column: exactly one new column; it lies inside the old one, same surface / layers"""
    out = []
    newcols = [(c, np.array([n.pos for n in c.node], dtype=float)) for c in geo.columnlist]
    current = dict((id(c), (c, P)) for c, P in newcols)
    lo = np.array([P.min(axis=0) for _, P in newcols]); hi = np.array([P.max(axis=0) for _, P in newcols])
    nchanged = 0
    for cid, name, P, surf, nlay, nodeids in before.cols:
        unchanged = cid in current and len(current[cid][1]) == len(P) and [id(n) for n in current[cid][0].node] == nodeids and np.array_equal(current[cid][1], P)
        if unchanged and not check_unchanged: continue
        if not unchanged: nchanged += 1
        pts = sample_in(P, npts if not unchanged else max(4, npts // 10), rs)
        if len(pts) == 0: continue
        scale = float(max(P.max(axis=0) - P.min(axis=0)))
        aold = shoelace(P)
        cand = np.where(np.all(lo <= pts.max(axis=0), axis=1) & np.all(hi >= pts.min(axis=0), axis=1))[0]
        hits = np.zeros(len(pts), dtype=int)
        owner = -np.ones(len(pts), dtype=int)
        for j in cand:
            ins = pip(pts, newcols[j][1])
            hits += ins
            owner[ins] = j
        if (hits != 1).any():
            i = int(np.where(hits != 1)[0][0])
            inside = [newcols[j][0].name for j in cand if pip(pts[i:i + 1], newcols[j][1])[0]]
            out.append('point (%.6g, %.6g) of old column %r lies in %d new columns %r (%d of %d sampled points are not in exactly one)' %
                       (pts[i][0], pts[i][1], name, int(hits[i]), inside, int((hits != 1).sum()), len(pts)))
            if len(out) >= 3: break
            continue
        for j in sorted(set(owner.tolist())):
            c, Q = newcols[j]
            inside = pip(Q, P) | (poly_dist(Q, P) <= 1e-7 * scale)
            if not inside.all() or shoelace(Q) > aold * (1 + 1e-9):
                out.append('new column %r (holding points of old column %r) is not inside it: vertex %r' % (c.name, name, Q[~inside][:1].tolist()))
            if c.surface != surf and not (c.surface is not None and surf is not None and close(c.surface, surf, 1e-12)):
                out.append('new column %r has surface %r, old column %r had %r' % (c.name, c.surface, name, surf))
            elif c.num_layers != nlay:
                out.append('new column %r has num_layers %r, old column %r had %r' % (c.name, c.num_layers, name, nlay))
        if len(out) >= 3: break
    return (not out), out, nchanged


def nonconformities(geo):
    """set of descriptions (position based, so comparable before / after)"""
    out = set()
    used = {}
    for c in geo.columnlist:
        for n in c.node: used[id(n)] = n
    nodes = list(used.values())
    if not nodes: return out
    N = np.array([n.pos for n in nodes], dtype=float)
    scale = float(max(N.max(axis=0) - N.min(axis=0))) or 1.0
    # distinct used nodes at one position
    order = np.lexsort((N[:, 1], N[:, 0]))
    for i, j in zip(order[:-1], order[1:]):
        if abs(N[i, 0] - N[j, 0]) <= 1e-9 * scale and abs(N[i, 1] - N[j, 1]) <= 1e-9 * scale:
            out.add('duplicate-node (%.6g, %.6g)' % (N[i, 0], N[i, 1]))
    # node strictly inside a side of a column
    seen = set()
    for c in geo.columnlist:
        for a, b in col_edges(c):
            e = frozenset((id(a), id(b)))
            if e in seen: continue
            seen.add(e)
            pa, pb = np.asarray(a.pos, dtype=float), np.asarray(b.pos, dtype=float)
            L = float(np.hypot(*(pb - pa)))
            if L == 0.0:
                out.add('zero-length-side (%.6g, %.6g)' % (pa[0], pa[1])); continue
            lo = np.minimum(pa, pb) - 1e-7 * L; hi = np.maximum(pa, pb) + 1e-7 * L
            near = np.where((N[:, 0] >= lo[0]) & (N[:, 0] <= hi[0]) & (N[:, 1] >= lo[1]) & (N[:, 1] <= hi[1]))[0]
            if len(near) <= 2: continue
            d, t = seg_dist(N[near], pa, pb)
            for q in near[(d <= 1e-7 * L) & (t > 1e-6) & (t < 1 - 1e-6)]:
                if nodes[q] is not a and nodes[q] is not b:
                    out.add('hanging-node (%.6g, %.6g) inside a side of column at (%.6g, %.6g)' % (N[q, 0], N[q, 1], ckey(c)[0], ckey(c)[1]))
    return out


def contract_conform(before, geo):
    out = []
    new = sorted(nonconformities(geo) - before.nonconf)
    if new: out.append(('hanging', '%d new: %s' % (len(new), '; '.join(new[:3]))))
    edges = edge_table(geo)
    pairs = set(frozenset(id(c) for c in k.column) for k in geo.connectionlist)
    shared = {}
    for cs in edges.values():
        if len(cs) > 2: out.append(('nonmanifold', 'side shared by %r' % (sorted(c.name for c in cs),)))
        for a, b in itertools.combinations(cs, 2): shared[frozenset((id(a), id(b)))] = (a.name, b.name)
    missing = sorted(v for p, v in shared.items() if p not in pairs)
    extra = sorted(tuple(c.name for c in k.column) for k in geo.connectionlist if frozenset(id(c) for c in k.column) not in shared)
    if missing: out.append(('missing-connection', 'columns share a side without a connection: %r' % (missing[:4],)))
    if extra: out.append(('extra-connection', 'connection between columns sharing no side: %r' % (extra[:4],)))
    if len(pairs) != len(geo.connectionlist): out.append(('dup-connection', '%d connections for %d column pairs' % (len(geo.connectionlist), len(pairs))))
    try:
        lm = sorted(tuple(sorted(c.name for c in k.column)) for k in geo.missing_connections); le = sorted(geo.extra_connections)
        if (lm or le) and not (missing or extra): out.append(('lib-disagrees', 'library reports missing %r extra %r, own edge table none' % (lm[:3], le[:3])))
    except Exception as e:
        out.append(('lib-exception', 'missing_connections / extra_connections raises %s: %s' % (type(e).__name__, e)))
    orph = sorted(own_orphans(geo) - before.orphans)
    if orph: out.append(('orphans', 'new orphan nodes %r' % (orph[:5],)))
    return (not out), out


def contract_layers(geo, old_layers, sel, factor, atm_name, surfaces):
    """old_layers: [(name, bottom, top)] incl. the atmosphere layer at 0; sel: indices (>= 1) refined"""
    out = []
    ll = geo.layerlist
    want = [(old_layers[0][1], old_layers[0][2])]
    for i, (nm, bot, top) in enumerate(old_layers[1:], 1):
        if i in sel:
            t = (top - bot) / factor
            for j in range(factor): want.append((top - (j + 1) * t, top - j * t))
        else: want.append((bot, top))
    if len(ll) != len(want): out.append('%d layers, expected %d' % (len(ll), len(want)))
    else:
        for l, (bot, top) in zip(ll, want):
            if not (close(l.bottom, bot, 1e-9) and close(l.top, top, 1e-9)):
                out.append('layer %r spans [%.10g, %.10g], expected [%.10g, %.10g]' % (l.name, l.bottom, l.top, bot, top)); break
            if not (l.bottom - 1e-12 <= l.centre <= l.top + 1e-12): out.append('layer %r centre %.10g outside [%.10g, %.10g]' % (l.name, l.centre, l.bottom, l.top)); break
    if ll and ll[0].name != atm_name: out.append('atmosphere layer renamed %r -> %r' % (atm_name, ll[0].name))
    names = [l.name for l in ll]
    if len(set(names)) != len(names): out.append('duplicate layer names %r' % (sorted(set(n for n in names if names.count(n) > 1)),))
    if len(geo.layer) != len(ll) or any(geo.layer.get(l.name) is not l for l in ll): out.append('layer lookup disagrees with the layer list')
    for c, s in zip(geo.columnlist, surfaces):
        if c.surface != s: out.append('surface of column %r changed %r -> %r' % (c.name, s, c.surface)); break
        n = sum(1 for l in ll[1:] if l.bottom < c.surface)
        if c.num_layers != n: out.append('column %r: num_layers %r, %d layers below its surface' % (c.name, c.num_layers, n)); break
    if len(set(geo.block_name_list)) != len(geo.block_name_list): out.append('duplicate block names')
    return (not out), out


# ---------------------------------------------------------------------------------------------
# geometries

SURF_PATTERNS = [[0.0], [0.0, -0.5, -1.0, -1.75, 0.4, -3.2, -0.999], [0.3, -2.0, -1.0], [-4.4, 0.0, -2.5, -0.25, -7.0, -3.5]]


def set_surfaces(g, pattern):
    for c, s in zip(canon(g), itertools.cycle(pattern)):
        c.surface = s
        g.set_column_num_layers(c)
    g.setup_block_name_index(); g.setup_block_connection_name_index()
    return g


def polygon_geo(P, flags, with_neighbours, pattern):
    """one polygon column P (k,2), ccw; optionally a thin triangle on the outside of every side (to see the connections)"""
    g = mulgrid(convention=0, atmos_type=2)
    k = len(P)
    for i in range(k): g.add_node(node(g.node_name_from_number(i + 1), np.array(P[i], dtype=float)))
    g.add_column(column(g.column_name_from_number(1), [g.nodelist[i] for i in range(k)]))
    if with_neighbours:
        for i in range(k):
            a, b = np.array(P[i], dtype=float), np.array(P[(i + 1) % k], dtype=float)
            d = b - a
            apex = 0.5 * (a + b) + 0.12 * np.array([d[1], -d[0]])
            nn = g.node_name_from_number(k + i + 1)
            g.add_node(node(nn, apex))
            g.add_column(column(g.column_name_from_number(i + 2), [g.nodelist[(i + 1) % k], g.nodelist[i], g.node[nn]]))
    g.add_layers([1., 2., 0.5, 3.], 0.0)
    g.set_default_surface()
    for cs in edge_table(g).values():
        if len(cs) == 2: g.add_connection(connection(sorted(cs, key=lambda c: c.name)))
    g.identify_neighbours()
    return set_surfaces(g, pattern)


def make_polygon(ncorner, straight_sides, rs, wobble):
    """convex polygon with ncorner corners (random angles on an ellipse) and extra 'straight' nodes on the listed sides
    (side index -> number of nodes); wobble displaces the straight nodes off the line by that fraction of the side"""
    ang = np.sort(rs.rand(ncorner) * 0.5 + np.arange(ncorner)) * (2 * np.pi / ncorner)
    C = np.column_stack([3.0 * np.cos(ang), 2.0 * np.sin(ang)]) + np.array([5.0, 4.0])
    P, straight = [], []
    for i in range(ncorner):
        a, b = C[i], C[(i + 1) % ncorner]
        P.append(a)
        m = straight_sides.get(i, 0)
        for j in range(m):
            t = (j + 1.0) / (m + 1.0) if m > 1 else [0.5, 0.3, 0.7][int(rs.randint(3))]
            d = b - a
            P.append(a + t * d + wobble * np.array([d[1], -d[0]]))
            straight.append(len(P) - 1)
    return np.array(P), straight


def build_base(spec):
    kind = spec[0]
    with contextlib.redirect_stdout(DEVNULL):
        if kind == 'rect':
            _, dx, dy, dz, atm, pat = spec
            g = mulgrid().rectangular(dx, dy, dz, atmos_type=atm)
            return set_surfaces(g, SURF_PATTERNS[pat])
        if kind == 'refined':
            g = build_base(spec[1])
            for op in spec[2]: apply_op(g, op)
            return g
        if kind == 'file':
            _, name, maxcols, fseed = spec
            g = mulgrid(os.path.join(REPO, 'tests', 'mulgrid', name))
            g.check(fix=True, silent=True)
            g.identify_neighbours()
            g.setup_block_name_index(); g.setup_block_connection_name_index()
            if g.num_columns > maxcols:
                r = random.Random(fseed)
                adj = adjacency(g)
                byid = dict((id(c), c) for c in g.columnlist)
                start = canon(g)[r.randrange(g.num_columns)]
                region, frontier, inreg = [id(start)], [id(start)], set([id(start)])
                while frontier and len(region) < maxcols:
                    i = frontier.pop(0)
                    for j in sorted(adj[i], key=lambda j: ckey(byid[j])):
                        if j not in inreg and len(region) < maxcols:
                            inreg.add(j); region.append(j); frontier.append(j)
                g.reduce([byid[i] for i in region])
            return g
        if kind == 'polygon':
            _, ncorner, sides, pseed, wobble, nbrs, pat = spec
            P, straight = make_polygon(ncorner, dict((int(k), v) for k, v in sides), np.random.RandomState(pseed), wobble)
            return polygon_geo(P, straight, nbrs, SURF_PATTERNS[pat])
    raise ValueError(spec)


def base_tag(spec):
    if spec[0] == 'rect': return 'rect%dx%d/%s/atm%d/s%d' % (len(spec[1]), len(spec[2]), '%08x' % zlib.crc32(json.dumps(spec[1:4]).encode()), spec[4], spec[5])
    if spec[0] == 'file': return '%s[%d,%d]' % (spec[1].replace('.dat', ''), spec[2], spec[3])
    if spec[0] == 'refined': return base_tag(spec[1]) + '+' + '+'.join(opstr(o) for o in spec[2])
    if spec[0] == 'polygon': return 'polygon(corners=%d,straight=%s,seed=%d,wobble=%g,nbrs=%d)' % (spec[1], json.dumps(spec[2]).replace(' ', ''), spec[3], spec[4], spec[5])
    return spec[0]


def opstr(op):
    def s(x):
        if isinstance(x, list):
            if len(x) > 10: return '[' + ','.join(s(y) for y in x[:4]) + ',..#%d:%08x]' % (len(x), zlib.crc32(json.dumps(x).encode()))
            return '[' + ','.join(s(y) for y in x) + ']'
        if isinstance(x, float): return '%g' % x
        return str(x)
    return op[0] + '(' + ','.join(s(x) for x in op[1:]) + ')'


def apply_op(geo, op):
    k = op[0]
    cols = canon(geo)
    def names(idx): return [cols[i].name for i in idx]
    if k == 'refine':
        sel, edge = names(op[2]), names(op[3])
        return geo.refine(sel, bisect=op[1], bisect_edge_columns=edge), 'g.refine(%r, bisect=%r, bisect_edge_columns=%r)' % (sel, op[1], edge)
    if k == 'refine-all':
        return geo.refine(bisect=op[1]), 'g.refine(bisect=%r)' % (op[1],)
    if k == 'decompose':
        sel = names(op[1])
        return geo.decompose_columns(sel), 'g.decompose_columns(%r)' % (sel,)
    if k == 'decompose-all':
        return geo.decompose_columns(), 'g.decompose_columns()'
    if k == 'triangulate':
        nm = names([op[1]])[0]
        r = geo.triangulate_column(nm)
        for con in geo.missing_connections: geo.add_connection(con)
        geo.identify_neighbours(); geo.setup_block_name_index(); geo.setup_block_connection_name_index()
        return r, 'g.triangulate_column(%r); [g.add_connection(c) for c in g.missing_connections]; g.identify_neighbours(); g.setup_block_name_index(); g.setup_block_connection_name_index()' % nm
    if k == 'split':
        c = cols[op[1]]
        n = sorted(c.node, key=lambda n: (round(float(n.pos[0]), 6), round(float(n.pos[1]), 6)))[op[2] % len(c.node)]
        return geo.split_column(c.name, n.name), 'g.split_column(%r, %r)' % (c.name, n.name)
    if k == 'refine_layers':
        sel = [geo.layerlist[i].name for i in op[1]]
        return geo.refine_layers(sel, factor=op[2]), 'g.refine_layers(%r, factor=%r)' % (sel, op[2])
    raise ValueError(op)


# ---------------------------------------------------------------------------------------------

class Timeout(Exception): pass


def _alarm(signum, frame): raise Timeout()


def run_limited(fn, seconds=OP_TIMEOUT):
    signal.signal(signal.SIGALRM, _alarm)
    signal.setitimer(signal.ITIMER_REAL, seconds)
    try:
        with contextlib.redirect_stdout(DEVNULL):
            return fn()
    finally:
        signal.setitimer(signal.ITIMER_REAL, 0)


class Recorder(object):
    def __init__(self):
        self.counts, self.classes, self.failures, self.samples = {}, {}, [], []
        self.cases = 0
        self.truncated = 0
        self.skipped = 0
        self.cpu = 0.0
    def count(self, c): self.counts[c] = self.counts.get(c, 0) + 1
    def fail(self, cat, op, base, what, calls):
        cls = cat + ' ' + op[0]
        self.classes[cls] = self.classes.get(cls, 0) + 1
        if self.classes[cls] <= 5:
            self.failures.append({'key': '%s %s %s' % (cat, opstr(op), base_tag(base)), 'what': what, 'size': len(json.dumps(op)) + len(json.dumps(base)),
                                  'input': {'base': base, 'op': op, 'calls': calls,
                                            'replay': "import sys; sys.path.insert(0, '/verif/bounded'); import c11_refine as H; print(H.run_case(%s, %s, 200, 0))" % (json.dumps(base), json.dumps(op))}})


def supported(geo, op):
    """refine(): region and transition region consist of 3- and 4-sided columns (documented precondition)"""
    cols = canon(geo)
    sel = list(range(len(cols))) if op[0] == 'refine-all' else list(op[2]) + list(op[3])
    adj = adjacency(geo)
    ids = set(id(cols[i]) for i in sel)
    for i in sel: ids |= adj[id(cols[i])]
    return all(len(c.node) in (3, 4) for c in cols if id(c) in ids)


def backrefs_ok(geo):
    """precondition shared with C10: neighbour / connection back-references agree with the connection list. (Where an
    earlier edit has broken them - reported by the C10 harness - a later split or refinement is not charged for it.)"""
    nb = dict((id(c), set()) for c in geo.columnlist)
    kk = dict((id(c), set()) for c in geo.columnlist)
    for k in geo.connectionlist:
        a, b = k.column
        if id(a) not in nb or id(b) not in nb: return False
        nb[id(a)].add(id(b)); nb[id(b)].add(id(a)); kk[id(a)].add(id(k)); kk[id(b)].add(id(k))
    return all(set(id(x) for x in c.neighbour) == nb[id(c)] and set(id(x) for x in c.connection) == kk[id(c)] for c in geo.columnlist)


def evaluate(geo, op, base, npts, rs, rec, check_unchanged=True):
    """runs op on geo (in place) and evaluates every contract; returns True if geo is still fit for further use"""
    k = op[0]
    if not backrefs_ok(geo):
        rec.count('precondition-not-met(skipped)')
        return False
    rec.cases += 1
    before = Snap(geo)
    cols = canon(geo)
    layers_before = [(l.name, l.bottom, l.top) for l in geo.layerlist]
    surfaces = [c.surface for c in geo.columnlist]
    atm_name = geo.layerlist[0].name if geo.layerlist else None
    if k in ('refine', 'refine-all'):
        sel_ids = set(id(c) for c in (cols if k == 'refine-all' else [cols[i] for i in op[2]]))
        sup = supported(geo, op)
    elif k == 'decompose': sel_ids = set(id(cols[i]) for i in op[1]); sup = True
    elif k == 'decompose-all': sel_ids = set(id(c) for c in cols); sup = True
    elif k in ('triangulate', 'split'): sel_ids = set([id(cols[op[1]])]); sup = True
    else: sel_ids = set(); sup = True
    big = dict((id(c), len(c.node)) for c in cols)
    try:
        ret, call = run_limited(lambda: apply_op(geo, op))
    except Timeout:
        rec.count('completes'); rec.fail('timeout', op, base, 'no return within %d s' % OP_TIMEOUT, [opstr(op)]); return False
    except mulgrids.NamingConventionError:
        rec.count('capacity-error'); return False
    except Exception as e:
        rec.count('completes')
        tb = traceback.extract_tb(sys.exc_info()[2])
        where = ['%s:%d' % (os.path.basename(f.filename), f.lineno) for f in tb if os.path.basename(f.filename) != 'c11_refine.py'][-1:] or ['?']
        rec.fail(('exception[%s@%s]' if sup else 'unsupported-exception[%s@%s]') % (type(e).__name__, where[0]), op, base,
                 'raises %s: %s%s' % (type(e).__name__, e, '' if sup else ' (region or transition region has a column with more than 4 sides: documented as unsupported)'), [opstr(op)])
        return False
    rec.count('completes')
    calls = [call]
    ok_all = True
    if k == 'refine_layers':
        rec.count('layers')
        sel = set(op[1]) if op[1] else set(range(1, len(layers_before)))
        sel.discard(0)
        ok, out = contract_layers(geo, layers_before, sel, op[2], atm_name, surfaces)
        if not ok: rec.fail('layers', op, base, '; '.join(out[:3]), calls); ok_all = False
    rec.count('area')
    ok, out = contract_area(before, geo)
    if not ok: rec.fail('area', op, base, '; '.join(out), calls); ok_all = False
    rec.count('positive')
    ok, out = contract_positive(geo)
    if not ok: rec.fail('degenerate', op, base, '; '.join(out), calls); ok_all = False
    rec.count('volume')
    ok, out = contract_volume(before, geo)
    if not ok: rec.fail('volume', op, base, '; '.join(out), calls); ok_all = False
    if k != 'refine_layers':
        rec.count('tiling')
        ok, out, nchanged = contract_tiling(before, geo, npts, rs, check_unchanged)
        if not ok: rec.fail('tiling', op, base, '; '.join(out[:3]), calls); ok_all = False
        rec.count('conform')
        ok, out = contract_conform(before, geo)
        if not ok:
            for cat, what in out: rec.fail('conform-' + cat, op, base, what, calls)
            ok_all = False
        rec.count('progress')
        current = dict((id(c), c) for c in geo.columnlist)
        out = []
        if k in ('refine', 'refine-all') and sup:
            left = [c.name for c in geo.columnlist if id(c) in sel_ids]
            if left: out.append('selected columns %r are still there (not refined)' % (left[:5],))
            if any(len(c.node) not in (3, 4) for c in geo.columnlist if id(c) not in big): out.append('refine created a column that is not 3- or 4-sided')
        if k in ('refine', 'refine-all') and not sup and ret is None:
            pass
        if k in ('decompose', 'decompose-all', 'triangulate'):
            left = [c.name for c in geo.columnlist if id(c) in sel_ids and len(c.node) > 4]
            if left: out.append('columns %r with more than 4 sides are still there' % (left[:5],))
            newbig = [c.name for c in geo.columnlist if id(c) not in big and len(c.node) > 4]
            if newbig: out.append('decomposition created columns with more than 4 sides: %r' % (newbig[:5],))
        if k == 'split':
            c = [c for c in cols if id(c) in sel_ids][0]
            if big[id(c)] == 4:
                if ret is not True: out.append('split_column of a quadrilateral returned %r' % (ret,))
                elif len(geo.columnlist) != len(cols) + 1 or any(len(x.node) != 3 for x in geo.columnlist if id(x) == id(c) or id(x) not in big):
                    out.append('split_column did not leave two triangles')
            elif ret is not False or nchanged: out.append('split_column of a %d-sided column returned %r and changed %d columns' % (big[id(c)], ret, nchanged))
        if out: rec.fail('progress', op, base, '; '.join(out), calls); ok_all = False
    if len(rec.samples) < 1: rec.samples.append({'base': base_tag(base), 'op': opstr(op), 'call': call[:200], 'columns_before': len(before.cols), 'columns_after': len(geo.columnlist),
                                                 'area': before.area_own, 'rock_volume': before.vol_own})
    return ok_all


def run_case(base, op, npts=200, seed=0):
    """replay helper: returns the list of (key, what)"""
    rec = Recorder()
    g = build_base(base)
    evaluate(g, op, base, npts, np.random.RandomState(seed), rec)
    return [(f['key'], f['what']) for f in rec.failures]


def edge_columns(geo, cols, sel):
    adj = adjacency(geo)
    ids = set(id(cols[i]) for i in sel)
    out = set()
    for i in sel: out |= adj[id(cols[i])]
    out -= ids
    return [i for i, c in enumerate(cols) if id(c) in out]


def random_region(geo, cols, rnd, size, hole=False):
    adj = adjacency(geo)
    rank = dict((id(c), i) for i, c in enumerate(cols))
    region = [rnd.randrange(len(cols))]
    inreg = set(region)
    stuck = 0
    while len(region) < size and stuck < 50:
        i = rnd.choice(region)
        nb = sorted(rank[j] for j in adj[id(cols[i])] if rank[j] not in inreg)
        if not nb: stuck += 1; continue
        j = rnd.choice(nb); inreg.add(j); region.append(j)
    if hole and len(region) > 4:
        interior = [i for i in region if all(rank[j] in inreg for j in adj[id(cols[i])])]
        if interior: region.remove(rnd.choice(interior))
    return sorted(region)


MODES = [False, 'x', 'y', True]


def task_subsets(args):
    """every given subset of the columns of a small base geometry x modes (x edge-column variants)"""
    base, subsets, edge_variants, npts, tseed, deadline = args
    rec = Recorder()
    rs = np.random.RandomState(tseed % (2 ** 31))
    rnd = random.Random(tseed)
    g0 = build_base(base)
    n0 = len(g0.columnlist)
    for s in subsets:
        for mode in MODES:
            variants = [[]]
            if edge_variants:
                e = edge_columns(g0, canon(g0), s)
                if e:
                    variants.append(e)
                    if len(e) > 2 and edge_variants > 1: variants.append(sorted(rnd.sample(e, len(e) // 2)))
            for e in variants:
                if time.time() > deadline: rec.truncated += 1; return rec
                g = build_base(base)
                evaluate(g, ['refine', mode, s, e], base, npts, rs, rec)
    return rec


def task_list(args):
    """explicit list of (base, [ops applied in sequence, each evaluated])"""
    cases, npts, tseed, deadline = args
    rec = Recorder()
    rs = np.random.RandomState(tseed % (2 ** 31))
    for base, ops in cases:
        if time.time() > deadline: rec.truncated += 1; break
        try:
            g = run_limited(lambda: build_base(base), 120)
        except Exception as e:
            rec.fail('base-exception', ['build'], base, '%s: %s' % (type(e).__name__, e), []); continue
        for op in ops:
            if not evaluate(g, op, base if op is ops[0] else ['refined', base, ops[:ops.index(op)]], npts, rs, rec, check_unchanged=len(g.columnlist) <= 60):
                break
    return rec


def task_random_file(args):
    """random regions on a (reduced) shipped geometry; each case from a fresh copy; second-level refinements too"""
    base, ncases, npts, tseed, deadline = args
    rec = Recorder()
    rs = np.random.RandomState(tseed % (2 ** 31))
    rnd = random.Random(tseed)
    for i in range(ncases):
        if time.time() > deadline: rec.truncated += 1; break
        try:
            g = run_limited(lambda: build_base(base), 120)
        except Exception as e:
            rec.fail('base-exception', ['build'], base, '%s: %s' % (type(e).__name__, e), []); break
        hist = []
        for level in range(rnd.choice([1, 1, 2, 3])):
            cols = canon(g)
            n = len(cols)
            r = rnd.random()
            if r < 0.12:
                big = [j for j, c in enumerate(cols) if len(c.node) > 4]
                op = ['decompose', sorted(rnd.sample(big, rnd.randint(1, len(big))))] if big and rnd.random() < 0.7 else ['decompose-all']
            elif r < 0.2:
                quads = [j for j, c in enumerate(cols) if len(c.node) == 4]
                op = ['split', rnd.choice(quads) if quads else 0, rnd.randrange(4)]
            elif r < 0.3 and len(g.layerlist) < 40:
                nl = len(g.layerlist)
                op = ['refine_layers', [] if rnd.random() < 0.2 else sorted(rnd.sample(range(1, nl), rnd.randint(1, min(5, nl - 1)))), rnd.choice([2, 3, 4])]
            else:
                shape = rnd.random()
                if shape < 0.45: sel = random_region(g, cols, rnd, rnd.randint(1, 12), hole=rnd.random() < 0.3)
                elif shape < 0.6: sel = sorted(rnd.sample(range(n), min(n, rnd.randint(1, 8))))
                elif shape < 0.8:   # strip: columns whose centre lies in a band
                    ax = rnd.randrange(2)
                    v = sorted(ckey(c)[ax] for c in cols)
                    lo = v[rnd.randrange(n)]; width = (v[-1] - v[0]) * rnd.uniform(0.02, 0.15)
                    sel = [j for j, c in enumerate(cols) if lo <= ckey(c)[ax] <= lo + width] or [0]
                    sel = sel[:40]
                else:            # boundary region
                    single = set(id(cs[0]) for cs in edge_table(g).values() if len(cs) == 1)
                    bd = [j for j, c in enumerate(cols) if id(c) in single]
                    sel = sorted(rnd.sample(bd, min(len(bd), rnd.randint(1, 8)))) if bd else [0]
                e = edge_columns(g, cols, sel)
                e = sorted(rnd.sample(e, rnd.randint(1, len(e)))) if e and rnd.random() < 0.35 else []
                op = ['refine', rnd.choice(MODES), sel, e]
            b = base if not hist else ['refined', base, list(hist)]
            if not evaluate(g, op, b, npts, rs, rec, check_unchanged=False): break
            hist.append(op)
    return rec


def run_task(arg):
    i, (kind, args) = arg
    c0 = time.process_time()
    try:
        rec = {'subsets': task_subsets, 'list': task_list, 'file': task_random_file}[kind](args)
    except Exception as e:
        rec = Recorder()
        rec.fail('harness-error', [kind], ['task', i], 'harness task crashed: %s: %s\n%s' % (type(e).__name__, e, traceback.format_exc()[-800:]), [])
    rec.cpu = time.process_time() - c0
    return i, rec


def chunks(lst, n):
    return [lst[i:i + n] for i in range(0, len(lst), n)]


def make_tasks(tier, seed, deadline):
    rnd = random.Random(seed)
    quick = tier == 'quick'
    npts = 40 if quick else 200
    tasks = []
    def add(kind, args): tasks.append((kind, args))
    dz = [1., 2., 0.5, 3.]
    # A. every subset of the columns of a 3x3 (and, thorough, 4x3) rectangle with unequal spacings
    r33 = ['rect', [1., 2., 1.5], [1.5, 1., 2.], dz, 0, 1]
    subs = [list(s) for k in range(1, 10) for s in itertools.combinations(range(9), k)]
    for ch in chunks(subs, 8): add('subsets', (r33, ch, 1 if quick else 2, npts, seed * 1000 + len(tasks), deadline))
    if not quick:
        r43 = ['rect', [round(rnd.uniform(0.5, 3), 2) for _ in range(4)], [round(rnd.uniform(0.5, 3), 2) for _ in range(3)], dz, 1, 3]
        subs = [list(s) for k in range(1, 13) for s in itertools.combinations(range(12), k)]
        for ch in chunks(subs, 16): add('subsets', (r43, ch, 1, npts, seed * 1000 + len(tasks), deadline))
        r33b = ['rect', [round(rnd.uniform(0.5, 3), 2) for _ in range(3)], [round(rnd.uniform(0.5, 3), 2) for _ in range(3)], dz, 2, 2]
        subs = [list(s) for k in range(1, 10) for s in itertools.combinations(range(9), k)]
        for ch in chunks(subs, 16): add('subsets', (r33b, ch, 0, npts, seed * 1000 + len(tasks), deadline))
    # A'. strips (Nx1, 1xN, 2xN): interior sides whose two ends are both on the boundary
    for dx, dy in (([1., 2., 1.5, 1.], [1.]), ([2.], [1., 1.5, 1.]), ([1., 2., 1.5], [1., 2.]), ([1., 1.], [1., 1.])):
        b = ['rect', dx, dy, dz, 0, 1]
        n = len(dx) * len(dy)
        subs = [list(s) for k in range(1, n + 1) for s in itertools.combinations(range(n), k)]
        for ch in chunks(subs, 16): add('subsets', (b, ch, 1, npts, seed * 1000 + len(tasks), deadline))
    # B. earlier refinements: refine a region of the 3x3, then subsets of the result
    firsts = [['refine', False, [4], []], ['refine', False, [0], []], ['refine', 'x', [3, 4, 5], []], ['refine', False, [0, 1, 2, 3, 5, 6, 7, 8], []],
              ['refine', True, [0, 1, 3], []], ['refine', False, [1, 4, 7], [0]]]
    per = 12 if quick else 120
    cases = []
    for f in firsts:
        gb = build_base(['refined', r33, [f]])
        n = len(gb.columnlist)
        cols = canon(gb)
        for j in range(per):
            rr = random.Random(seed * 77 + j * 13 + len(cases))
            if j % 3 == 0: sel = random_region(gb, cols, rr, rr.randint(1, 8), hole=rr.random() < 0.3)
            elif j % 3 == 1: sel = sorted(rr.sample(range(n), rr.randint(1, min(n, 6))))
            else: sel = [rr.randrange(n)]
            e = edge_columns(gb, cols, sel)
            e = sorted(rr.sample(e, rr.randint(1, len(e)))) if e and rr.random() < 0.3 else []
            cases.append((['refined', r33, [f]], [['refine', rr.choice(MODES), sel, e]]))
        cases.append((r33, [f, ['refine-all', False], ['refine-all', True]]))
    for ch in chunks(cases, 10): add('list', (ch, npts, seed * 1000 + len(tasks), deadline))
    # C. shipped geometries, random regions
    files = [('g7.dat', 400), ('g5.dat', 400), ('g6.dat', 400), ('g2.dat', 220), ('g1.dat', 400), ('g3.dat', 300), ('g4.dat', 220)]
    nfile_tasks = 28 if quick else 224
    for i in range(nfile_tasks):
        name, mc = files[i % len(files)]
        add('file', (['file', name, mc, (seed * 31 + i) % 1000], 4 if quick else 8, npts, seed * 1000 + len(tasks), deadline))
    # D. decomposition of polygons with 5..10 sides and 0..4 straight angles; triangulation; with neighbours
    cases = []
    for nn in range(5, 11):
        for ns in range(0, 5):
            ncorner = nn - ns
            if ncorner < 3: continue
            arrangements = []
            for comb in itertools.combinations_with_replacement(range(ncorner), ns):
                sides = sorted((i, comb.count(i)) for i in set(comb))
                if max([m for _, m in sides] or [0]) <= 2: arrangements.append(sides)
            if quick and len(arrangements) > 6:
                rr = random.Random(seed + nn * 10 + ns); arrangements = rr.sample(arrangements, 6)
            elif len(arrangements) > 40:
                rr = random.Random(seed + nn * 10 + ns); arrangements = rr.sample(arrangements, 40)
            for ai, sides in enumerate(arrangements):
                for wobble in ((0.0,) if quick else (0.0, 2e-4, -2e-4)):
                    b = ['polygon', ncorner, [list(x) for x in sides], seed * 100 + ai, wobble, 1, (nn + ai) % len(SURF_PATTERNS)]
                    cases.append((b, [['decompose', [polygon_rank(b)]]]))
                    if ai % 3 == 0: cases.append((b, [['decompose-all']]))
                    if ai % 4 == 0 and wobble == 0.0: cases.append((b, [['triangulate', polygon_rank(b)]]))
    for ch in chunks(cases, 25): add('list', (ch, npts, seed * 1000 + len(tasks), deadline))
    # E. split_column: every quadrilateral x every node of the 3x3, and a 5-sided / 3-sided column (must refuse)
    cases = []
    for i in range(9):
        for j in range(4): cases.append((r33, [['split', i, j]]))
    tri = ['refined', r33, [['refine', False, [4], []]]]
    gb = build_base(tri)
    for i, c in enumerate(canon(gb)):
        if len(c.node) == 3: cases.append((tri, [['split', i, 0]])); break
    pb = ['polygon', 5, [], seed, 0.0, 1, 1]
    cases.append((pb, [['split', polygon_rank(pb), 0]]))
    for ch in chunks(cases, 10): add('list', (ch, npts, seed * 1000 + len(tasks), deadline))
    # F. refine_layers: every subset of 4 layers x factors 2..4 x surface patterns x atmosphere types
    cases = []
    for pat in range(len(SURF_PATTERNS)):
        for atm in ((0,) if quick and pat else (0, 1, 2)):
            b = ['rect', [1., 2.], [1.5, 1.], dz, atm, pat]
            for k in range(0, 5):
                for s in itertools.combinations(range(1, 5), k):
                    for f in (2, 3, 4): cases.append((b, [['refine_layers', list(s), f]]))
    b = ['refined', ['rect', [1., 2.], [1.5, 1.], dz, 0, 1], [['refine_layers', [2], 2]]]
    cases.append((b, [['refine_layers', [1, 2, 3], 3], ['refine_layers', [], 2]]))
    for ch in chunks(cases, 40): add('list', (ch, npts, seed * 1000 + len(tasks), deadline))
    for name in ('g7.dat', 'g4.dat', 'g5.dat', 'g1.dat', 'g2.dat', 'g3.dat', 'g6.dat'):
        rr = random.Random(seed * 5 + len(tasks))
        cases = []
        for j in range(1 if quick else 6):
            nl = {'g7.dat': 6, 'g4.dat': 26, 'g5.dat': 26, 'g1.dat': 33, 'g2.dat': 35, 'g3.dat': 22, 'g6.dat': 36}[name]
            cases.append((['file', name, 60, j], [['refine_layers', sorted(rr.sample(range(1, nl), rr.randint(1, 4))), rr.choice([2, 3, 4])]]))
        add('list', (cases, npts, seed * 1000 + len(tasks), deadline))

    return tasks


def main():
    import multiprocessing as mp
    tier = sys.argv[1] if len(sys.argv) > 1 else 'quick'
    seed = int(sys.argv[2]) if len(sys.argv) > 2 else 0
    t0 = time.time()
    budget = float(os.environ.get('VERIF_BUDGET_S', 36 if tier == 'quick' else 780))   # wall-clock guard; cases not reached are counted
    deadline = t0 + budget
    tasks = make_tasks(tier, seed, deadline)
    npts = 40 if tier == 'quick' else 200
    order = list(range(len(tasks)))
    random.Random(seed).shuffle(order)         # a truncation by the time guard (loaded machine) then hits all case families evenly
    results = {}
    with mp.Pool(min(16, os.cpu_count() or 4)) as pool:
        for i, rec in pool.imap_unordered(run_task, [(i, tasks[i]) for i in order], chunksize=1):
            results[i] = rec
    counts, classes, failures, samples = {}, {}, [], []
    ncases = truncated = 0
    for i in sorted(results):
        rec = results[i]
        for k, v in rec.counts.items(): counts[k] = counts.get(k, 0) + v
        for k, v in rec.classes.items(): classes[k] = classes.get(k, 0) + v
        failures += rec.failures
        ncases += rec.cases; truncated += rec.truncated
        if rec.samples and len(samples) < 4 and i % 7 == 0: samples.append(rec.samples[0])
    failures.sort(key=lambda f: (f['size'], f['key']))
    kept, per, seenkeys = [], {}, set()
    for limit in (1, 2, 3):
        for f in failures:
            cls = f['key'].split(' ')[0] + ' ' + f['input']['op'][0]
            if f['key'] in seenkeys or per.get(cls, 0) >= limit or len(kept) >= 60: continue
            per[cls] = per.get(cls, 0) + 1; seenkeys.add(f['key']); kept.append(f)
    for f in kept: del f['size']
    kept.sort(key=lambda f: f['key'])
    contracts = ('completes', 'area', 'positive', 'volume', 'tiling', 'conform', 'progress', 'layers')
    samples.append({'contract_evaluations': counts, 'cases': ncases, 'tasks_truncated_by_time_budget': truncated,
                    'worker_cpu_seconds': round(sum(r.cpu for r in results.values()), 1), 'sample_points_per_changed_column': npts,
                    'failure_classes(category op: count)': dict(sorted(classes.items()))})
    out = {'evaluations': sum(counts.get(c, 0) for c in contracts), 'distinct': ncases, 'failures': kept, 'nfailures': sum(classes.values()),
           'samples': samples, 'seconds': time.time() - t0}
    print('@@JSON@@' + json.dumps(out))


def polygon_rank(base):
    """canonical rank of the polygon column (column number 1) in a 'polygon' base"""
    g = build_base(base)
    first = g.columnlist[0]
    return [i for i, c in enumerate(canon(g)) if c is first][0]


if __name__ == '__main__':
    main()
