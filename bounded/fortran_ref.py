"""Native reference semantics for Fortran numeric fields (used by replays and by the
bounded harnesses).  Pure Python, no dependency on the repository.

fortran_real_value(s): exact Fraction a Fortran READ with BN (blanks ignored) gives for
the field s, or None if s is not a Fortran real/integer numeral.
"""
import re
import math
from fractions import Fraction

_REAL = re.compile(r'^([+-]?)(\d+\.?\d*|\.\d+)(?:[eEdD]([+-]?\d+)|([+-]\d+))?$')
_INT = re.compile(r'^([+-]?)(\d+)$')
NUMCHARS = set('0123456789+-.eEdD ')


def fortran_real_value(s):
    t = s.replace(' ', '')
    m = _REAL.match(t)
    if not m:
        return None
    sign, mant, e1, e2 = m.groups()
    ip, _, fp = mant.partition('.')
    digits = (ip + fp) or '0'
    exp = int(e1 if e1 is not None else (e2 if e2 is not None else '0'))
    if int(digits) == 0:
        return Fraction(0)
    if exp - len(fp) > 400:      # far beyond the double range: overflows to infinity
        return Huge(-1 if sign == '-' else 1)
    if exp - len(fp) < -1500:    # underflows to zero
        return Fraction(0)
    v = Fraction(int(digits)) * Fraction(10) ** (exp - len(fp))
    return -v if sign == '-' else v


class Huge(object):
    def __init__(self, sign): self.sign = sign


def nearest_double(fr):
    """Correctly rounded double of a Fraction (inf on overflow)."""
    if isinstance(fr, Huge):
        return math.inf * fr.sign
    try:
        return fr.numerator / fr.denominator     # int/int true division is correctly rounded
    except OverflowError:
        return math.inf if fr > 0 else -math.inf


def python_float(s):
    try:
        return float(s)
    except ValueError:
        return None


def same_float(a, b):
    if isinstance(a, float) and isinstance(b, float):
        if math.isnan(a) and math.isnan(b):
            return True
        return a == b and (a != 0 or math.copysign(1, a) == math.copysign(1, b) or True)
    return a == b


def check_float(s, fn, blank=-987654321):
    """The C16 contract of fortran_float evaluated natively on one string."""
    try:
        r = fn(s, blank_value=blank)
    except BaseException as e:
        return False, 'raises %s: %s for %r' % (type(e).__name__, e, s)
    if s.strip() == '':
        return (r == blank and not isinstance(r, float)), 'blank field %r gives %r' % (s, r)
    if r == blank and not isinstance(r, float):
        return False, 'non-blank field %r gives the blank value' % s
    py = python_float(s)
    if py is not None:
        return same_float(r, py), 'Python accepts %r as %r, reader gives %r' % (s, py, r)
    fv = fortran_real_value(s)
    if fv is not None:
        want = nearest_double(fv)
        return (isinstance(r, float) and same_float(r, want)), 'Fortran reads %r as %r, reader gives %r' % (s, want, r)
    if any(c not in NUMCHARS for c in s):
        compact = python_float(s.lower().replace(' ', ''))
        if compact is None:
            return (isinstance(r, float) and math.isnan(r)), 'garbage %r gives %r (expected nan)' % (s, r)
    return True, 'unspecified form %r gives %r' % (s, r)


def check_int(s, fn, blank=-987654321):
    try:
        r = fn(s, blank_value=blank)
    except BaseException as e:
        return False, 'raises %s: %s for %r' % (type(e).__name__, e, s)
    if s.strip() == '':
        return r == blank, 'blank field %r gives %r' % (s, r)
    try:
        py = int(s)
    except ValueError:
        py = None
    if py is not None:
        return r == py, 'Python accepts %r as %r, reader gives %r' % (s, py, r)
    m = _INT.match(s.replace(' ', ''))
    if m:
        want = int(m.group(1) + m.group(2))
        return r == want, 'Fortran reads %r as %r, reader gives %r' % (s, want, r)
    if any(c not in '0123456789+- _' for c in s):
        return r is None, 'garbage %r gives %r (expected None)' % (s, r)
    return True, 'unspecified form %r gives %r' % (s, r)


# ---- an independent Fortran-style writer (Ew.d, Dw.d, Fw.d, Iw, Aw) ------------------------


def fortran_E(v, w, d, letter='E', expdigits=2, plus=False, leading_zero=True, lower=False,
              drop_letter_3=True, blank_for_plus=False):
    """Fortran Ew.d output of the real v (exact decimal rounding): 0.dddE+ee normalisation."""
    fr = Fraction(v)
    neg = fr < 0
    a = -fr if neg else fr
    if a == 0:
        digits, e10 = '0' * d, 0
    else:
        e10 = 0
        # find e10 with 0.1 <= a / 10^e10 < 1
        import math as _m
        e10 = len(str(a.numerator)) - len(str(a.denominator))
        while a / Fraction(10) ** e10 >= 1: e10 += 1
        while a / Fraction(10) ** e10 < Fraction(1, 10): e10 -= 1
        scaled = a / Fraction(10) ** e10 * 10 ** d
        q = scaled.numerator // scaled.denominator
        rem = scaled - q
        if rem > Fraction(1, 2) or (rem == Fraction(1, 2) and q % 2 == 1):
            q += 1
        if q >= 10 ** d:
            q //= 10; e10 += 1
        digits = str(q).rjust(d, '0')
    mant = ('0.' if leading_zero else '.') + digits
    esign = '-' if e10 < 0 else ('+' if not blank_for_plus else ' ')
    ea = abs(e10)
    if ea >= 100 and drop_letter_3:
        ex = ('-' if e10 < 0 else '+') + '%03d' % ea
    else:
        ex = letter + esign + ('%0' + str(expdigits) + 'd') % ea
    body = ('-' if neg else ('+' if plus else '')) + mant + ex
    if lower:
        body = body.lower()
    if len(body) > w:
        return '*' * w
    return body.rjust(w)


def fortran_F(v, w, d):
    fr = Fraction(v)
    neg = fr < 0
    a = -fr if neg else fr
    scaled = a * 10 ** d
    q = scaled.numerator // scaled.denominator
    rem = scaled - q
    if rem > Fraction(1, 2) or (rem == Fraction(1, 2) and q % 2 == 1):
        q += 1
    s = str(q).rjust(d + 1, '0')
    body = ('-' if neg else '') + s[:-d] + '.' + s[-d:] if d > 0 else ('-' if neg else '') + s + '.'
    if len(body) > w:
        if body.startswith('0.') and len(body) - 1 <= w: body = body[1:]
        elif body.startswith('-0.') and len(body) - 1 <= w: body = '-' + body[2:]
        else: return '*' * w
    return body.rjust(w)


def fortran_I(i, w):
    s = str(i)
    return '*' * w if len(s) > w else s.rjust(w)


def fortran_A(s, w):
    return s[:w].ljust(w) if len(s) <= w else s[:w]
