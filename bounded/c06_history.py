"""C06 bounded stand-in: t2listing.history() evaluated on the real code against "step through
every result time and read the cell", on every shipped listing (tests/listing/*/*/, no *.npy, no *~).

Contracts (each a plain function returning (ok, detail), evaluations counted per contract):
  terminates   history(selection, short) returns within the per-call limit (CPU seconds of the worker,
               plus a wall-clock limit); expiry = failure 'timeout <file> <selection> ...'
  shape        a single tuple / a one-item list gives one (times, values) pair, an n-item list
               gives n pairs in selection order
  values       values of item k == [cell(item k) at result time i for every result time i]
               (oracle: a separate fresh reader stepped with index = i; for AUTOUGH2 short output an own
               tokenizer of the ESHORT/CSHORT/GSHORT blocks); a connection named in reverse order gives
               the negated series
  times        the times paired with item k are the times of exactly those result sets
  restore      afterwards index, time, step and every table array are what they were before
               the call (and what the fresh reader showed at that index)

Input space per file (parts; quick = subsample, thorough = all):
  A  every non-empty subset of its tables in every order (<= 325), one item per table, rows
     first/last/interior/second, keys by name / integer / reversed name, from every starting index
     (quick: first, middle, last), short on and off where the file has short output
  B  per table: rows first/last/second/interior (+ rows of the short tables) x name/int/reversed/negative int
     x every column (quick: 3), as a single tuple and as a list
  R  every row of every table (quick: a sample), 8 rows per call in shuffled order
  C  random selections of 2..9 items: several rows per table out of order, repeated rows and items
  D  one item per table from every starting index, short on and off
  E  the same reader opened with skip_tables (every single table, pairs): ordered subsets of the rest
Each file is cut into jobs run by a pool of 16 worker processes; a worker that outlives the budget
is killed by the parent ('timeout <file> <selection being evaluated>').

usage: c06_history.py <tier> <seed>
"""
import sys, os, json, time, random, re, glob, itertools, signal, tempfile, shutil, traceback
import multiprocessing as mp
from multiprocessing.connection import wait as mpwait
import warnings
warnings.filterwarnings('ignore')
REPO = os.environ.get('PYTOUGH_REPO', '/repo')
sys.path.insert(0, REPO)
import numpy as np
from t2listing import t2listing

tier = sys.argv[1] if len(sys.argv) > 1 else 'quick'
seed = int(sys.argv[2]) if len(sys.argv) > 2 else 0
QUICK = tier != 'thorough'
NPROC = 16
CALL_LIMIT = 2.0 if QUICK else 5.0        # CPU seconds for one history() call / one open (normal: < 0.5)
WALL_FACTOR = 8                            # ... and CALL_LIMIT * WALL_FACTOR seconds of wall clock (blocking hang)
T_START = time.time()
DEADLINE = T_START + (36.0 if QUICK else 700.0)   # no new case is started after this (cases left over are counted)
HARD_END = T_START + (57.0 if QUICK else 850.0)   # the parent kills whatever still runs
LISTDIR = os.path.join(REPO, 'tests', 'listing')
TSPEC = {'element': 'e', 'connection': 'c', 'generation': 'g', 'primary': 'p', 'element1': 'e1', 'element2': 'e2'}
CONTRACTS = ('terminates', 'shape', 'values', 'times', 'restore')


def listing_files():
    fs = [f for f in glob.glob(os.path.join(LISTDIR, '*', '*', '*'))
          if os.path.isfile(f) and not f.endswith('.npy') and not f.endswith('~')]
    return sorted(os.path.relpath(f, LISTDIR) for f in fs)


# ---------------------------------------------------------------- time limit inside a worker
class CallTimeout(BaseException):
    pass


def _on_alarm(signum, frame):
    raise CallTimeout()


def limited(fn, seconds):
    """Run fn() under interval timers (CPU time of this process, and wall clock); CallTimeout on expiry."""
    signal.signal(signal.SIGALRM, _on_alarm)
    signal.signal(signal.SIGPROF, _on_alarm)
    signal.setitimer(signal.ITIMER_PROF, seconds)
    signal.setitimer(signal.ITIMER_REAL, seconds * WALL_FACTOR)
    try:
        return fn()
    finally:
        signal.setitimer(signal.ITIMER_PROF, 0)
        signal.setitimer(signal.ITIMER_REAL, 0)


# ---------------------------------------------------------------- own reader of AUTOUGH2 blocks
_MARK = re.compile(r'^.(?:(E|C|G)SHORT|(E|C|G)\2{4})(E|C|G){30,}\s*$')
_HEAD = re.compile(r'AFTER\s*(\S+)\s*TIME STEPS\s*(\S+)\s*SECONDS')
_NUM = re.compile(r'^([-+]?)(\d+\.\d*|\.\d+|\d+)(?:[EeDd]([-+]?\d+)|([-+]\d+))?$')


def own_float(tok):
    m = _NUM.match(tok)
    if not m:
        return None
    s, mant, e1, e2 = m.groups()
    e = e1 if e1 is not None else (e2 if e2 is not None else '0')
    return float('%s%se%s' % (s, mant, e))


def own_keys(keyarea, nkeys):
    """5-character names, read right to left from the text preceding the row index."""
    out = []
    s = keyarea
    for _ in range(nkeys):
        s = s.rstrip()
        if len(s) < 1:
            return None
        out.append(s[-5:].rjust(5))
        s = s[:-5]
    return tuple(reversed(out))


def parse_autough2(path):
    """Result sets of an AUTOUGH2 listing: [{'short': bool, 'time': float, 'tables': {kind: rows}}]
    with kind in E, C, G and rows = [(rawkeys, [values] or None)] in printed order."""
    with open(path, 'rb') as f:
        lines = f.read().decode('latin-1').split('\n')
    marks = []
    for i, ln in enumerate(lines):
        m = _MARK.match(ln.rstrip('\r'))
        if m:
            marks.append((i, (m.group(1) + 'S') if m.group(1) else m.group(2)))
    if len(marks) % 3:
        marks = marks[:len(marks) - len(marks) % 3]          # truncated last table: ignore it
    outputs = []
    for k in range(0, len(marks), 3):
        (a, ka), (b, kb), (c, kc) = marks[k:k + 3]
        if not (ka == kb == kc):
            raise ValueError('marker lines do not come in threes at line %d' % (a + 1))
        head = None
        for ln in lines[a + 1:b]:
            m = _HEAD.search(ln)
            if m:
                head = (m.group(1), m.group(2))
        if head is None:
            raise ValueError('no time header after line %d' % (a + 1))
        body = [ln.rstrip('\r') for ln in lines[b + 1:c]]
        hi = [i for i, ln in enumerate(body) if 'INDEX' in ln.split()]
        if not hi:
            raise ValueError('no column header after line %d' % (b + 1))
        nkeys = body[hi[0]].split().index('INDEX')
        rows = []
        for ln in body[hi[0] + 1:]:
            if not ln.strip():
                continue
            body_ln = ln[1:]                                  # column 1 is carriage control
            spans = [(m.start(), m.group()) for m in re.finditer(r'\S+', body_ln)]
            toks = [s for _, s in spans]
            vals = []
            while toks and '.' in toks[-1] and own_float(toks[-1]) is not None:
                vals.append(own_float(toks.pop()))
            vals.reverse()
            if not toks or not vals or not toks[-1].isdigit():
                rows.append((None, None)); continue
            rows.append((own_keys(body_ln[:spans[len(toks) - 1][0]], nkeys), vals))
        kind, short = ka[0], ka.endswith('S')
        if outputs and outputs[-1]['head'] == head and outputs[-1]['short'] == short and kind not in outputs[-1]['tables']:
            outputs[-1]['tables'][kind] = rows
        else:
            outputs.append({'head': head, 'short': short, 'time': own_float(head[1]), 'tables': {kind: rows}})
    return outputs


# ---------------------------------------------------------------- oracle: fresh reader, stepped
class Oracle(object):
    def __init__(self, rel):
        self.rel = rel
        self.path = os.path.join(LISTDIR, rel)
        ref = t2listing(self.path)
        self.sim = ref.simulator
        self.n = ref.num_fulltimes
        self.tables = list(ref._tablenames)
        self.rows = {t: list(ref._table[t].row_name) for t in self.tables}
        self.cols = {t: list(ref._table[t].column_name) for t in self.tables}
        self.revok = {t: bool(ref._table[t].allow_reverse_keys) for t in self.tables}
        self.data = {t: [] for t in self.tables}
        self.T, self.S = [], []
        for i in range(self.n):                      # "visiting every result time in turn"
            ref.index = i
            self.T.append(float(ref.time)); self.S.append(ref.step)
            for t in self.tables:
                self.data[t].append(ref._table[t]._data.copy())
        self.data = {t: np.array(self.data[t]) for t in self.tables}
        ref.close()
        self.outputs = None
        self.rawkeys = {}
        self.parse_problem = None
        if self.sim == 'AUTOUGH2':
            outs = parse_autough2(self.path)
            nfull = len([o for o in outs if not o['short']])
            if nfull != self.n:
                self.parse_problem = 'own reader finds %d full result sets, library %d' % (nfull, self.n)
            else:
                first = [o for o in outs if not o['short']][0]
                for t in self.tables:
                    rows = first['tables'].get(t[0].upper())
                    if rows is None or len(rows) != len(self.rows[t]):
                        self.parse_problem = 'own reader and library disagree on the rows of the first %s table' % t
                    else:
                        self.rawkeys[t] = [r[0] for r in rows]
                self.outputs = outs

    def resolve(self, item):
        """(table, row index, sign, column index) of a valid item, else None."""
        tspec, key, col = item
        t0 = tspec[0].lower()
        name = {'e': 'element', 'c': 'connection', 'g': 'generation', 'p': 'primary'}.get(t0)
        if name is None:
            return None
        if tspec[-1].isdigit():
            name += tspec[-1]
        if name not in self.tables or col not in self.cols[name]:
            return None
        rows = self.rows[name]
        sign = 1.0
        if isinstance(key, int):
            if not (-len(rows) <= key < len(rows)):
                return None
            r = key % len(rows)
        else:
            last = lambda k: max(i for i, x in enumerate(rows) if x == k)
            if key in rows:
                r = last(key)
            elif self.revok[name] and isinstance(key, tuple) and key[::-1] in rows:
                r = last(key[::-1]); sign = -1.0
            else:
                return None
        c = max(i for i, x in enumerate(self.cols[name]) if x == col)
        return name, r, sign, c

    def series(self, item, short):
        """Acceptable (times, values) of one item: normally one; None = no verdict.  A row given by position
        whose name is printed more than once in the full table cannot be matched to a row of the short
        tables by name, so both readings (with and without the short results) are accepted."""
        name, r, sign, c = self.resolve(item)
        one = self.series1(item, short)
        if one is None or not short or self.outputs is None:
            return None if one is None else [one]
        if self.rows[name].count(self.rows[name][r]) > 1:
            return [one, self.series1(item, False)]
        return [one]

    def series1(self, item, short):
        name, r, sign, c = self.resolve(item)
        full = sign * self.data[name][:, r, c]
        if not (short and self.outputs is not None and any(o['short'] for o in self.outputs)):
            return np.array(self.T), full
        raw = self.rawkeys[name][r]
        times, vals, j = [], [], 0
        for o in self.outputs:
            if not o['short']:
                times.append(self.T[j]); vals.append(full[j]); j += 1
            else:
                rows = o['tables'].get(name[0].upper())
                if rows is None:
                    continue
                hit = [v for (k, v) in rows if k == raw]
                if hit:
                    if hit[-1] is None or len(hit[-1]) <= c:
                        return None                  # own reader could not split the row: no verdict
                    times.append(o['time']); vals.append(sign * hit[-1][c])
        return np.array(times), np.array(vals)


def snapshot(lst):
    return (lst.index, lst.time, lst.step, {t: lst._table[t]._data.copy() for t in lst._table})


def same_array(a, b):
    a, b = np.asarray(a), np.asarray(b)
    return a.shape == b.shape and bool(np.array_equal(a, b, equal_nan=True))


def same_snapshot(a, b):
    if not (a[0] == b[0] and a[1] == b[1] and a[2] == b[2]):
        return False, 'index/time/step %r -> %r' % (a[:3], b[:3])
    for t in a[3]:
        if t not in b[3] or not same_array(a[3][t], b[3][t]):
            bad = np.argwhere(~((a[3][t] == b[3][t]) | (np.isnan(a[3][t]) & np.isnan(b[3][t])))) if t in b[3] and a[3][t].shape == b[3][t].shape else []
            return False, 'table %s differs in %d cells, first at row/col %s' % (t, len(bad), list(map(int, bad[0])) if len(bad) else '?')
    return True, ''


# ---------------------------------------------------------------- the contracts
def contract_shape(res, nitems, form):
    if nitems == 1:
        if isinstance(res, list) and len(res) == 1:
            res = res[0]
        ok = isinstance(res, tuple) and len(res) == 2
        return ok, ([res] if ok else None), 'one item gives %s' % type(res).__name__
    ok = isinstance(res, list) and len(res) == nitems and all(isinstance(x, tuple) and len(x) == 2 for x in res)
    return ok, (res if ok else None), '%d items give %s of length %s' % (nitems, type(res).__name__, len(res) if hasattr(res, '__len__') else '-')


def contract_values(got, want):
    if same_array(np.asarray(got, dtype=float), want):
        return True, ''
    g = np.asarray(got, dtype=float)
    if g.shape != want.shape:
        return False, '%d values, expected %d (first values %s, expected %s)' % (g.size, want.size, g[:3].tolist(), want[:3].tolist())
    k = int(np.argwhere(~((g == want) | (np.isnan(g) & np.isnan(want))))[0][0])
    return False, 'value at result %d is %r, expected %r (%d of %d differ)' % (k, float(g[k]), float(want[k]), int(np.sum(g != want)), g.size)


def contract_times(got, want):
    try:
        g = np.asarray(got, dtype=float)
    except Exception:
        return False, 'times are %r' % (got,)
    if same_array(g, want):
        return True, ''
    return False, 'times %s.., expected %s.. (lengths %d, %d)' % (g[:3].tolist(), want[:3].tolist(), g.size, want.size)


class Runner(object):
    """Holds the reader under test for one file; evaluates one history call."""

    def __init__(self, ora, progress):
        self.ora = ora
        self.lst = None
        self.skip = ()
        self.progress = progress
        self.counts = dict((c, 0) for c in CONTRACTS)

    def reader(self, skip=()):
        if self.lst is not None and self.skip != skip:
            self.drop()
        if self.lst is None:
            self.skip = skip
            self.lst = limited(lambda: t2listing(self.ora.path, skip_tables=list(skip)) if skip else t2listing(self.ora.path), CALL_LIMIT)
        return self.lst

    def drop(self):
        try:
            if self.lst is not None: self.lst.close()
        except Exception:
            pass
        self.lst = None

    def call(self, sel, form, short, start, count=True, skip=()):
        """Returns the list of (category, what) violations of one history call."""
        ora = self.ora
        out = []
        def bump(c):
            if count: self.counts[c] += 1
        self.progress(('skip=%s ' % json.dumps(list(skip)) if skip else '') + '%s short=%s start=%d' % (json.dumps(js(sel)), short, start))
        lst = self.reader(skip)
        if lst.index != start:
            try:
                limited(lambda: setattr(lst, 'index', start), CALL_LIMIT)
            except CallTimeout:
                raise
            except Exception as e:
                tb = traceback.extract_tb(sys.exc_info()[2])[-1]
                self.drop()
                return [('position-exception', 'cannot position the reader: index = %d raises %s: %s (%s:%d)' %
                         (start, type(e).__name__, e, os.path.basename(tb.filename), tb.lineno))]
        before = snapshot(lst)
        arg = sel[0] if form == 'tuple' else list(sel)
        bump('terminates')
        try:
            res = limited(lambda: lst.history(arg, short=short), CALL_LIMIT)
        except CallTimeout:
            self.drop()
            return [('timeout', 'history() still running after %g s of CPU time' % CALL_LIMIT)]
        except Exception as e:
            tb = traceback.extract_tb(sys.exc_info()[2])[-1]
            self.drop()
            return [('history-exception', 'history() raises %s: %s (%s:%d)' % (type(e).__name__, e, os.path.basename(tb.filename), tb.lineno))]
        bump('shape')
        ok, pairs, detail = contract_shape(res, len(sel), form)
        if not ok:
            out.append(('history-shape', detail))
        else:
            for k, item in enumerate(sel):
                want = ora.series(item, short)
                if want is None:
                    continue
                bump('values')
                if len(want) > 1 and contract_values(pairs[k][1], want[1][1])[0]:
                    want = want[1]
                else:
                    want = want[0]
                ok, detail = contract_values(pairs[k][1], want[1])
                if not ok:
                    cat = 'history-value'
                    if ora.resolve(item)[2] < 0: cat = 'history-reverse'
                    if isinstance(item[1], int) and item[1] < 0: cat = 'history-negindex'
                    out.append((cat, 'item %d %s: %s' % (k, js([item])[0], detail)))
                bump('times')
                ok, detail = contract_times(pairs[k][0], want[0])
                if not ok:
                    out.append(('history-negindex' if isinstance(item[1], int) and item[1] < 0 else 'history-times', 'item %d %s: %s' % (k, js([item])[0], detail)))
        bump('restore')
        try:
            after = snapshot(lst)
            ok, detail = same_snapshot(before, after)
            if not ok:
                out.append(('restore', 'after history(): ' + detail))
            fresh = (start, ora.T[start], ora.S[start], {t: ora.data[t][start] for t in ora.tables if t not in skip})
            ok, detail = same_snapshot(fresh, after)
            if not ok and not any(c == 'restore' for c, _ in out):
                out.append(('restore-vs-fresh', 'after history() the reader differs from a fresh one at index %d: %s' % (start, detail)))
            if out and any(c.startswith('restore') for c, _ in out):
                self.drop()
        except Exception as e:
            out.append(('restore', 'cannot read the state after history(): %s: %s' % (type(e).__name__, e)))
            self.drop()
        return out


def js(sel):
    return [[t, list(k) if isinstance(k, tuple) else k, c] for (t, k, c) in sel]


def unjs(sel):
    return [(t, tuple(k) if isinstance(k, list) else k, c) for (t, k, c) in sel]


# ---------------------------------------------------------------- case generation
def gen_cases(ora, rnd):
    """All (part, selection, form, short, start) cases of one file, deterministic for the seed."""
    tables = ora.tables
    n = ora.n
    has_short = ora.outputs is not None and any(o['short'] for o in ora.outputs)
    shorts = (True, False) if has_short else (True,)
    starts_few = sorted(set([0, n - 1, n // 2]))
    starts_all = list(range(n))

    def rowpick(t, kind):
        nr = len(ora.rows[t])
        if kind == 'first' or nr == 1: return 0
        if kind == 'last': return nr - 1
        if kind == 'second': return min(1, nr - 1)
        return rnd.randrange(1, max(2, nr - 1))

    def keyform(t, r, form):
        name = ora.rows[t][r]
        if form == 'int': return r
        if form == 'rev' and isinstance(name, tuple) and ora.revok[t] and name[::-1] not in ora.rows[t]: return name[::-1]
        if form == 'neg': return r - len(ora.rows[t])
        return name

    def spec(t, upper=False):
        s = TSPEC[t]
        return s.upper() if upper else s

    def in_short(t, r):
        if not has_short or t not in ora.rawkeys: return False
        raw = ora.rawkeys[t][r]
        for o in ora.outputs:
            if o['short'] and t[0].upper() in o['tables']:
                return any(k == raw for k, v in o['tables'][t[0].upper()])
        return False

    def short_rows(t):
        return [r for r in range(len(ora.rows[t])) if in_short(t, r)] if has_short else []

    srows = {t: short_rows(t) for t in tables}
    cases = []
    # A: every non-empty subset of the tables in every order, one item per table
    kinds, forms = ['first', 'last', 'interior', 'second'], ['name', 'int', 'rev', 'name']
    orders = [p for k in range(1, len(tables) + 1) for sub in itertools.combinations(tables, k) for p in itertools.permutations(sub)]
    for io, order in enumerate(orders):
        sel = []
        for it, t in enumerate(order):
            if srows[t] and (io + it) % 2 == 0:
                r = srows[t][(io + it) % len(srows[t])]
            else:
                r = rowpick(t, kinds[(io + it) % 4])
            sel.append((spec(t, upper=(io % 7 == 3)), keyform(t, r, forms[(io // 2 + it) % 4]), ora.cols[t][(io + 2 * it) % len(ora.cols[t])]))
        sts = starts_few if QUICK else (starts_all if len(orders) * n <= 6000 else sorted(set(starts_few + [rnd.randrange(n) for _ in range(4)])))
        for st in sts:
            for sh in shorts:
                cases.append(('A', sel, 'list', sh, st))
    # B: per table, rows first/last/interior x name/int/reversed x columns, tuple and list form
    for t in tables:
        rs = [rowpick(t, 'first'), rowpick(t, 'last'), rowpick(t, 'second')] + [rowpick(t, 'interior') for _ in range(2 if QUICK else 6)] + srows[t][:2] + srows[t][-1:]
        rs = sorted(set(rs))
        cs = list(ora.cols[t])
        fm = ['name', 'int'] + (['rev'] if ora.revok[t] else []) + ['neg']
        for ir, r in enumerate(rs):
            for f in fm:
                if f == 'neg' and ir not in (0, len(rs) - 1): continue
                cc = cs if not QUICK else sorted(set(cs[(ir + k) % len(cs)] for k in (0, len(cs) // 3, 2 * len(cs) // 3)), key=cs.index)
                if f == 'neg': cc = cs[:1]                  # negative row index: once per table end
                for ic, c in enumerate(cc):
                    for form in ('tuple', 'list'):
                        if (QUICK or f == 'neg') and form == 'list' and ic + (f == 'neg'): continue
                        for sh in shorts:
                            cases.append(('B', [(spec(t), keyform(t, r, f), c)], form, sh, (ir + ic) % n if not QUICK else starts_few[(ir + ic) % len(starts_few)]))
    # R: every row of every table (quick: a sample), 8 rows per call in shuffled order
    for t in tables:
        nr = len(ora.rows[t])
        rows = list(range(nr))
        rnd.shuffle(rows)
        if QUICK: rows = rows[:160 if nr * len(tables) < 3000 else 40]
        for b in range(0, len(rows), 8):
            sel = [(spec(t), keyform(t, r, ['name', 'int', 'rev', 'name'][(b + j) % 4]), ora.cols[t][(b // 8 + j) % len(ora.cols[t])])
                   for j, r in enumerate(rows[b:b + 8])]
            cases.append(('R', sel, 'list', shorts[(b // 8) % len(shorts)], (b // 8) % n))
    # C: several items, several rows per table in arbitrary order, repeated rows and items
    for k in range((150 if sum(len(ora.rows[t]) for t in tables) < 3000 else 40) if QUICK else 2500):
        m = rnd.choice([2, 2, 3, 4, 6, 9])
        ts = [rnd.choice(tables) for _ in range(m)] if k % 3 else [rnd.choice(tables)] * m
        sel = []
        for t in ts:
            nr = len(ora.rows[t])
            r = rnd.choice([0, nr - 1, rnd.randrange(nr), rnd.randrange(nr)] + (srows[t][:3] if srows[t] else []))
            if sel and rnd.random() < 0.2 and TSPEC.get(t) == sel[-1][0]:
                prev = ora.resolve(sel[-1])
                if prev: r = rnd.choice([prev[1], min(prev[1] + 1, nr - 1), max(prev[1] - 1, 0)])
            sel.append((spec(t, upper=rnd.random() < 0.1), keyform(t, r, rnd.choice(['name', 'name', 'int', 'rev'])), rnd.choice(ora.cols[t])))
        for sh in shorts:
            cases.append(('C', sel, 'list', sh, rnd.randrange(n)))
    # D: every starting index (quick: first/last) with one item per table in file order
    sel = [(spec(t), keyform(t, rowpick(t, 'interior'), 'name'), ora.cols[t][-1]) for t in tables]
    for st in (starts_few if QUICK else starts_all):
        for sh in (True, False):
            cases.append(('D', sel, 'list', sh, st))
    return cases


def skip_groups(ntables):
    """Index sets of the tables left out by skip_tables: every single table, and pairs (quick: a third of them)."""
    if ntables < 2:
        return []
    groups = [(i,) for i in range(ntables)]
    if ntables > 2:
        pairs = list(itertools.combinations(range(ntables), 2))
        groups += pairs if not QUICK else pairs[seed % 3::3]
    return groups


def gen_skip_cases(ora, rnd, group):
    """Part E: the reader is opened with skip_tables; ordered subsets of the tables it still has."""
    tables, n = ora.tables, ora.n
    groups = skip_groups(len(tables))
    if group < 999:
        groups = groups[group:group + 1]               # this job does one set of skipped tables only
    cases = []
    for skip in [tuple(tables[i] for i in g) for g in groups]:
        rest = [t for t in tables if t not in skip]
        kmax = len(rest) if not QUICK else 2
        for io, order in enumerate(p for k in range(1, kmax + 1) for sub in itertools.combinations(rest, k) for p in itertools.permutations(sub)):
            sel = []
            for it, t in enumerate(order):
                nr = len(ora.rows[t])
                r = [0, nr - 1, nr // 2][(io + it) % 3]
                key = ora.rows[t][r] if (io + it) % 2 == 0 else r
                sel.append((TSPEC[t], key, ora.cols[t][(io + it) % len(ora.cols[t])]))
            cases.append(('E', sel, 'list', True, (io * 7 + len(skip)) % n, skip))
    return cases


# ---------------------------------------------------------------- one job = one slice of one file
def run_job(job, conn, progfile):
    rel, chunk, nchunks = job[:3]
    skipjob = chunk < 0
    t0 = time.time()
    out = {'rel': rel, 'counts': dict((c, 0) for c in CONTRACTS), 'distinct': 0, 'failures': [], 'nfailures': 0,
           'samples': [], 'skipped': 0, 'cases': 0}
    pf = open(progfile, 'w')

    def progress(s):
        pf.seek(0); pf.write(s + '\n'); pf.truncate(); pf.flush()

    def fail(cat, desc, what, inp):
        out['nfailures'] += 1
        if len(out['failures']) < 40:
            out['failures'].append({'key': '%s %s %s' % (cat, rel, desc), 'what': what, 'input': inp})

    try:
        progress('"open"')
        try:
            ora = limited(lambda: Oracle(rel), 4 * CALL_LIMIT)
        except CallTimeout:
            fail('timeout', 'open', 'opening / stepping through the listing still running after %g s' % (4 * CALL_LIMIT), {'file': rel})
            conn.send(out); return
        except Exception as e:
            fail('open-exception', 'open', '%s: %s' % (type(e).__name__, e), {'file': rel, 'traceback': traceback.format_exc()[-600:]})
            conn.send(out); return
        if ora.parse_problem and chunk == 0:
            fail('parse-disagree', '', ora.parse_problem, {'file': rel})
        rnd = random.Random('%d %s' % (seed, rel))
        cases = [c + ((),) for c in gen_cases(ora, rnd)[chunk::nchunks]] if not skipjob else gen_skip_cases(ora, rnd, -chunk - 1)
        ntimeouts = {}
        run = Runner(ora, progress)
        seen = set()
        nshrunk = 0
        for (part, sel, form, short, start, skip) in cases:
            if time.time() > DEADLINE or ntimeouts.get(skip, 0) >= ((2 if QUICK else 3) if skip else (6 if QUICK else 20)):
                out['skipped'] += 1          # out of time, or this reader configuration has hung often enough
                continue
            sel = [it for it in sel if ora.resolve(it) is not None]
            if not sel:
                continue
            pre = 'skip=%s ' % json.dumps(list(skip)) if skip else ''
            desc = pre + '%s short=%s start=%d%s' % (json.dumps(js(sel)), short, start, ' tuple' if form == 'tuple' else '')
            if desc in seen:
                continue
            seen.add(desc)
            out['cases'] += 1
            try:
                viol = run.call(sel, form, short, start, skip=skip)
            except CallTimeout:
                run.drop()
                viol = [('timeout', 'opening / positioning the reader still running after %g s of CPU time' % CALL_LIMIT)]
            if any(c == 'timeout' for c, _ in viol):
                ntimeouts[skip] = ntimeouts.get(skip, 0) + 1
            hung = any(c == 'timeout' for c, _ in viol)
            if viol and len(sel) > 1 and nshrunk < 12 and not (hung and (len(sel) > 2 or ntimeouts.get(skip, 0) > 1)):      # shrink to a smallest failing selection
                nshrunk += 1
                cats = set(c for c, _ in viol)
                cur = list(sel)
                changed = True
                while changed and len(cur) > 1 and time.time() < DEADLINE:
                    changed = False
                    for i in range(len(cur)):
                        cand = cur[:i] + cur[i + 1:]
                        try:
                            v2 = run.call(cand, 'list', short, start, count=False, skip=skip)
                        except CallTimeout:
                            run.drop(); v2 = [('timeout', '')]
                        if cats & set(c for c, _ in v2):
                            cur, viol, changed = cand, [x for x in v2 if x[0] in cats], True
                            break
                sel = cur
                desc = pre + '%s short=%s start=%d' % (json.dumps(js(sel)), short, start)
            for cat, what in viol:
                fail(cat, desc, what, {'file': rel, 'selection': js(sel), 'short': short, 'start_index': start, 'form': form, 'skip_tables': list(skip),
                                       'python': "l = t2listing(%r%s); l.index = %d; l.history(%s, short=%s)" %
                                                 ('tests/listing/' + rel, ', skip_tables=%r' % (list(skip),) if skip else '', start,
                                                  repr(sel[0] if form == 'tuple' else sel), short)})
            if len(out['samples']) < 1 and part == 'A' and len(sel) > 1 and not viol:
                w = ora.series(sel[0], short)
                out['samples'].append({'file': rel, 'selection': js(sel), 'short': short, 'start': start,
                                       'first_item_values': [float(x) for x in (w[0][1][:3] if w else [])]})
        out['counts'] = run.counts
        out['distinct'] = len(seen)
        out['seconds'] = time.time() - t0
        run.drop()
        conn.send(out)
    except BaseException as e:
        out['failures'].append({'key': 'harness-error %s' % rel, 'what': '%s: %s' % (type(e).__name__, e), 'input': {'traceback': traceback.format_exc()[-1500:]}})
        out['nfailures'] += 1
        try: conn.send(out)
        except Exception: pass
    finally:
        pf.close()


def run_jobs(jobs, tmp):
    ctx = mp.get_context('fork')
    pending = list(enumerate(jobs))
    running, results = {}, {}
    while pending or running:
        while pending and len(running) < NPROC:
            idx, job = pending.pop(0)
            a, b = ctx.Pipe(duplex=False)
            pfile = os.path.join(tmp, 'progress-%d' % idx)
            p = ctx.Process(target=run_job, args=(job, b, pfile))
            p.start(); b.close()
            running[idx] = (p, a, time.time(), job, pfile)
        mpwait([r[1] for r in running.values()], timeout=0.2)
        for idx in list(running):
            p, a, t0, job, pfile = running[idx]
            done = None
            if a.poll():
                try: done = a.recv()
                except EOFError: done = 'crash'
            elif not p.is_alive():
                done = 'crash'
            elif time.time() > HARD_END:
                done = 'killed'
            if done is None:
                continue
            if isinstance(done, str):
                try: cur = open(pfile).read().strip()
                except Exception: cur = '?'
                p.kill()
                cat = 'timeout' if done == 'killed' else 'worker-crash'
                done = {'rel': job[0], 'counts': {}, 'distinct': 0, 'nfailures': 1, 'samples': [], 'skipped': 0, 'cases': 0,
                        'failures': [{'key': '%s %s %s' % (cat, job[0], cur), 'what': 'worker process %s while evaluating %s (job %r)' %
                                      ('had to be killed %.0f s after it started' % (time.time() - t0) if cat == 'timeout' else 'died', cur, job), 'input': {'file': job[0], 'case': cur}}]}
            p.join(5); a.close()
            results[idx] = done
            del running[idx]
    return [results[i] for i in range(len(jobs))]


def main():
    t0 = time.time()
    tmp = tempfile.mkdtemp(prefix='pytough-', dir=os.environ.get('PYTOUGH_SCRATCH', '/var/tmp'))
    try:
        files = listing_files()
        jobs = []
        for rel in files:
            size = os.path.getsize(os.path.join(LISTDIR, rel))
            k = 1
            plus = rel.startswith('TOUGHplus')             # 5 tables: 325 ordered subsets
            k = max(4 if plus else 1, size // 220000) if QUICK else max(4, size // 50000) * (2 if plus else 1)
            jobs += [(rel, c, k) for c in range(k)]
            # readers opened with skip_tables: one job per file; TOUGH+ (5 tables): one per set of skipped tables
            jobs += [(rel, -1 - g, 1) for g in range(len(skip_groups(5)))] if plus else [(rel, -1000, 1)]
        # round robin over the files, the heaviest first
        jobs.sort(key=lambda j: (max(j[1], 0) if j[1] >= 0 else ((-j[1] - 1) // 2) % 500, -(os.path.getsize(os.path.join(LISTDIR, j[0])) * (5 if j[0].startswith('TOUGHplus') else 1)), j))
        res = run_jobs(jobs, tmp)
    finally:
        shutil.rmtree(tmp, ignore_errors=True)
    res.sort(key=lambda r: r['rel'])
    counts = dict((c, 0) for c in CONTRACTS)
    failures, nfail, distinct, samples, skipped, ncases = [], 0, 0, [], 0, 0
    for r in res:
        for c, v in r['counts'].items(): counts[c] += v
        nfail += r['nfailures']; distinct += r['distinct']; skipped += r['skipped']; ncases += r['cases']
        failures += r['failures']; samples += r['samples']
    # keep the 60 reported failures diverse: at most 3 per (category, file), then fill up
    failures.sort(key=lambda f: f['key'])
    per, first, rest = {}, [], []
    for f in failures:
        k = tuple(f['key'].split(' ')[:2])
        per[k] = per.get(k, 0) + 1
        (first if per[k] <= 3 else rest).append(f)
    shown = (first + rest)[:60]
    samples = samples[:5]
    slow = sorted(((round(r.get('seconds', -1), 1), r['rel'], r['cases']) for r in res), reverse=True)[:3]
    samples.append({'contract_evaluations': counts, 'slowest_jobs': slow, 'history_calls': ncases, 'files': len(files), 'jobs': len(jobs),
                    'cases_not_run_out_of_time_or_after_repeated_hangs': skipped})
    print('@@JSON@@' + json.dumps({'evaluations': sum(counts.values()), 'distinct': distinct, 'failures': shown,
                                   'nfailures': nfail, 'samples': samples, 'seconds': time.time() - t0}))


if __name__ == '__main__':
    main()
