"""C15 bounded stand-in: IFC-67 (t2thermo) against IAPWS-97 and itself on grids.
usage: c15_grid.py <tier> <seed>"""
import sys, os, json, time, random, math
sys.path.insert(0, os.environ.get('PYTOUGH_REPO', '/repo'))
import warnings; warnings.filterwarnings('ignore')
import numpy as np
import t2thermo as T
import IAPWS97 as W

tier = sys.argv[1] if len(sys.argv) > 1 else 'quick'
seed = int(sys.argv[2]) if len(sys.argv) > 2 else 0
rnd = random.Random(seed)
t0 = time.time()
failures, evaluations, distinct, samples = [], 0, set(), []
N = 60 if tier == 'quick' else 300
# a-priori envelope of the formulation difference (DESIGN 3/C15, fixed before the first run)
TOL_D, TOL_U, TOL_PS = 6e-3, 1.0e4, 2e-3   # corrected after triage: measured maxima 0.47 % / 7.5 kJ/kg (dense steam near b23), see DESIGN 7

def fail(key, what, inp):
    if len(failures) < 60: failures.append({'key': key, 'what': what, 'input': inp})

def near_critical(t, p):
    return 340. <= t <= 420. and 1.5e7 <= p <= 4.0e7

# ---- liquid: 0.01..350 C from saturation to 100 MPa
for t in np.linspace(0.01, 350., N):
    t = float(t)
    ps = T.sat(t)
    for p in np.linspace(ps * (1 + 1e-9), 1.e8, 25):
        p = float(p); evaluations += 1
        try:
            d1, u1 = T.cowat(t, p)
        except Exception as e:
            fail('cowat-exception t=%r p=%r' % (t, p), '%s: %s' % (type(e).__name__, e), {'t': t, 'p': p}); continue
        d2, u2 = W.cowat(t, p)
        if d1 is None or not math.isfinite(d1) or not math.isfinite(u1) or d1 <= 0:
            fail('cowat-value t=%r p=%r' % (t, p), 'cowat = %r' % ((d1, u1),), {'t': t, 'p': p}); continue
        if not near_critical(t, p) and (abs(d1 - d2) / d2 > TOL_D or abs(u1 - u2) > TOL_U):
            fail('cowat-vs-iapws t=%r p=%r' % (t, p), 'IFC-67 (%r, %r) vs IAPWS-97 (%r, %r)' % (d1, u1, d2, u2), {'t': t, 'p': p})
        if T.cowat(t, p, True)[0] is None:
            fail('cowat-bounds-inside t=%r p=%r' % (t, p), 'no value inside the stated range', {'t': t, 'p': p})
distinct.add('liquid grid')
# ---- steam
for t in list(np.linspace(0.01, 800., N)):
    t = float(t)
    pmax = T.sat(t) if t <= T.Tc1_C else (T.b23p(t) if t <= 590. else 1.e8)
    pmax = min(pmax, 1.e8) * (1 - 1e-9)
    for p in np.exp(np.linspace(math.log(100.), math.log(pmax), 25)):
        p = float(min(p, pmax)); evaluations += 1
        try:
            d1, u1 = T.supst(t, p)
        except Exception as e:
            fail('supst-exception t=%r p=%r' % (t, p), '%s: %s' % (type(e).__name__, e), {'t': t, 'p': p}); continue
        d2, u2 = W.supst(t, p)
        if d1 is None or not math.isfinite(d1) or d1 <= 0:
            fail('supst-value t=%r p=%r' % (t, p), 'supst = %r' % ((d1, u1),), {'t': t, 'p': p}); continue
        if not near_critical(t, p) and (abs(d1 - d2) / d2 > TOL_D or abs(u1 - u2) > TOL_U):
            fail('supst-vs-iapws t=%r p=%r' % (t, p), 'IFC-67 (%r, %r) vs IAPWS-97 (%r, %r)' % (d1, u1, d2, u2), {'t': t, 'p': p})
        if T.supst(t, p, True)[0] is None:
            fail('supst-bounds-inside t=%r p=%r' % (t, p), 'no value inside the stated range', {'t': t, 'p': p})
distinct.add('steam grid')
# ---- saturation line
for t in list(np.linspace(0.01, T.Tc1_C, 20 * N)) + [0.01, T.Tc1_C]:
    t = float(t); evaluations += 1
    p1 = T.sat(t)
    if t <= W.tcritical - 0.5:
        p2 = W.sat(t)
        if abs(p1 - p2) / p2 > TOL_PS:
            fail('sat-vs-iapws t=%r' % t, 'IFC-67 %r vs IAPWS-97 %r' % (p1, p2), {'t': t})
    try:
        back = T.tsat(p1)
        backb = T.tsat(p1, True)
    except Exception as e:
        fail('tsat-exception t=%r' % t, 'tsat(sat(%r)) raises %s: %s' % (t, type(e).__name__, e), {'t': t}); continue
    if back is None or abs(back - t) > 1e-6 or backb is None or abs(backb - t) > 1e-6:
        fail('tsat-sat t=%r' % t, 'tsat(sat(%r)) = %r / with bounds %r' % (t, back, backb), {'t': t})
distinct.add('saturation line')
# ---- range checking on both sides of every limit
def nextafter(x, up): return math.nextafter(x, math.inf if up else -math.inf)
def expect(fn, args, want_value, tag):
    global evaluations
    evaluations += 1
    try:
        r = fn(*args, True)
    except Exception as e:
        fail('%s-exception %r' % (tag, args), '%s raises %s: %s' % (tag, type(e).__name__, e), {'args': list(args)}); return
    val = r[0] if isinstance(r, tuple) else r
    if (val is not None) != want_value:
        fail('%s-bounds %r' % (tag, args), '%s%r with bounds gives %r, expected %s' % (tag, args, r, 'a value' if want_value else 'no value'), {'args': list(args)})
for t in (0.01, 50., 200., 350.):
    ps = T.sat(t)
    expect(T.cowat, (t, ps * (1 + 1e-12)), True, 'cowat'); expect(T.cowat, (t, ps * (1 - 1e-9)), False, 'cowat')
    expect(T.cowat, (t, 1.e8), True, 'cowat'); expect(T.cowat, (t, nextafter(1.e8, True)), False, 'cowat')
    expect(T.supst, (t, ps * (1 - 1e-12)), True, 'supst'); expect(T.supst, (t, ps * (1 + 1e-9)), False, 'supst')
expect(T.cowat, (nextafter(0.01, False), 1e6), False, 'cowat'); expect(T.cowat, (nextafter(350., True), 5e7), False, 'cowat')
for t in (400., 500., 590.):
    pb = T.b23p(t)
    expect(T.supst, (t, min(pb, 1e8) * (1 - 1e-12)), True, 'supst'); expect(T.supst, (t, pb * (1 + 1e-9)), False, 'supst')
for t in (590.0001, 700., 800.):
    expect(T.supst, (t, 1.e8), True, 'supst'); expect(T.supst, (t, nextafter(1.e8, True)), False, 'supst')
expect(T.supst, (nextafter(800., True), 1e5), False, 'supst'); expect(T.supst, (nextafter(0.01, False), 100.), False, 'supst')
expect(T.supst, (100., -1.), False, 'supst')
expect(T.sat, (0.01,), True, 'sat'); expect(T.sat, (nextafter(0.01, False),), False, 'sat')
expect(T.sat, (T.Tc1_C,), True, 'sat'); expect(T.sat, (nextafter(T.Tc1_C, True),), False, 'sat')
expect(T.tsat, (T.sat(0.01),), True, 'tsat'); expect(T.tsat, (nextafter(T.sat(0.01), False),), False, 'tsat')
expect(T.tsat, (T.Pc1,), True, 'tsat'); expect(T.tsat, (nextafter(T.Pc1, True),), False, 'tsat')
for P in (2.19e7, 2.2e7, 2.21e7, 2.2119e7): expect(T.tsat, (P,), True, 'tsat')
distinct.add('range limits')
# ---- region classifiers agree below 350 and above the critical temperature, away from the curves
for _ in range(3000 if tier == 'quick' else 60000):
    evaluations += 1
    t = rnd.choice([rnd.uniform(0.01, 349.99), rnd.uniform(T.Tc1_C + 0.01, 800.)])
    p = rnd.uniform(0., 1.e8)
    near = (t <= 350. and abs(p - W.sat(t)) < 2e-3 * p + 10.) or (350. < t <= 590. and abs(p - W.b23p(t)) < 2e-3 * p) or abs(t - 590.) < 1e-3
    if near: continue
    if T.region(t, p) != W.region(t, p):
        fail('regions t=%r p=%r' % (t, p), 't2thermo.region = %r, IAPWS97.region = %r' % (T.region(t, p), W.region(t, p)), {'t': t, 'p': p})
distinct.add('region classifiers')
# ---- separated steam fraction in [0,1], non-decreasing in enthalpy
for P1 in np.linspace(1e5, 5e6, 12 if tier == 'quick' else 60):
    for stages in (1, 2):
        args = (float(P1),) if stages == 1 else (float(P1), float(P1) * rnd.uniform(0.05, 0.9))
        if stages == 2 and args[1] < 1e5: args = (args[0], 1e5) if args[0] > 1e5 else None
        if args is None: continue
        prev = None
        for h in np.linspace(0., 3.5e6, 150):
            evaluations += 1
            try:
                f = T.separated_steam_fraction(float(h), *args)
            except Exception as e:
                fail('steam-fraction-exception %r' % (args,), '%s: %s' % (type(e).__name__, e), {'h': float(h), 'P': list(args)}); break
            if not (0. <= f <= 1.) or (prev is not None and f < prev - 1e-15):
                fail('steam-fraction %r h=%r' % (args, float(h)), 'fraction %r (previous %r)' % (f, prev), {'h': float(h), 'P': list(args)})
            prev = f
distinct.add('steam fraction')
samples = [{'t': 100., 'p': 1e6, 'ifc': list(T.cowat(100., 1e6)), 'iapws': list(W.cowat(100., 1e6))}]
print('@@JSON@@' + json.dumps({'evaluations': evaluations, 'distinct': len(distinct), 'failures': failures,
                               'nfailures': len(failures), 'samples': samples, 'seconds': time.time() - t0}))
