"""C01 helper: programmatic construction of t2data objects (through the library's public
constructors / add_* methods only) from a seed, a flavour, an ordered section list and sizes.

Every optional leaf goes through Builder.opt(path, value): the first pass registers the
path, a later pass with none_target == path builds the same object with that leaf None.
"""
import random
import numpy as np
from c01_model import SECTIONS, fits, E104, E103, E147, E2014, E2013, E159, F107

LETTERS = 'abcdefghijklmnopqrstuvwxyzABCDEFGHIJKLMNOPQRSTUVWXYZ'
LENGTHS = [0, 1, 3, 4, 5, 7, 8, 9, 12, 13]
MANDATORY = ['PARAM', 'ELEME', 'CONNE']       # a t2data object always has a parameter set and a grid
PRED = {'ELEME': ['ROCKS'], 'CONNE': ['ELEME'], 'DIFFU': ['MULTI'], 'SHORT': ['ELEME', 'CONNE', 'GENER']}


def stable_name(n):
    """5-character names on which the (A3,I2) convention is the identity (the harness' own predicate)."""
    if len(n) != 5 or n.strip() == '' or '\n' in n:
        return False
    if n[3] == '0' and n[4].isdigit() and not n[2].isdigit():
        return False
    if n[2].isdigit() and n[3] == ' ' and n[4].isdigit():
        return False
    if n[3] == ' ' and n[4].isdigit() and False:
        return False
    return n[:5] not in ('ELEME', 'CONNE', 'GENER') and not n.startswith('+++')


def legal_order(order):
    pos = {s: i for i, s in enumerate(order)}
    if 'SIMUL' in pos and pos['SIMUL'] != 0:
        return False
    for s, ps in PRED.items():
        if s in pos:
            for p in ps:
                if p in pos and pos[p] > pos[s]:
                    return False
    # connection histories are resolved against the connections when blocks are already there
    if 'COFT' in pos and 'ELEME' in pos and 'CONNE' in pos and pos['ELEME'] < pos['COFT'] < pos['CONNE']:
        return False
    return True


def random_order(rng, secs):
    """A random legal order of the given section set."""
    left = set(secs)
    out = []
    if 'SIMUL' in left:
        out.append('SIMUL'); left.discard('SIMUL')
    while left:
        avail = sorted([s for s in left if all(p not in left for p in PRED.get(s, []))], key=SECTIONS.index)
        s = rng.choice(avail)
        out.append(s); left.discard(s)
    if not legal_order(out):
        out.remove('COFT'); out.insert(out.index('CONNE') + 1, 'COFT')
    return out


class Builder(object):
    def __init__(self, lib, seed, flavour, sections, sizes=None, none_target=None, binary=False, short=False,
                 explicit_order=True):
        """lib: the imported t2data module namespace; sections: ordered keyword list;
        sizes: dict of list lengths (defaults drawn from LENGTHS); binary: restrict the grid to what a
        MESHA/MESHB pair can carry; short: reals with <= 3 significant digits (exact in any field)."""
        self.lib, self.rng, self.flavour = lib, random.Random(seed), flavour
        self.sections = list(sections)
        self.sizes = dict(sizes or {})
        self.none_target = none_target
        self.binary, self.short = binary, short
        self.optional = []
        self.explicit_order = explicit_order
        self.names = set()

    # ---- value generators
    def size(self, key, choices=LENGTHS, lo=0):
        if key in self.sizes:
            return self.sizes[key]
        return self.rng.choice([c for c in choices if c >= lo])

    def opt(self, path, value):
        self.optional.append(path)
        return None if path == self.none_target else value

    def real(self, fmt=E104, lo=-9, hi=9, neg=False, positive=False):
        r = self.rng
        for _ in range(50):
            e = r.randint(lo, hi)
            mode = r.random()
            if self.short or mode < 0.3:
                m = r.choice([1.0, 2.0, 5.0, 1.5, 9.9, 1.25, 9.99, 3.0, 7.75])
            elif mode < 0.6:
                m = round(r.uniform(1, 10), fmt[2])
            else:
                m = r.uniform(1, 10)
            v = float('%.17g' % (m * 10.0 ** e))
            if self.short:
                v = float('%.2e' % v)
            if neg and r.random() < 0.3:
                v = -v
            if fits(v, fmt, full=not (v < 0)) and (fits(v, fmt, False)):
                return v
        return 1.0

    def frac(self):
        r = self.rng
        return r.choice([0.0, 1.0, 0.5, 0.25]) if (self.short or r.random() < 0.4) else round(r.uniform(0, 1), r.choice([2, 5, 12]))

    def integer(self, w, lo=0):
        r = self.rng
        hi = 10 ** w - 1
        return r.choice([lo, hi, r.randint(lo, hi), r.randint(lo, min(hi, 20))])

    def name5(self, pool=None):
        r = self.rng
        for _ in range(1000):
            form = r.randint(0, 5)
            a = ''.join(r.choice(LETTERS) for _ in range(5))
            if form == 0: n = a
            elif form == 1: n = a[:3] + '%2d' % r.randint(1, 99)
            elif form == 2: n = a[:2] + '%3d' % r.randint(100, 999)
            elif form == 3: n = ' ' + a[:2] + '%2d' % r.randint(1, 99)
            elif form == 4: n = a[:2] + ' ' + a[3:]
            else: n = a[:4] + str(r.randint(0, 9))
            if stable_name(n) and n not in self.names:
                self.names.add(n)
                return n
        raise RuntimeError('name pool exhausted')

    def reals(self, n, fmt=E104, **kw):
        return [self.real(fmt, **kw) for _ in range(n)]

    # ---- the object
    def build(self):
        L, r, S = self.lib, self.rng, self.sections
        dat = L.t2data()
        auto = self.flavour == 'AUTOUGH2'
        dat.title = r.choice(['', 'x', 'C01 generated model %d' % r.randint(0, 999), 'T' * 80, 'ROCKS in the title'])
        if auto:
            dat.simulator = r.choice(['AUTOUGH2.2EWAV', 'AUTOUGH2  EW', 'AUTOUGH2.2'])
        opt = self.opt
        # ROCKS
        rocks = []
        nrocks = self.size('rocks', [1, 2, 3, 5], 1) if ('ROCKS' in S) else 0
        for i in range(nrocks):
            p = 'ROCKS[%d].' % i
            nad = self.sizes.get('nad', r.choice([0, 0, 1, 2, 3]))
            rt = L.rocktype(name=self.name5(), nad=opt(p + 'nad', nad) if nad == 0 else nad,
                            density=opt(p + 'density', self.real(E104, 2, 4)),
                            porosity=opt(p + 'porosity', self.frac()),
                            permeability=[opt(p + 'k[%d]' % j, self.real(E104, -18, -11)) for j in range(3)],
                            conductivity=opt(p + 'conductivity', self.real(E104, -1, 1)),
                            specific_heat=opt(p + 'specific_heat', self.real(E104, 2, 4)))
            if nad >= 1:
                rt.compressibility = self.real(E104, -11, -8)
                rt.expansivity = self.real(E104, -6, -3)
                rt.dry_conductivity = self.real(E104, -1, 1)
                rt.tortuosity = self.frac()
                for k in ('klinkenberg', 'xkd3', 'xkd4'):
                    if r.random() < 0.7 or self.none_target:
                        v = opt(p + k, self.real(E104, -3, 6))
                        if v is not None: setattr(rt, k, v)
            if nad >= 2:
                for tag, d in (('rp', rt.relative_permeability), ('cp', rt.capillarity)):
                    npar = self.sizes.get('npar', r.choice([0, 1, 3, 4, 7]))
                    d['type'] = opt(p + tag + '.type', r.randint(1, 12))
                    d['parameters'] = [opt(p + tag + '.par[%d]' % j, self.real(E103, -3, 6, neg=True)) for j in range(npar)]
            dat.grid.add_rocktype(rt)
            rocks.append(rt)
        # PARAM (always)
        par = dat.parameter
        rich = 'PARAM' in S and not self.sizes.get('default_param')
        if rich:
            for k, w in (('max_iterations', 2), ('print_level', 2), ('max_timesteps', 4), ('max_duration', 4), ('print_interval', 4)):
                par[k] = opt('PARAM.' + k, self.integer(w))
            for i in range(1, 25):
                par['option'][i] = r.choice([0, 0, 0, 1, 2, 5, 9])
            if auto: par['diff0'] = opt('PARAM.diff0', self.real(E103, -7, -3))
            par['texp'] = opt('PARAM.texp', self.real(E103, 0, 1))
            par['be'] = opt('PARAM.be', self.real(E103, 0, 1))
            par['tstart'] = self.real(E103, 0, 8) if r.random() < 0.5 else 0.0
            par['tstop'] = opt('PARAM.tstop', self.real(E103, 3, 15))
            par['max_timestep'] = opt('PARAM.max_timestep', self.real(E103, 3, 12))
            par['print_block'] = opt('PARAM.print_block', None)      # set below once the grid exists
            par['gravity'] = r.choice([0.0, 9.81] if self.short else [0.0, 9.81, 9.8065])
            par['timestep_reduction'] = opt('PARAM.timestep_reduction', self.real(E104, 0, 0))
            par['scale'] = opt('PARAM.scale', self.real(E104, -2, 2))
            for k in ('relative_error', 'absolute_error', 'pivot', 'upstream_weight', 'newton_weight', 'derivative_increment'):
                par[k] = opt('PARAM.' + k, self.real(E104, -8, 0))
            nts = self.size('timestep')
            if nts == 0:
                par['const_timestep'] = self.real(E103, 0, 6)
            else:
                par['const_timestep'] = -float((nts + 7) // 8)
                par['timestep'] = self.reals(nts, E104, lo=0, hi=8)
            ninc = self.size('default_incons', [0, 1, 2, 3, 4, 5, 7, 8, 9, 12])
            par['default_incons'] = [opt('PARAM.default_incons[%d]' % j, self.real(E2014, -3, 7, neg=True)) if j < ninc - 1
                                     else self.real(E2014, -3, 7) for j in range(ninc)]
        if 'MOMOP' in S:
            for i in range(1, 22):
                dat.more_option[i] = r.choice([0, 0, 1, 2, 7])
            dat.more_option[r.randint(1, 21)] = r.randint(1, 9)
        dat.start = 'START' in S
        dat.noversion = 'NOVER' in S
        if 'RPCAP' in S:
            for tag, d in (('rp', dat.relative_permeability), ('cp', dat.capillarity)):
                npar = self.sizes.get('npar', r.choice([0, 1, 3, 4, 7]))
                d['type'] = opt('RPCAP.%s.type' % tag, r.randint(1, 12))
                d['parameters'] = [opt('RPCAP.%s.par[%d]' % (tag, j), self.real(E103, -3, 6, neg=True)) for j in range(npar)]
        if 'LINEQ' in S:
            dat.lineq.update({'type': opt('LINEQ.type', r.randint(1, 5)), 'epsilon': opt('LINEQ.epsilon', self.real(E104, -12, -6)),
                              'max_iterations': opt('LINEQ.max_iterations', self.integer(4)), 'gauss': opt('LINEQ.gauss', r.randint(0, 1)),
                              'num_orthog': opt('LINEQ.num_orthog', self.integer(4))})
        if 'SOLVR' in S:
            dat.solver.update({'type': opt('SOLVR.type', r.randint(1, 6)), 'z_precond': opt('SOLVR.z_precond', r.choice(['Z0', 'Z1', 'Z4'])),
                               'o_precond': opt('SOLVR.o_precond', r.choice(['O0', 'O4'])),
                               'relative_max_iterations': opt('SOLVR.relative_max_iterations', self.real(E104, -2, 0)),
                               'closure': opt('SOLVR.closure', self.real(E104, -12, -6))})
        ncomp = nph = 0
        if 'MULTI' in S:
            ncomp, nph = (self.sizes.get('ncomp', r.randint(1, 5)), self.sizes.get('nph', r.choice([1, 2, 3, 7, 8])))
            need = 'DIFFU' in S
            dat.multi.update({'num_components': ncomp if need else opt('MULTI.num_components', ncomp),
                              'num_equations': opt('MULTI.num_equations', ncomp + 1),
                              'num_phases': nph if need else opt('MULTI.num_phases', nph),
                              'num_secondary_parameters': opt('MULTI.num_secondary_parameters', r.choice([6, 8]))})
            if auto: dat.multi['eos'] = opt('MULTI.eos', r.choice(['EW', 'EWAV', 'EWC', 'E']))
            else: dat.multi['num_inc'] = opt('MULTI.num_inc', r.randint(1, 9))
        if 'TIMES' in S:
            n = self.size('times', lo=1)
            dat.output_times.update({'num_times_specified': n, 'num_times': opt('TIMES.num_times', n + r.randint(0, 5)),
                                     'max_timestep': opt('TIMES.max_timestep', self.real(E104, 3, 9)),
                                     'time_increment': opt('TIMES.time_increment', self.real(E104, 3, 9)),
                                     'time': sorted(self.reals(n, E104, lo=2, hi=12))})
        if 'SELEC' in S:
            n = self.size('selec')
            fl = [opt('SELEC.float[%d]' % j, self.real(E103, -5, 8, neg=True)) if j < n - 1 else self.real(E103, -5, 8) for j in range(n)]
            nint = self.sizes.get('selec_int', r.choice([1, 2, 8, 16]))
            dat.selection['integer'] = [(n + 7) // 8] + [opt('SELEC.integer[%d]' % j, self.integer(5)) if j < nint - 1
                                                         else self.integer(5) for j in range(1, nint)]
            dat.selection['float'] = fl
        if 'DIFFU' in S:
            dat.diffusion = [[opt('DIFFU[%d][%d]' % (i, j), self.real(E103, -10, -4)) for j in range(nph)] for i in range(ncomp)]
        # ELEME / CONNE (always; possibly empty)
        nblk = self.size('blocks') if rocks else 0
        if ('SHORT' in S or 'INCON' in S) and nblk < 2 and rocks: nblk = 3
        blocks = []
        for i in range(nblk):
            p = 'ELEME[%d].' % i
            has_centre = self.binary or r.random() < 0.7
            b = L.t2block(self.name5(), self.real(E104, -2, 9) if self.binary else opt(p + 'volume', self.real(E104, -2, 9)),
                          r.choice(rocks),
                          centre=opt(p + 'centre', np.array(self.reals(3, E103, lo=-1, hi=4, neg=True))) if (has_centre and not self.binary)
                          else (np.array(self.reals(3, E103, lo=-1, hi=4, neg=True)) if has_centre else None),
                          ahtx=opt(p + 'ahtx', self.real(E104, 0, 5)) if r.random() < 0.6 else None,
                          pmx=opt(p + 'pmx', self.real(E104, -1, 1)) if r.random() < 0.6 else None,
                          nseq=None if self.binary or r.random() < 0.6 else opt(p + 'nseq', r.randint(1, 99)),
                          nadd=None if self.binary or r.random() < 0.6 else opt(p + 'nadd', r.randint(1, 99)))
            dat.grid.add_block(b); blocks.append(b)
        ncon = min(self.size('connections'), nblk * (nblk - 1) // 2)
        pairs = [(i, j) for i in range(nblk) for j in range(nblk) if i < j]
        r.shuffle(pairs)
        cons = []
        for i, (a, b) in enumerate(pairs[:ncon]):
            p = 'CONNE[%d].' % i
            if r.random() < 0.3: a, b = b, a
            bin_ = self.binary
            k = L.t2connection([blocks[a], blocks[b]], r.randint(1, 3) if bin_ else opt(p + 'direction', r.randint(1, 3)),
                               [self.real(E104, -1, 3) if bin_ else opt(p + 'distance[0]', self.real(E104, -1, 3)),
                                self.real(E104, -1, 3) if bin_ else opt(p + 'distance[1]', self.real(E104, -1, 3))],
                               self.real(E104, -1, 5) if bin_ else opt(p + 'area', self.real(E104, -1, 5)),
                               (r.choice([0.0, 1.0, -1.0, 0.5, -0.25]) if (self.short or r.random() < 0.5) else round(r.uniform(-1, 1), r.choice([3, 7, 12])))
                               if bin_ else opt(p + 'dircos', r.choice([0.0, 1.0, -1.0, 0.5, -0.25]) if (self.short or r.random() < 0.5)
                                                else round(r.uniform(-1, 1), r.choice([3, 7, 12]))),
                               opt(p + 'sigma', self.real(E103, -2, 0)) if r.random() < 0.4 else None,
                               None if bin_ or r.random() < 0.6 else opt(p + 'nseq', r.randint(1, 99)),
                               None if bin_ or r.random() < 0.6 else opt(p + 'nad1', r.randint(1, 99)),
                               None if bin_ or r.random() < 0.6 else opt(p + 'nad2', r.randint(1, 99)))
            dat.grid.add_connection(k); cons.append(k)
        if rich and blocks and par['print_block'] is None and self.none_target != 'PARAM.print_block':
            cands = [b.name for b in blocks if not b.name[3:5].isdigit()]
            if cands: par['print_block'] = r.choice(cands)
        elif rich and not blocks and self.none_target != 'PARAM.print_block':
            par['print_block'] = 'abcde'
        # MESHM
        if 'MESHM' in S:
            kinds = self.sizes.get('meshmaker') or r.choice([['rz2d'], ['xyz'], ['minc'], ['rz2d', 'minc'], ['xyz', 'minc'], ['xyz', 'rz2d', 'minc']])
            for i, kind in enumerate(kinds):
                p = 'MESHM[%d].' % i
                if kind == 'rz2d':
                    sub = []
                    for j in range(self.sizes.get('rz2d_subs', r.randint(0, 3))):
                        q = p + '%d.' % j
                        st = r.choice(['radii', 'equid', 'logar'])
                        if st == 'radii': sub.append(('radii', {'radii': sorted(self.reals(self.size('radii', lo=1), E104, lo=0, hi=4))}))
                        elif st == 'equid': sub.append(('equid', {'nequ': opt(q + 'nequ', self.integer(5, 1)), 'dr': opt(q + 'dr', self.real(E104, 0, 3))}))
                        else: sub.append(('logar', {'nlog': opt(q + 'nlog', self.integer(5, 1)), 'rlog': opt(q + 'rlog', self.real(E104, 1, 5)),
                                                    'dr': opt(q + 'dr', self.real(E104, 0, 3))}))
                    n = self.size('layer', lo=1)
                    q = p + '%d.' % len(sub)
                    sub.append(('layer', {'layer': [opt(q + 'layer[%d]' % m, self.real(E104, 0, 3)) if m < n - 1 else self.real(E104, 0, 3) for m in range(n)]}))
                    dat.meshmaker.append(('rz2d', sub))
                elif kind == 'xyz':
                    sec = [opt(p + 'deg', self.real(E104, 0, 1))]
                    for j in range(self.sizes.get('xyz_subs', r.randint(1, 4))):
                        q = p + '%d.' % j
                        if r.random() < 0.5 or 'xyz' in self.sizes:
                            n = self.size('xyz', lo=1)
                            sec.append({'ntype': r.choice(['NX', 'NY', 'NZ']), 'no': n, 'del': 0.0,
                                        'deli': [opt(q + 'deli[%d]' % m, self.real(E104, 0, 3)) if m < n - 1 else self.real(E104, 0, 3) for m in range(n)]})
                        else:
                            sec.append({'ntype': opt(q + 'ntype', r.choice(['NX', 'NY', 'NZ'])), 'no': opt(q + 'no', self.integer(5, 1)),
                                        'del': opt(q + 'del', self.real(E104, 0, 3))})
                    dat.meshmaker.append(('xyz', sec))
                else:
                    n = self.size('vol', lo=1)
                    nsp = self.sizes.get('spacing', r.choice([0, 1, 3, 7]))
                    dat.meshmaker.append(('minc', {
                        'type': r.choice(['ONE-D', 'TWO-D', 'THRED', 'STAGG']), 'dual': opt(p + 'dual', r.choice(['MMVER', 'MMALL', 'abcde'])),
                        'num_continua': opt(p + 'num_continua', r.randint(1, 999)), 'where': opt(p + 'where', r.choice(['OUT ', 'IN  ', 'abcd'])),
                        'spacing': [opt(p + 'spacing[%d]' % m, self.real(E104, 0, 3)) if m < nsp - 1 else self.real(E104, 0, 3) for m in range(nsp)],
                        'vol': [opt(p + 'vol[%d]' % m, self.frac()) if m < n - 1 else 0.5 for m in range(n)]}))
        # GENER
        gens = []
        if 'GENER' in S:
            ngen = self.size('generators', [1, 2, 3, 5], 1)
            tl = self.sizes.get('table')
            for i in range(ngen):
                p = 'GENER[%d].' % i
                blk = r.choice(blocks).name if blocks else self.name5()
                gtype = r.choice(['MASS', 'HEAT', 'COM1', ' AIR', 'DELV', 'MASS', 'MASS'] + (['CO2 ', 'XINJ'] if auto else []))
                ltab = tl if tl is not None else r.choice([0, 0, 1, 2, 3, 4, 5, 7, 8, 9, 12, 13])
                with_h = self.sizes.get('enthalpy', r.random() < 0.5)
                if tl is not None and gtype == 'DELV': gtype = 'MASS'
                table = ltab > 1 and gtype != 'DELV'
                gen = L.t2generator(name=self.name5(), block=blk,
                                    nseq=opt(p + 'nseq', r.randint(1, 99)) if r.random() < 0.3 else None,
                                    nadd=opt(p + 'nadd', r.randint(1, 99)) if r.random() < 0.3 else None,
                                    nads=opt(p + 'nads', r.randint(1, 99)) if r.random() < 0.3 else None,
                                    type=gtype, ltab=ltab if table else opt(p + 'ltab', ltab),
                                    itab=('E' if (table and with_h) else ''),
                                    gx=opt(p + 'gx', self.real(E103, -3, 3, neg=True)), ex=opt(p + 'ex', self.real(E103, 4, 6)),
                                    hg=opt(p + 'hg', self.real(E103, 4, 6)) if r.random() < 0.5 else None,
                                    fg=opt(p + 'fg', self.real(E103, -2, 0)) if r.random() < 0.5 else None)
                if table:
                    gen.time = sorted(self.reals(ltab, E147, lo=0, hi=9))
                    gen.rate = self.reals(ltab, E147, lo=-3, hi=3, neg=True)
                    if with_h: gen.enthalpy = self.reals(ltab, E147, lo=4, hi=6)
                dat.add_generator(gen); gens.append(gen)
        if 'SHORT' in S:
            so = dat.short_output
            if r.random() < 0.7 or self.none_target: so['frequency'] = opt('SHORT.frequency', r.randint(1, 99))
            if blocks and r.random() < 0.8: so['block'] = r.sample(blocks, r.randint(0, min(3, len(blocks))))
            if r.random() < 0.7: so['connection'] = r.sample(cons, r.randint(0, min(3, len(cons))))
            if r.random() < 0.7: so['generator'] = r.sample(gens, r.randint(0, min(3, len(gens))))
            if not so: so['block'] = []
        def pick_names(n):
            if blocks: return [b.name for b in r.sample(blocks, min(n, len(blocks)))]
            return [self.name5() for _ in range(n)]
        if 'FOFT' in S:
            names = pick_names(self.size('history', [1, 2, 3], 1))
            dat.history_block = [dat.grid.block[n] for n in names] if (blocks and r.random() < 0.7) else names
        if 'COFT' in S:
            if cons: dat.history_connection = r.sample(cons, min(len(cons), r.randint(1, 3)))
            elif not blocks: dat.history_connection = [(self.name5(), self.name5()) for _ in range(r.randint(1, 3))]
        if 'GOFT' in S:
            names = pick_names(self.size('history', [1, 2, 3], 1))
            dat.history_generator = [dat.grid.block[n] for n in names] if (blocks and r.random() < 0.7) else names
        if 'INCON' in S and blocks:
            for b in r.sample(blocks, r.randint(1, len(blocks))):
                p = 'INCON[%s].' % b.name
                nv = self.sizes.get('incon_vars', r.randint(1, 4))
                inc = [opt(p + 'porosity', self.frac()),
                       [opt(p + 'var[%d]' % j, self.real(E2014, -3, 7, neg=True)) if j < nv - 1 else self.real(E2014, -3, 7) for j in range(nv)]]
                if r.random() < 0.3: inc += [r.randint(1, 99), opt(p + 'nadd', r.randint(1, 99))]
                dat.incon[b.name] = inc
        if 'INDOM' in S:
            for i in range(r.randint(1, 3)):
                nm = rocks[i].name if i < len(rocks) else self.name5()
                nv = self.sizes.get('incon_vars', r.randint(1, 4))
                dat.indom[nm] = [opt('INDOM[%s][%d]' % (nm, j), self.real(E2013, -3, 7, neg=True)) if j < nv - 1 else self.real(E2013, -3, 7) for j in range(nv)]
        dat.end_keyword = self.sizes.get('end_keyword', r.choice(['ENDCY', 'ENDCY', 'ENDFI']))
        # sections really carried by the object (a section whose content came out empty is dropped)
        present = ['SIMUL'] if auto else []
        content = {'ROCKS': rocks, 'MOMOP': True, 'START': True, 'NOVER': True, 'RPCAP': True, 'LINEQ': True, 'SOLVR': True,
                   'MULTI': True, 'TIMES': True, 'SELEC': True, 'DIFFU': dat.diffusion, 'MESHM': True, 'GENER': gens,
                   'SHORT': True, 'FOFT': dat.history_block, 'COFT': dat.history_connection, 'GOFT': dat.history_generator,
                   'INCON': dat.incon, 'INDOM': True, 'PARAM': True, 'ELEME': True, 'CONNE': True}
        order = [s for s in S if s != 'SIMUL' and content.get(s)]
        for m in MANDATORY:
            if m not in order:
                # library's canonical placement is not assumed: put mandatory sections where legality needs them
                order.append(m)
        order = present + order
        if not legal_order(order) and not self.sizes.get('keep_order'):
            order = [s for s in SECTIONS if s in order]
        # The generators keep one known trigger out of the way so that it cannot mask anything else (it is exercised
        # by dedicated probes instead): a PARAM section that is the last one of the main file, whose reader
        # consumes the ENDCY / ENDFI line.
        excluded = set(self.sizes.get('main_excluded', ()))
        main = [s for s in order if s not in excluded]
        if main and main[-1] == 'PARAM':
            if self.sizes.get('param_not_last'):
                if len(main) > 1 and main[-2] != 'SIMUL':
                    order.remove('PARAM'); order.insert(order.index(main[-2]), 'PARAM')
                else:
                    dat.start = True
                    if 'START' not in order: order.append('START')
            elif 'end_keyword' not in self.sizes:
                dat.end_keyword = 'ENDCY'
        if self.explicit_order or self.sizes.get('param_not_last'):
            dat._sections = list(order)
        else:
            order = [s for s in SECTIONS if s in order]
        return dat, order
