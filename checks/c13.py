"""C13 - initial-conditions file write/read round trip preserves every block's state."""
from checks import generic
from contracts import c13


def main(tier):
    return generic.run('C13', 'other', tier, c13, c13.programs(tier), c13.FUNCS, 'c13_incons.py', 'incon_file_roundtrip',
        '0..N blocks, 1..12 primary variables, negative and 3-digit-exponent values, porosity / TOUGHREACT permeabilities / sequence numbers present or absent, timing present or absent x reset on/off, '
        'block names from every naming convention, the 7 shipped files; write-read equality to 13 decimals and byte-identical second write',
        trust=('record tape model of the incon parser (text layer: C02 on t2incon_format_specification with the Fortran readers of C16)', 'pyvc heap model of t2incon / t2blockincon', 'z3'),
        assume=('deductive part: 3 blocks with concrete names, 1..12 symbolic primary variables, symbolic porosity / permeabilities / sequence numbers / timing values',),
        explanation='clause -> evidence: the real write() emits each block\'s variables four per line and the real read() rebuilds the same blocks in order with the same variables, porosity, '
                    'permeability triple, sequence numbers, simulator flavour, and the restart timing exactly when timing is present and not reset (PROVED for 1,2,3,4,5,8,9,12 variables x TOUGH2/TOUGHREACT x timing/reset combinations over '
                    'symbolic values; header/timing record kinds must agree between writer and reader); every block name generated under each naming convention is a fixed point of one write/read cycle and (conventions 0, 1) '
                    'passes the reader\'s validity check in its written form (PROVED). Text-level round trip to 13 decimals, byte identity of the second write, shipped files: BOUNDED.')
