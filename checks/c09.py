"""C09 - reordering, renaming and MINC do not change the physics the grid describes."""
from checks import generic
from contracts import c09


def main(tier):
    return generic.run('C09', 'other', tier, c09, c09.PROGRAMS, c09.FUNCS, 'c09_physics.py', 'physical_signature_before_after',
        'grids built from rectangular and shipped irregular geometries (all atmosphere types): permutations of blocks and connections with any subset reversed, one-to-one rename maps, compositions, '
        'optional data-file round trip; MINC with 2..6 fractions, 1..3 plane sets, several spacings, full / partial selection; embed; physical signature compared before / after',
        trust=('pyvc heap model: the real t2grid / t2block / t2connection objects as records, lists, dicts and sets with concrete block names and symbolic numeric contents', 'z3'),
        assume=('deductive part: a 4-block, 4-connection grid (a cycle), all 16 reversal masks, one fixed permutation; four rename maps (swap, 3-cycle, fresh names, chain)',
                'MINC volume split and chaining, embed volume conservation, larger grids and arbitrary permutations: bounded'),
        explanation='clause -> evidence: reorder with any subset of connections listed in reverse keeps every block\'s volume, centre and rock type and every pair\'s interface area, permeability direction, '
                    'each block\'s own distance and nad, and a gravity cosine naming the same upper block; the lists have the requested order; the grid stays well formed: PROVED for symbolic numeric contents. '
                    'rename_blocks with swap / cycle / chain / fresh maps loses no block and keeps the network: PROVED. MINC, embed, file round trips, real meshes: BOUNDED.')
