"""C09 - reordering, renaming and MINC do not change the physics the grid describes."""
from checks import generic
from contracts import c09, c09b


def main(tier):
    return generic.run('C09', 'other', tier, c09, c09.PROGRAMS, c09.FUNCS + c09b.FUNCS, 'c09_physics.py', 'physical_signature_before_after',
        'grids built from rectangular and shipped irregular geometries (all atmosphere types): permutations of blocks and connections with any subset reversed, one-to-one rename maps, compositions, '
        'optional data-file round trip; MINC with 2..6 fractions, 1..3 plane sets, several spacings, full / partial selection; embed; physical signature compared before / after',
        trust=('pyvc heap model: the real t2grid / t2block / t2connection objects as records, lists, dicts and sets with concrete block names and symbolic numeric contents', 'z3'),
        assume=('deductive part: a 4-block, 4-connection grid (a cycle), all 16 reversal masks, one fixed permutation; four rename maps (swap, 3-cycle, fresh names, chain)',
                'MINC: the real minc() on the same grid for 2, 3 and 4 symbolic volume fractions, all blocks or two of them; minc.invert_proximity (scipy bisect) is external and returns an unconstrained pair of reals - it decides only connection distances and interface areas, which the statement does not constrain; symbolic denominators in that geometry arithmetic are assumed non-zero',
                'embed volume conservation is proved in C08 / p_embed; larger grids, arbitrary permutations, other MINC settings: bounded'),
        explanation='clause -> evidence: reorder with any subset of connections listed in reverse keeps every block\'s volume, centre and rock type and every pair\'s interface area, permeability direction, '
                    'each block\'s own distance and nad, and a gravity cosine naming the same upper block; the lists have the requested order; the grid stays well formed: PROVED for symbolic numeric contents. '
                    'rename_blocks with swap / cycle / chain / fresh maps loses no block and keeps the network: PROVED. The real minc() keeps each processed block\'s total volume, splits it among its continua in the requested (normalised) fractions, chains fracture -> matrix 1 -> ... -> innermost matrix, adds exactly those blocks and connections, registers the MINC rock types, leaves unprocessed blocks alone and the grid well formed: PROVED for symbolic volumes and fractions (4 programs). File round trips, real meshes, other MINC settings: BOUNDED.',
        extra=[(c09b, c09b.PROGRAMS)])
