"""Shared driver for checks made of pyvc / plain obligation programs plus a bounded harness."""
import os
from vlib.check import Check, run_programs, absorb, run_bounded_script, REPO, VERIF
from checks.c17 import bounded_to_check


def run(pid, level, tier, contracts_mod, programs, funcs, bounded_script, bounded_name, bounded_rule,
        trust=(), assume=(), explanation='', timeout_ms=(30000, 120000), bounded_timeout=(900, 3400), post=None, extra=()):
    chk = Check(pid, level, tier)
    for q in funcs:
        chk.function_under_contract(q)
    if programs:
        res = run_programs('contracts.' + contracts_mod.__name__.split('.')[-1], programs,
                           timeout_ms=timeout_ms[0] if tier == 'quick' else timeout_ms[1])
        absorb(chk, res, getattr(contracts_mod, 'replay', None), prefix=pid + '/')
    for mod, progs in extra:          # obligation programs shared with another property's contracts module
        res = run_programs('contracts.' + mod.__name__.split('.')[-1], progs, timeout_ms=timeout_ms[0] if tier == 'quick' else timeout_ms[1])
        absorb(chk, res, getattr(mod, 'replay', None), prefix=pid + '/')
    scripts = bounded_script if isinstance(bounded_script, (list, tuple)) else [bounded_script]
    names = bounded_name if isinstance(bounded_name, (list, tuple)) else [bounded_name]
    rules = bounded_rule if isinstance(bounded_rule, (list, tuple)) else [bounded_rule]
    for sc, nm, rl in zip(scripts, names, rules):
        if sc and os.path.exists(os.path.join(VERIF, 'bounded', sc)):
            b = run_bounded_script(sc, [tier, chk.seed], timeout=bounded_timeout[0] if tier == 'quick' else bounded_timeout[1])
            b['cmd'] = 'PYTOUGH_REPO=%s /venv/bin/python bounded/%s %s %s' % (REPO, sc, tier, chk.seed)
            bounded_to_check(chk, '%s/bounded:%s' % (pid, nm), b, rl)
        elif sc:
            chk.notes.append('bounded harness %s not present' % sc)
    chk.trust(*trust)
    chk.assume(*assume)
    chk.explanation = explanation
    if post:
        post(chk)
    return chk.finish()
