"""C14 - IAPWS-97 water properties are thermodynamically consistent over their range."""
from vlib.check import Check, run_programs, absorb, run_bounded_script, REPO
from contracts import c14
from checks.c17 import bounded_to_check

LEVEL = 'other'


def main(tier):
    chk = Check('C14', LEVEL, tier)
    for q in c14.FUNCS:
        chk.function_under_contract(q)
    res = run_programs('contracts.c14', c14.PLAIN, timeout_ms=60000 if tier == 'quick' else 300000)
    absorb(chk, res, c14.replay, prefix='C14/')
    for v in chk.violations:
        if 'range:sat_within_tsat_domain[373.9459..tcritical]' in v['obligation']:
            v['key'] = 'sat-tsat-near-critical (deductive) ' + v['obligation']
    b = run_bounded_script('c14_grid.py', [tier, chk.seed], timeout=600 if tier == 'quick' else 3000)
    b['cmd'] = 'PYTOUGH_REPO=%s /venv/bin/python bounded/c14_grid.py %s %s' % (REPO, tier, chk.seed)
    bounded_to_check(chk, 'C14/bounded:grids', b,
                     'dense grids: saturation line both directions incl. both end points; b23 both directions; density monotone in pressure '
                     '(regions 1, 2; region 3 above Tc in density), viscosity > 0, classifier vs equation validity on grids and random states, '
                     'IAPWS-97 boundary consistency 1/3 at 350 C and 2/3 on b23 (0.05 % volume, 0.2 kJ/kg enthalpy); distinct = clause groups')
    chk.trust('A1: floating-point arithmetic treated as exact real arithmetic; float literals denote their decimal text',
              'symx transformation of the real source (float literals -> exact rationals, comparisons -> path log, numpy/math shims), listed in symx/loader.py',
              'sympy normal form (together + expand of the numerator) decides rational-function identities', 'z3 nlsat (QF_NRA) for univariate range obligations',
              'exp(x) > 0 (viscosity)')
    chk.assume('single-potential identities are proved on each function\'s main path (inside its range check); outside it the function returns None',
               'density monotonicity, positivity beyond the dilute-gas factor, cross-boundary tolerances: bounded grids only',
               'tsat(sat(t)) == t on [0.01, 373.9459] is a chain of discharged lemmas over the reals: sat = pstar x0^4 with x0 > 0 (L1); both functions on the one saturation curve (L2); theta is the root tsat\'s first formula selects (L3 + generic G0, G1, G3) with a non-vanishing denominator; tk is the root its second formula selects (L4 + G2); the real tsat body is exactly those two root formulas. Above 373.9459 sat leaves tsat\'s domain (known finding).')
    chk.explanation = ('clause -> evidence: power chains == powers and never read before written (PROVED, 10 tables); d,u / p,u derive from one potential '
                       '(PROVED exactly for cowat, supst, super from the returned pair); sat and tsat on the one saturation curve (PROVED, nlsat); sat(t) within tsat\'s domain '
                       '(PROVED on [0.01, 373.9459]; KNOWN FINDING on the last 1e-4 K: sat exceeds pcritical); tsat(sat(t)) == t over the reals on that interval (PROVED as a lemma chain); b23 forms inverse within 1e-6 K (PROVED); region classifier piecewise contract '
                       '(PROVED with sat uninterpreted); viscosity sign reduces to a univariate polynomial sign (PROVED); monotone density, tolerances across boundaries, exact round trip: BOUNDED grids.')
    return chk.finish()
