"""C10 - geometry stays internally consistent under any sequence of edits."""
from checks import generic
from contracts import c11


def main(tier):
    return generic.run('C10', 'other', tier, c11, [('p_num_layers', None), ('p_index', None), ('o_templates', None), ('p_transition_type', 3), ('p_transition_type', 4)], c11.FUNCS,
        'c10_geoedits.py', 'wellformed_after_every_edit',
        'exhaustive: every operation with every column subset (level 1), bounded subset families at level 2 (and 3 in the thorough tier) on a 2x2, a 3x2 and a mixed triangle/quad/pentagon mesh over {split, rename, '
        'refine variants, decompose, reduce, delete, refine_layers, snap, fit_surface, translate, rotate, copy_layers_from, add/delete node / column / connection / layer / well, check(fix=True)}; random 25-operation '
        'histories on the shipped geometries; wf(geo) and check() after every edit; file round trip at the end of each history',
        trust=('the representation invariant wf(geo) of DESIGN 3/C10 as a plain function', 'z3 / sympy for the shared template and index obligations'),
        assume=('heap-mutating editing operations are outside the executor subset: bounded small-scope exhaustive + random',),
        explanation='clause -> evidence: the cyclic index helpers are modular arithmetic; the refinement templates conserve area and are conforming; transition_type is total and consistent with the templates (PROVED, shared with C11). '
                    'Well-formedness of the geometry after every enumerated / random edit sequence, validity of the mesh after the operations that promise one, file round trip: BOUNDED. 10 known findings.',
        bounded_timeout=(1200, 3400))
