"""C10 - geometry stays internally consistent under any sequence of edits."""
from checks import generic
from contracts import c11, c10


def main(tier):
    return generic.run('C10', 'other', tier, c10, c10.programs(tier), c10.FUNCS + c11.FUNCS,
        'c10_geoedits.py', 'wellformed_after_every_edit',
        'exhaustive: every operation with every column subset (level 1), bounded subset families at level 2 (and 3 in the thorough tier) on a 2x2, a 3x2 and a mixed triangle/quad/pentagon mesh over {split, rename, '
        'refine variants, decompose, reduce, delete, refine_layers, snap, fit_surface, translate, rotate, copy_layers_from, add/delete node / column / connection / layer / well, check(fix=True)}; random 25-operation '
        'histories on the shipped geometries; wf(geo) and check() after every edit; file round trip at the end of each history',
        trust=('the representation invariant wf(geo) of DESIGN 3/C10 evaluated on the executor heap: identity clauses on the concrete object graph, area / orientation / layer-count clauses proved by z3 under the path condition',
               'pyvc heap model of mulgrid / node / column / connection / layer objects built by the real constructors', 'z3 / sympy for the shared template and index obligations'),
        assume=('contract requires wf(geo): the start geometry is mulgrid.rectangular() (run by the executor, its wf proved first) of 2x2x2, 2x2x3, 3x2x2 or 3x1x2 blocks with symbolic spacings, elevation origin and column surfaces',
                'one operation per obligation program (31 instances) and 6 (thorough 11) two-operation sequences; longer histories, the irregular meshes, rotate / fit_surface (trigonometry, least squares) and file round trips are bounded',),
        extra=[(c11, [('p_num_layers', None), ('p_index', None), ('o_templates', None), ('p_transition_type', 3), ('p_transition_type', 4)])],
        explanation='clause -> evidence: requires wf(geo) ensures wf(geo\') PROVED clause group by clause group on the real delete_column / rename_column (single, swap) / rename_layer / refine (all, subset, bisect, bisect x) / refine_layers / decompose_columns / reduce / translate / snap_columns_to_layers / snap_columns_to_nearest_layers for every spacing and surface; split_column, delete_column, delete_layer, delete_connection and refine beside a boundary fail the clause groups recorded as known findings (the obligations reproduce them). The cyclic index helpers are modular arithmetic; the refinement templates conserve area and are conforming; transition_type is total and consistent with the templates (PROVED, shared with C11). '
                    'Well-formedness of the geometry after every enumerated / random edit sequence, validity of the mesh after the operations that promise one, file round trip: BOUNDED. 10 known findings.',
        bounded_timeout=(1200, 3400))
