"""C03 - MULgraph geometry file write/read round trip preserves the geometry."""
from checks import generic
from contracts import c03


def main(tier):
    return generic.run('C03', 'other', tier, c03, c03.PROGRAMS, c03.FUNCS, 'c03_geofile.py', 'geometry_file_roundtrip',
        'rectangular geometries with random spacings, the seven shipped geometries and refined / reduced / rotated derivatives x 4 naming conventions x 3 atmosphere types x 2 unit types x 3 block orders, '
        '0..all surface columns, 0..N wells with 2..6 points, upper / lower case names; write-read equality of header options, nodes, columns, connections, layers, surfaces, wells (0.005 tolerance), '
        'identical derived block / connection name lists, byte-identical second write, feet handling',
        trust=('record tape model of the geometry file (text layer: C02 on mulgrid_format_specification)', 'pyvc heap model of mulgrid / node / column / connection / layer / well objects', 'AST table extraction', 'z3'),
        assume=('deductive part: a quad + triangle geometry with symbolic node coordinates (convex layout), 2 layers, one surface, one well; unit scale 1 and 0.3048',
                'a layer centre of exactly 0 reads back as "absent" (format limitation, excluded); two-decimal rounding of the text and the byte-identical second write are bounded'),
        explanation='clause -> evidence: the real section writers and readers (nodes, columns with node order and specified centre, connections, layers, surfaces, wells) reproduce the geometry in order over '
                    'symbolic coordinates, in metres and in feet (file numbers are value / unit scale, re-read value x unit scale): PROVED; right-justified 2- and 3-character names survive ljust/strip/rjust: PROVED; '
                    'block-order flag tables mutually inverse, header record names instance storage that the properties read and carries every header option: PROVED (AST). Text rounding, derived name lists, byte stability on real meshes: BOUNDED.')
